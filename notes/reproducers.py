"""Runtime witnesses for the defects listed in DESIGN.md §6 (documentation only)."""
import numpy as np
import yastn
import yastn.tn.fpeps as fpeps
from yastn.sym import sym_Z2xU1


def w1():
    cfg = yastn.make_config(sym=sym_Z2xU1)
    leg = yastn.Leg(cfg, s=1, t=((0, 0), (1, 1)), D=(2, 3))
    a = yastn.rand(cfg, legs=[leg, leg.conj()])
    return (a - yastn.Tensor.from_dict(a.to_dict(level=2))).norm() == 0


def w2():
    g = fpeps.TriangularLattice(dims=(2, 3), boundary='obc', full_patch=True)
    psi = fpeps.product_peps(g, yastn.operators.Spin12(sym='dense').vec_z(1))
    return yastn.from_dict(psi.to_dict()).geometry == g


def w3():
    cfg = yastn.make_config(sym='U1')
    leg = yastn.Leg(cfg, s=1, t=(0, 1), D=(2, 3))
    b = yastn.rand(cfg, legs=[leg, leg.conj()]).T
    return b.diag().get_legs() == b.consume_transpose().diag().get_legs()


def w4():
    o = yastn.operators.SpinlessFermions(sym='U1')
    l = yastn.Leg(o.config, s=1, t=(0, 1), D=(1, 1))
    A = yastn.rand(o.config, legs=[l.conj(), l, l, l.conj(), o.space()])
    T = fpeps.DoublePepsTensor(bra=A, ket=A)
    T.add_charge_swaps_((1,), axes=['k4', 'k2'])
    before = dict(T.swaps)
    T.apply_gate_on_ket(fpeps.gates.gate_nn_hopping(1, 0.1, o.I(), o.c(), o.cp()).G[0], dirn='l')
    return T.swaps == before


def w5():
    o = yastn.operators.SpinlessFermions(sym='U1')
    g = fpeps.SquareLattice(dims=(1, 2), boundary='obc')
    vecs = {(0, 0): o.vec_n(1), (0, 1): o.vec_n(0)}
    before = {k: (v.n, v.get_legs()) for k, v in vecs.items()}
    fpeps.product_peps(g, vecs)
    return all(before[k] == (v.n, v.get_legs()) for k, v in vecs.items())


def w6():
    cfg = yastn.make_config(sym='U1')
    l1 = yastn.Leg(cfg, s=1, t=(0, 1), D=(1, 2))
    l1b = yastn.Leg(cfg, s=1, t=(0, 2), D=(1, 3))
    l2 = yastn.Leg(cfg, s=1, t=(0, 1), D=(2, 1))
    l3 = yastn.Leg(cfg, s=-1, t=(0, 1, 2, 3), D=(2, 3, 4, 5))
    x = yastn.rand(cfg, legs=[l1, l2, l3]).fuse_legs(axes=((0, 1), 2), mode='hard')
    y = yastn.rand(cfg, legs=[l1b, l2, l3]).fuse_legs(axes=((0, 1), 2), mode='hard')
    return ((x.T + y.T) - (x + y).T).norm() < 1e-12


def w7():
    cfg = yastn.make_config(sym='U1')
    m1 = yastn.Leg(cfg, s=1, t=(1,), D=(1,))
    m2 = yastn.Leg(cfg, s=-1, t=(2,), D=(1,))
    ml = yastn.ones(cfg, legs=[m1, m2], n=-1).fuse_legs(axes=[(0, 1)], mode='meta').get_legs(0)
    leg = yastn.Leg(cfg, s=1, t=(0, 1), D=(2, 3))
    r = yastn.rand(cfg, legs=[leg, leg.conj()]).add_leg(leg=ml)   # default axis=-1
    return sum(mf[0] for mf in r.mfs) == r.ndim_n


def w8():
    cz = yastn.make_config(sym='Z2')
    lz = yastn.Leg(cz, s=1, t=(0, 1), D=(2, 2))
    m = yastn.rand(cz, legs=[lz, lz]).transpose((1, 0))
    _, meta = yastn.split_data_and_meta(m.to_dict(level=0), squeeze=True)
    a = yastn.rand(cz, legs=[lz, lz])
    try:
        vec, _ = yastn.split_data_and_meta(a.to_dict(level=0, meta=meta), squeeze=True)
    except yastn.YastnError:
        return True   # rejected, as the property demands
    b = yastn.Tensor.from_dict(yastn.combine_data_and_meta(vec, meta))
    return np.allclose(b.to_numpy(), a.to_numpy())


if __name__ == '__main__':
    for k, f in enumerate((w1, w2, w3, w4, w5, w6, w7, w8), start=1):
        try:
            ok = f()
        except Exception as e:  # noqa: BLE001
            ok = False
            print(f"defect {k}: BROKEN ({type(e).__name__}: {str(e)[:70]})")
            continue
        print(f"defect {k}: {'ok' if ok else 'BROKEN'}")
