#!/bin/bash
# usage: tools/benign_probe.sh <patch> [pids...]  — applies a (behaviour-preserving) patch to a scratch copy of /repo/yastn and runs the
# quick checks on it; prints one line per check that does not exit 0
P=$(realpath "$1"); shift
PIDS=${@:-C01 C02 C03 C04 C05 C06 C08 C09 C10 C13 C14 C15 C16 C17 C18 C19 C20}
T=$(mktemp -d /tmp/sa-benign-XXXXXX)
trap 'rm -rf $T' EXIT
mkdir -p $T/evidence
cp -r /repo/yastn $T/yastn
( cd $T && patch -p1 -s < $P ) || { echo "$P: PATCH-DOES-NOT-APPLY"; exit 3; }
for pid in $PIDS; do
  out=$(cd /verif && SA_REPO=$T SA_EVIDENCE_DIR=$T/evidence /venv/bin/python -m sa.check $pid --tier quick 2>&1); rc=$?
  if [ $rc -ne 0 ]; then
    echo "$P $pid exit=$rc :: $(echo "$out" | grep -E "^  rule|ANALYSIS-ERROR" | head -2 | tr '\n' ' ' | cut -c1-260)"
    echo "$out" | grep -E "construct:" | head -2 | sed "s|^|      |"
  fi
done
echo "$P done"
