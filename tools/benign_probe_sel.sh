#!/bin/bash
# usage: tools/benign_probe_sel.sh <patch>  — like benign_probe.sh, but runs only the checks whose scope contains a file the patch touches
P=$(realpath "$1")
sel=""
add() { for x in "$@"; do case " $sel " in *" $x "*) ;; *) sel="$sel $x";; esac; done; }
for f in $(grep -E "^\+\+\+ b/" "$P" | sed 's|^+++ b/||'); do
  case "$f" in
    yastn/sym/*) add C19 C15 C16 C02 ;;
    yastn/tensor/_legs.py) add C19 C01 C02 C03 C15 C16 C17 ;;
    yastn/tensor/_krylov.py|yastn/krylov/*) add C18 C09 C10 C15 ;;
    yastn/tensor/linalg.py) add C04 C13 C01 C02 C03 C14 C15 C16 C08 ;;
    yastn/tensor/_output.py|yastn/tensor/__init__.py|yastn/_split_combine_dict.py|yastn/_from_dict.py) add C17 C01 C02 C03 C14 C15 C16 ;;
    yastn/tensor/_einsum.py|yastn/tensor/_auxiliary.py) add C05 C01 C02 C03 C14 C15 C16 C17 ;;
    yastn/tensor/*|yastn/initialize.py) add C01 C02 C03 C04 C05 C13 C14 C15 C16 C17 ;;
    yastn/backend/*) add C01 C15 C16 C04 C05 C13 C18 C08 C17 ;;
    yastn/tn/mps/*) add C06 C08 C09 C10 C15 C16 C17 C18 ;;
    yastn/tn/fpeps/*) add C20 C15 C16 C17 ;;
    *) add C01 C02 C03 C04 C05 C06 C08 C09 C10 C13 C14 C15 C16 C17 C18 C19 C20 ;;
  esac
done
# SKIP="C15 ..." drops checks from the selection (e.g. the slow C15 when only other rules changed)
for x in $SKIP; do sel=$(echo " $sel " | sed "s/ $x / /g"); done
[ -z "$(echo $sel)" ] && { echo "$P done"; exit 0; }
exec "$(dirname "$0")/benign_probe.sh" "$P" $sel
