#!/venv/bin/python
"""print functions of a module without docstrings/comments: tools/src.py yastn/tensor/_single.py [func ...]"""
import ast, sys
path = sys.argv[1]; names = set(sys.argv[2:])
src = open(path).read(); tree = ast.parse(src)
class Strip(ast.NodeTransformer):
    def visit_FunctionDef(self, n):
        self.generic_visit(n)
        if n.body and isinstance(n.body[0], ast.Expr) and isinstance(n.body[0].value, ast.Constant) and isinstance(n.body[0].value.value, str):
            n.body = n.body[1:] or [ast.Pass()]
        return n
for n in ast.walk(tree):
    if isinstance(n, ast.FunctionDef) and (not names or n.name in names):
        print(f"# ---- {n.name} @ {n.lineno}")
        print(ast.unparse(Strip().visit(n)))
