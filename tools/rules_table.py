#!/usr/bin/env python3
"""prints the table of rules per property (rule id, obligations held on the current tree, description) from a quick run of every check"""
import re, subprocess, sys
PIDS = "C01 C02 C03 C04 C05 C06 C08 C09 C10 C13 C14 C15 C16 C17 C18 C19 C20".split()
print("| id | rules: obligations decided on the current tree |")
print("|----|------|")
for pid in PIDS:
    out = subprocess.run(["/venv/bin/python", "-m", "sa.check", pid, "--tier", "quick", "--no-liveness"], capture_output=True, text=True, cwd="/verif").stdout
    cells = []
    for m in re.finditer(r"^  (\w+)\s+ok=(\d+)\s+bad=(\d+)\s+undecided=(\d+)\s+floor=(\d+)\s+(.*)$", out, re.M):
        rid, ok, bad, und, floor, desc = m.groups()
        desc = desc.strip()
        cells.append(f"**{rid}** ({ok}) {desc[:110] + ('…' if len(desc) > 110 else '')}")
    print(f"| {pid} | " + " · ".join(cells) + " |")
