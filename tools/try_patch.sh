#!/bin/bash
# usage: tools/try_patch.sh [-R] <patch.diff> <pid> [<pid> ...]
# Applies a patch to a scratch copy of /repo (never to /repo itself), runs the static checks on the copy, removes it.
REV=""
if [ "$1" = "-R" ]; then REV="-R"; shift; fi
PATCH=$(realpath "$1"); shift
TMP=$(mktemp -d /tmp/sa-try-XXXXXX)
trap 'rm -rf "$TMP"' EXIT
cp -r /repo/yastn "$TMP/yastn"
( cd "$TMP" && patch -s -p1 $REV < "$PATCH" ) || { echo "PATCH-FAILED $PATCH"; exit 3; }
cd /verif
for pid in "$@"; do
  SA_REPO="$TMP" SA_EVIDENCE_DIR="$TMP/evidence" /venv/bin/python -m sa.check "$pid" --tier quick --no-liveness > "$TMP/out.txt" 2>&1
  code=$?
  echo "== $pid exit=$code"
  grep -A4 "^VIOLATION\|^ANALYSIS-ERROR" "$TMP/out.txt" | grep -v "^  facts" | cut -c1-400 | head -${MAXL:-30}
done
