#!/bin/bash
# usage: tools/confirm_seed.sh <Cxx> <A|B>   — confirms a seeded change in a scratch worktree and files it under /verif/seeded
ID=$1; AB=$2
export OMP_NUM_THREADS=1 OPENBLAS_NUM_THREADS=1 MKL_NUM_THREADS=1   # 16 cores: BLAS threads x xdist workers oversubscribe 10x otherwise
SRC=${SEEDROOT:-/tmp/seed/out}/$ID/$AB
DST=/verif/seeded/${PREFIX:-}$ID-$AB
WT=/tmp/confirm-${PREFIX:-}$ID-$AB
[ -f $SRC/patch.diff ] || { echo "no patch for $ID $AB"; exit 2; }
git -C /repo worktree add -q --detach $WT HEAD || exit 2
cleanup() { git -C /repo worktree remove --force $WT 2>/dev/null; rm -rf $WT; }
trap cleanup EXIT
cd $WT
PYTHONPATH=$WT timeout 900 /venv/bin/python $SRC/demo.py > /tmp/confirm-$ID-$AB.pristine.log 2>&1; P=$?
git apply $SRC/patch.diff || { echo "$ID $AB: patch does not apply"; exit 3; }
PYTHONPATH=$WT timeout 900 /venv/bin/python $SRC/demo.py > /tmp/confirm-$ID-$AB.changed.log 2>&1; C=$?
PYTHONPATH=$WT timeout 3000 /venv/bin/python -m pytest -q -p no:cacheprovider --timeout=900 -n ${NPROC:-4} --ignore=tests/mps/test_save_load.py 2>&1 | grep -E "passed|failed|error" | tail -1 > /tmp/confirm-$ID-$AB.tests.log
PYTHONPATH=$WT timeout 900 /venv/bin/python -m pytest -q -p no:cacheprovider tests/mps/test_save_load.py 2>&1 | grep -E "passed|failed|error" | tail -1 >> /tmp/confirm-$ID-$AB.tests.log
T1=$(sed -n 1p /tmp/confirm-$ID-$AB.tests.log); T2=$(sed -n 2p /tmp/confirm-$ID-$AB.tests.log)
OK=no
if [ $P -eq 0 ] && [ $C -ne 0 ] && echo "$T1" | grep -q "356 passed" && ! echo "$T1" | grep -qE "[0-9]+ failed|[0-9]+ error" && echo "$T2" | grep -q "6 passed"; then OK=yes; fi
echo "$ID $AB: demo pristine exit=$P changed exit=$C tests: [$T1] [$T2] confirmed=$OK"
if [ $OK = yes ]; then
  mkdir -p $DST
  cp $SRC/patch.diff $SRC/demo.py $DST/
  [ -f $SRC/notes.md ] && cp $SRC/notes.md $DST/notes.md
  /venv/bin/python - "$ID" "$AB" "$P" "$C" "$T1" "$T2" "${PREFIX:-}" <<'PY'
import json, sys, re
ID, AB, P, C, T1, T2, PFX = sys.argv[1:8]
notes = open(f"/verif/seeded/{PFX}{ID}-{AB}/notes.md").read() if __import__('os').path.exists(f"/verif/seeded/{PFX}{ID}-{AB}/notes.md") else ""
meta = {"property": ID, "variant": AB, "origin": "independent sub-agent given only the property record and a scratch worktree",
        "needs_to_manifest": "see notes.md (section on trigger)",
        "what_i_ran": [f"scratch worktree of /repo HEAD; demo.py on pristine tree -> exit {P}",
                       f"git apply patch.diff; demo.py -> exit {C}",
                       f"full test suite with the change (pytest -n 4, test_save_load serially): {T1} ; {T2}"],
        "confirmed": True}
json.dump(meta, open(f"/verif/seeded/{PFX}{ID}-{AB}/meta.json", "w"), indent=1)
PY
fi
