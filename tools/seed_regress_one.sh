#!/bin/bash
# usage: tools/seed_regress_one.sh <seed dir> [write]  — one seeded change against the quick check of its property (see seed_regress.sh)
d=${1%/}; n=$(basename $d); id=${n%-*}; id=${id#r[0-9]-}
[ -f $d/patch.diff ] || exit 0
T=$(mktemp -d /tmp/sa-seed-XXXXXX); mkdir -p $T/evidence; cp -r /repo/yastn $T/yastn
if ! ( cd $T && patch -p1 -s < $d/patch.diff ); then echo "$n PATCH-DOES-NOT-APPLY"; rm -rf $T; exit 0; fi
out=$(cd /verif && SA_REPO=$T SA_EVIDENCE_DIR=$T/evidence /venv/bin/python -m sa.check $id --tier quick 2>&1); rc=$?
rule=$(echo "$out" | grep -m1 -oE "^  rule [A-Z0-9]+" | awk '{print $2}')
msg=$(echo "$out" | grep -m1 -A4 "^VIOLATION" | tail -1 | cut -c1-300)
echo "$n exit=$rc rule=$rule"
if [ -n "$2" ] && [ $rc -eq 1 ] && [ -f $d/meta.json ]; then
  /venv/bin/python - "$d/meta.json" "$id" "$rule" "$msg" <<'PY'
import json, sys
p, pid, rule, msg = sys.argv[1:5]
m = json.load(open(p)); m["detected_by"] = {"check": pid, "rule": rule, "report": msg.strip()}
json.dump(m, open(p, "w"), indent=1)
PY
fi
rm -rf $T
