"""Generates /verif/MANIFEST.json from the table below (run: /venv/bin/python -m sa.manifest_gen)."""
import json
import os

VERIF = os.path.dirname(os.path.dirname(os.path.abspath(__file__)))

PY = "/venv/bin/python"

# pid -> (engine, technique, level text, level note, design_ref)
CLAIMED = {
    "C19": ("symnf",
            "abstract interpretation of fuse() to a modular normal form + CFG dominance of Leg guards",
            "Decides the property for all integer charges: each shipped fuse() is shown (by abstract interpretation of "
            "its AST) to be R_m(sigma * sum s_j c_j) with m parsed from SYM_ID; a paper meta-theorem then gives the "
            "group axioms, canonical range and grouping law. Leg validation guards are located in the CFG, normalised "
            "(unrecognised shapes are evaluated on witness values) and must dominate the stores; a fuse component computed from the raw "
            "charges instead of the signed sum is a violation; sorted storage, conj and the _verified bypass are checked structurally.",
            "trusted: the meta-theorem (docstring of sa/props/c19.py), numpy floored mod, python's ast parser; "
            "user-defined symmetries are out of scope",
            "DESIGN.md §4 C19"),
    "C15": ("modset",
            "interprocedural may-alias / mod-set analysis with k-limited access paths and function summaries",
            "Decides the property for every public value-returning operation in scope (tensor, backend_np, krylov, "
            "operators, mps, fpeps containers; PEPS environments are out of the engine's scope, their copy()/clone() is checked "
            "structurally): a flow-sensitive alias analysis with summaries "
            "iterated to a fixpoint shows that no write (field/item store, container mutator, in-place array operator, "
            "out= argument, call of a mutating callee) can land in an object reachable from a parameter; copy()/clone() "
            "are shown to return storage that does not alias the source; backend kernels write only arrays they allocate.",
            "conservative may-alias analysis: unresolved calls (listed in evidence) are assumed not to mutate; method calls "
            "resolve by inferred receiver class / package layering; 8 named exceptions with reasons in sa/props/c15.py; "
            "torch backends and yastn/tn/fpeps/envs are not analysed (DESIGN 9.9)",
            "DESIGN.md §4 C15"),
    "C16": ("cachepure",
            "purity/closedness analysis of memoised functions + alias tracking of cached values + table pairing",
            "Decides transparency of all 20 lru_cache'd metadata functions: each is shown closed and pure together with its "
            "transitive repository callees (so the key built from all arguments covers every input, including the symmetry "
            "where the group law is used), every call site passes hashable-by-value arguments, no consumer anywhere writes "
            "into (a part of) a value handed out by a cache, no cached value is a one-shot iterator, the "
            "resize/clear/info tables pair each function with itself and are complete, key-component types define no equality of "
            "their own, and local memos key on all loop-variant inputs.",
            "trusted: functools.lru_cache semantics, value-purity of whitelisted numpy/itertools calls, NamedTuple eq/hash; "
            "unknown external calls inside memoised bodies are listed, not alarmed",
            "DESIGN.md §4 C16"),
    "C17": ("serial",
            "extraction and comparison of writer/reader key tables, constructor signatures and registries from the AST",
            "Partial (every table-level clause): decides, for every serialisable class and all objects at once, that each state "
            "field is written (or neutralised/named volatile), every key a reader needs is written and every written key is "
            "consumed, geometry constructors get all their parameters back, level>=1 conversions pair with their inverses, "
            "the type/symmetry/backend registries are total, mismatch and meta-conformance guards cover all state fields, and "
            "normalised copies are the ones serialised, and the reader keeps the dtype of stored data for every dtype of the backend table. "
            "These are necessary conditions of the round trip; that values survive "
            "numpy/HDF5 I/O bit-for-bit is NOT decided.",
            "trusted: python ast; numpy/h5py store values faithfully; legacy (deprecated) formats checked for key agreement "
            "only; one known finding (MpoPBC.tol) listed in known_findings.json",
            "DESIGN.md §4 C17"),
    "C20": ("geomtab",
            "constant-table algebra and key-expression agreement read from the AST + CFG dominance of rejection guards",
            "Partial: decides the structural necessary conditions of a consistent lattice indexing for all sizes at once — the "
            "direction table is antisymmetric/compositional, nn_bond_dirn pairs each direction with its opposite and label, "
            "nn_site applies one boundary rule per axis, bonds are generated in lattice order, every site2index reduces each "
            "coordinate modulo the period of its own axis, Lattice get/set/patch/init use the same key expression on every path, the "
            "lattice-order direction of each axis is tested first, and the "
            "rejection guards dominate construction. The enumerated value-level invariants (each site once, total order) are "
            "NOT decided.",
            "trusted: python ast; the boundary-letter table _periodic_dict is evaluated as a literal; some sub-rules compare normalised "
            "source text of short key expressions",
            "DESIGN.md §4 C20"),
    "C13": ("orderdir",
            "order-direction abstract interpretation of argsort index arrays and their slices; def-use of the keep-count",
            "Partial: decides that what truncation_mask / truncation_mask_multiplets mask off is the low end of an ordering of "
            "the spectrum (block stage: of the very block written; global stage: of the already masked spectrum), that the "
            "keep-count is min(user limit, number strictly above relative tolerance), that K==0 cannot reach the empty slice "
            "[:-0], that the spectrum is copied first, that the wrappers apply one mask to all factors, and that each scalar-or-dict "
            "dispatch of a user limit tests the limit whose value it selects, that no store selects by position instead of by size, that "
            "the ordering key per `which` is right, that masks hit the leg they were computed for, that entries masked off by the block "
            "stage rank below every surviving entry and are not counted by the tolerance count. The Eckart-Young "
            "optimality/error identity itself is numerical and NOT decided.",
            "trusted: argsort is ascending; python ast",
            "DESIGN.md §4 C13"),
    "C09": ("sweeporder",
            "must-pass-through / dominance queries on statement CFGs of the sweep loop bodies + polynomial site arithmetic + memo-key unification",
            "Partial: decides, on every path of every DMRG and variational-compression sweep step, that the environment is "
            "invalidated for exactly the written sites and refreshed after, and at the site of, the new isometry (site "
            "expressions compared as polynomials per sweep direction); that every key memoised in env.F is popped by that "
            "class's clear_site_; that the reported energy is env.measure() after the sweep of the same iteration on "
            "<psi|H|psi>; that DMRG normalises, ends at the first site and canonises its input; that every effective operator is "
            "linear in its input and sesquilinear in (bra, ket) (91 typed contraction operands), that projection penalties are "
            "p|X><X|, that eigs returns combinations of its orthonormal basis started from v0/|v0|, that the sweep loop stops early only "
            "when all requested tolerances are met, and that no parameter / unpacked component (e.g. a projection penalty) is ignored. "
            "The variational bound, "
            "monotonicity and convergence to an eigenstate are numerical and NOT decided.",
            "trusted: CFG builder, exact polynomial arithmetic; only explicit raise is exceptional flow",
            "DESIGN.md §4 C09/C10"),
    "C10": ("sweeporder",
            "exact polynomial identities of time-step coefficients and mid-points + CFG path rules of the sweep bodies",
            "Partial: decides that every local evolution coefficient is -u*dt/2 (forward) or +u*dt/2 (backward), that for each "
            "order the sub-step lengths sum to ds and H is sampled at each sub-step's mid-point (rational-function identities; "
            "the 4th-order constant equals 1/(4-4^(1/3)) to 1e-15), that steps*ds = t1-t0 with exactly `steps` iterations and the "
            "reported time is the loop-carried one, that bad dt/times raise, that the Krylov memo is per site, and the sweep "
            "ordering rules of C09 for the three TDVP sweeps, that expmv returns a combination of its orthonormal Krylov basis started "
            "from v/|v|, that all Heff are linear in their input and all Heff0/1/2 siblings carry the operator's norm factor, that no "
            "parameter (e.g. normalize) is dropped on the way to the solver. Conservation laws and agreement with expm are numerical and NOT decided.",
            "trusted: exact rational arithmetic with float literals taken exactly; CFG builder",
            "DESIGN.md §4 C09/C10"),
    "C05": ("fermisign",
            "structural/sibling analysis of the three fermionic sign computations and of swap_gate",
            "Partial: decides that bosonic statistics is the identity (dominating early returns), that all three sign "
            "computations restrict the charge-parity product to the components declared fermionic before summing and reduce "
            "mod 2 before use, that the flag vector is built consistently, that swap_gate is an involution by construction "
            "(only data replaced; negated slices a pure function of structure; negate_blocks = -x on a copy), and that fkron "
            "strings carry strictly later charges, and that every jump move of the ncon/einsum swap resolver emits its parity "
            "correction on every path, toggles the other legs, is followed by the collection of same-tensor swaps, with every "
            "emitted command kind executed and the parity correction skipped only for a charge that vanishes in every component. Completeness/termination of the swap resolution (order independence) and the CAR of "
            "fkron are value-level and NOT decided.",
            "trusted: python ast; C16-K1 for purity of _meta_swap_gate*",
            "DESIGN.md §4 C05"),
    "C06": ("factorflow",
            "intra-procedural taint (data-dependence) of operands' norm factor + sibling comparison + exact rational identity",
            "Partial: decides that the norm factor of every operand reaches the result of add/multiply/__mul__/shallow_copy-based "
            "operations/to_tensor/zipper/overlap environments/projections, that all 12+ concrete Heff0/1/2 of the <bra|op|ket> "
            "family multiply by self.op.factor and Env_sum sums its members, and that new factor * phase == number * factor in "
            "scalar multiplication; that zipper, analysed separately for normalize=True/False on a CFG specialised on that knob, "
            "multiplies the MPO's factor in on every path and never overwrites the factor; that sector charges read from a leg enter "
            "charge arithmetic with that leg's signature; that overlap recursions are sesquilinear (bra tensors conjugated, ket/operator "
            "not; 56 typed contraction operands); that site-ordered sequences are zipped in one sweep direction; that freshly built results take "
            "the operand's factor on every path. That sums/products/overlaps equal the dense objects is value-level and NOT decided.",
            "trusted: python ast, exact rational arithmetic; taint is flow-insensitive inside a function",
            "DESIGN.md §4 C06/C08"),
    "C08": ("factorflow",
            "def-use pairing of normalising divisions with factor updates + polynomial identity of discarded-weight composition",
            "Partial: decides that wherever a tensor is divided by a scalar the scalar is that tensor's own norm and multiplies "
            "the factor (normalize resets it to 1) in orthogonalize_site_, diagonalize_central_, both zippers and "
            "mps_from_tensor; that discarded weights compose as a+x-ax with x a squared local weight and are square-rooted in "
            "truncate_ and both zippers; that the local weight uses the complement of the truncating mask and the untruncated "
            "norm of a complete (not partial-policy) decomposition; that norm()/get_Schmidt_values() work on shallow copies and that "
            "shallow_copy carries every mutable state field (A, pC, factor), with every returned value computed after the canonisation of "
            "the copy. Isometry of site tensors and equality of Schmidt "
            "values with the dense state are NOT decided.",
            "trusted: python ast, exact rational arithmetic; one named exception (2-site compression sweep re-derives the factor "
            "from the overlap, checked separately)",
            "DESIGN.md §4 C06/C08"),
    "C01": ("legspace",
            "index-space typing (abstract interpretation on CFGs) + taint of permutation resets + backend kernel rules",
            "Partial: decides for all inputs that every per-leg lookup, slice bound and typed helper argument in the tensor layer "
            "uses an index of the right space (meta / logical-native / native; joins of different spaces alarm at native sinks), "
            "that positional helpers receive materialised tensors, that results resetting the lazy permutation carry struct/hfs "
            "permuted through trans (and a result whose leg structure was rebuilt from scratch resets trans), that user-ordered per-leg data is combined with native fields only after the permutation was "
            "accounted for, that s/hfs/mfs of results come from the same leg sequences, that negative axes are normalised first, "
            "that binary kernels promote dtypes and update output-buffer views in place, that sequences paired position by position "
            "are enumerated in the same leg order (engine seqorder), that fusion metadata of factors comes from the leg group it "
            "belongs to, that parallel sequences (sectors of a leg) are zipped in the same direction (engine seqrev), that no parameter or "
            "unpacked component is ignored. These are necessary conditions of "
            "'commutes with to_numpy'; block-pairing arithmetic and numerical content are NOT decided.",
            "trusted: seed table of index spaces for API/helper parameters (sa/props/e3.py); untyped literal indices not judged",
            "DESIGN.md §4 C01/C14"),
    "C02": ("chargeflow",
            "formal charge arithmetic (free module with signature symbols) + CFG dominance of selection-rule guards + E3 + E1",
            "Partial: decides that every expression setting a total charge evaluates, as a formal signed sum, to what the algebra "
            "dictates (24 table rows incl. guards), that the selection rule dominates block creation and loaders validate, that "
            "s/hfs/mfs of results are coherent (E3), that every width-nsym slice of a flat block-charge tuple starts at a multiple of "
            "nsym (34 sites), that guards on operand charges fire exactly for unfit charges (decided by evaluating the guard on witness "
            "charges), that add_leg takes its default charge only for t=None and rand_like forwards the template's charge, that no "
            "parameter is ignored, and that only constructor/in-place API write tensor state. Mutual consistency "
            "of t, D, slices, size produced by the _meta_* functions (and hence zeros outside allowed sectors) is value-level and "
            "NOT decided.",
            "trusted: C19 (group law linear mod m); table of charge rows in sa/props/e6.py",
            "DESIGN.md §4 C02"),
    "C03": ("fusiondiscipline",
            "must-pass-through of compatibility tests, def-use of the mask_needed verdict, index typing of masking helpers",
            "Partial: decides that tensordot/vdot/trace/addition pass the fusion-compatibility and configuration tests on every "
            "computing path, that unsupported fused legs are rejected, that the verdict mask_needed guards masking/embedding and "
            "replacement of histories (a verdict obtained pair by pair in a loop must be accumulated), that masks are applied with native indices on materialised tensors, that N-ary addition "
            "treats all operands alike, that local memos key on every loop-variant input of what they store. Correctness of the tree-parsing mask construction is value-level and NOT decided.",
            "trusted: python ast, CFG builder",
            "DESIGN.md §4 C03"),
    "C04": ("chargeflow",
            "structural pairing of the connecting leg, parameter def-use flow, charge rows of decompositions",
            "Partial: decides that the charge is carried by the selected factor, that the connecting leg has signature E / -E in "
            "struct and fusion record of the two factors with charges from one variable, that Uaxis/Vaxis/Qaxis/Raxis move (or are "
            "forwarded for) the factor of the same letter, that masks act on the connecting leg where it is, that sU/nU reach the "
            "meta function, that s/hfs/mfs of factors are coherent, that the ordering key per `which` (LM/SM/LR/SR) is |S|, -|S|, S, -S in "
            "eigh_with_truncation and in the backend's eigs_which, that no parameter is ignored. Reconstruction, isometry, ordering, triangularity are "
            "LAPACK/value-level and NOT decided.",
            "trusted: python ast; several sub-rules compare normalised text of short constructor calls",
            "DESIGN.md §4 C04"),
    "C14": ("knobs+legspace",
            "who-may-read and non-interference analysis of configuration knobs + index-space typing",
            "Partial: decides that the three knobs are read only by tensordot and fuse_legs, that the policy only selects among "
            "kernels receiving the same operands and binding the same results (unknown values raise), that charge/fusion "
            "metadata/masking are computed outside the dispatch, that both fusion modes share validation, and — via the E3 rules — "
            "that lazy and meta-fused operands are addressed through the right index spaces and enumerated in consistent leg order, "
            "and that per-leg charge slices are aligned to nsym also in the unrolled-contraction code. Numerical agreement of the three "
            "kernels and path-independence of contract_with_unroll are NOT decided.",
            "trusted: python ast, CFG builder, seed table of index spaces",
            "DESIGN.md §4 C14"),
    "C18": ("krylovbook",
            "structural pairing rules of the Gram-Schmidt bookkeeping + CFG specialised on the normalize knob + def-use of the residual",
            "Partial (structural clauses only): decides for every linear map and start vector that expand_krylov_space records in H "
            "exactly the overlaps <V[i]|w> it subtracts (basis vector as bra, same index), normalises by the recorded norm and leaves "
            "before dividing on breakdown; that eigs/expmv/lin_solver divide their start vector by its own norm with the zero vector "
            "handled first; that every returned vector is a Tensor.add combination of the orthonormal basis (and the initial guess), "
            "and Tensor.add rejects other charges, hence results stay in the symmetry sector of the start vector; that expmv multiplies "
            "the accumulated norm back on every path iff normalize is False; that lin_solver reports |f(x) - b| recomputed from the "
            "returned x; that the Krylov loop runs up to the caller's ncv unmodified and the first Krylov dimension of expmv is not capped by a quantity of another kind (block count); that no parameter is ignored (named exceptions). Accuracy to tolerance, the adaptive controller of expmv and the variational property of Ritz values are "
            "numerical and NOT decided.",
            "trusted: python ast, CFG builder; the structural rules name the solver's local variables (a rename is reported as a vanished "
            "anchor, exit 2, not as a violation)",
            "DESIGN.md §9.8 C18"),
}

NOT_APPLICABLE = {
    "C07": "Jordan-Wigner correctness of generate_mpo/measure_* equates dense matrices and expectation values; no clause "
           "has a non-brittle structural reading (DESIGN §5)",
    "C11": "gate = exp(-step*H) for all parameters and exact gate application are dense-value statements; a rank-correct "
           "wrong contraction pattern is the realistic failure and is invisible to static analysis (DESIGN §5)",
    "C12": "exact PEPS expectation values and PSD metrics are numerical statements about thousands of lines of literal "
           "contraction patterns (DESIGN §5)",
}

ALL = [f"C{i:02d}" for i in range(1, 21)]
PENDING = {p: "static check designed (DESIGN §4) but not built yet in this session; not claimed until it is"
           for p in ALL}  # overridden by CLAIMED / NOT_APPLICABLE


# clauses added after the third round of seeded changes / newly found defects (DESIGN 9.13, 9.4 #19-22); appended to the claim texts
ADDENDA = {
    "C01": "Also: the inverse permutation `trans.index(p)` takes a native position; negative positions are normalised with the leg count of "
           "their own index space; a result whose signature/fusion records were already reordered through `trans` resets it; parallel "
           "per-block sequences (struct.t, struct.D, slices) that are zipped were narrowed by the same selection (engine seqsel); no call "
           "passes two of the caller's names for each other's parameter. Round 4: the four fields permuted by consume_transpose travel together on in-place consumption; public Tensor methods that read per-leg native fields account for the pending permutation (who-must-read, ten named exceptions); `_join_contiguous_slices` merges exactly the runs contiguous in both lists (interpreted on witnesses); generic rules U6-U10 (written mutable defaults, optional transformations skipped by a shortcut, documented defaults, slipped breaks, keywords swallowed by named parameters). Round 5: no value read from a field that `X = X.conj()` changes is used after that rebinding (I10); element-wise kernels with a cutoff compare magnitudes (B4).",
    "C02": "Also: remove_leg's total charge involves the signature of the removed leg; the axis-range guard shared by tensordot/trace accepts "
           "exactly 0..ndim-1 (evaluated on witness axes); the E3 additions listed under C01. Round 4: in-place consumption takes hfs with struct/slices/data/trans; a struct whose block list was narrowed carries the matching size when it becomes the struct of a result. Round 5: components of a charge are never summed, charges are negated only through the symmetry (G7, G8).",
    "C03": "Also: the mask test ranges over every leg; the fusion-tree parsers pop their parallel stacks in lock-step; the E3 additions listed "
           "under C01. Round 4: the compatibility test compares every field of the fusion records; splices at precomputed positions run back to front. Round 5: validation loops are not left early by a flag latch (U12); variadic operations do not decide from operands[0] vs operands[1] (U13).",
    "C04": "Also: the leg groups of the factorisations go through the pending permutation in the right direction (index typing in the scope of "
           "svd/qr/eig/eigh/moveaxis); the (signature, hfs, mfs) triples are discovered from the results, not from local names. Round 4: every scipy svds call is re-ordered to descending on every path, for every solver; no option is read from **kwargs under the name of a declared parameter. Round 5: the `which` table of the Hermitian ARPACK driver (S9); block lists and per-block limits of the decompositions narrowed together (I6 with adoption by zip).",
    "C05": "Also: the tables of open edges and pending swaps are renumbered by the same maps; every insertion into the Z2 set of pending swaps "
           "is a toggle; the legs whose parity swap_gate reads are addressed through the pending permutation in the right direction. Round 4: the crossings discarded before a jump are those the jump resolves (all of a leg only under the bundle-size assertion). Round 5: requested swaps keep their multiplicity (W10); fkron re-orders sites and operators alike (W11, opportunistic).",
    "C06": "Also: -psi, number*psi and psi/number agree with psi*(..) as rational identities in number and |number| (complex scalars); the "
           "virtual leg that absorbs the total charge of a site tensor is the first one. Round 4: sums over member environments count each member once; numpy scalars reach __mul__ unchanged.",
    "C08": "Also: the discarded weights are composed so that kept weights multiply (inductive polynomial invariant, any spelling); canonize_ "
           "absorbs a central block before every orthogonalize_site_ (typestate on the CFG). Floating-point cancellation in an algebraically "
           "identical composition is NOT decided. Round 4: orthogonalize_site_/diagonalize_central_ reset the factor for normalize=True and accumulate for normalize=False (per value of the knob); documented defaults equal signature defaults. Round 5: entropy cut-off on normalised probabilities (P5); every normalising division protected against a zero norm on every path (P6). The discarded weight is accumulated itself, not as the complement of a running product (FF5 representation clause: cancellation).",
    "C09": "Also: every Heff sibling carries the operator's factor on every path; the local eigenproblem is solved for which='SR' for every "
           "option set (defaults of dmrg_ and of eigs); the maps handed to eigs are homogeneous in their argument. Round 4: the norm factor of the input is reset on every path to the construction of the environment. Round 5: per-item defaults are per item (U15).",
    "C10": "Also: the local generators handed to expmv are homogeneous in their argument (no affine term); composition constants written as "
           "expressions are evaluated numerically. Round 4: the sweep call that samples H(t) receives the environment through the reset in the same call (per sub-step). enlarge_bond compares the dimension of the bond, not of the grouped leg, with D_total (T7, opportunistic).",
    "C13": "Also: the relative tolerance refers to the maximum of the very values compared; selection by comparison with the K-th largest "
           "value (ties) is a violation; a dict-valued per-sector limit of the partial-SVD policies is looked up by a key depending on the "
           "same options (nU, sU) as the S-sector charges; K == 0 protection is decided on the CFG. Round 4: the spectrum masked and returned by the wrappers is the one the decomposition computed; every sector passes the computation of its keep-count in the per-block stage. Round 5: shortcut returns of the mask functions decided by both global limits (D11).",
    "C14": "Also: parallel per-block sequences narrowed by the same selection (seqsel), converse of I2, inverse-permutation typing. Round 4: the resize/clear/info tables pair every kernel with itself (K4); no break directly behind an inner search loop that has none; the who-must-read rule I9. Round 5: SlicedLeg normalises slice keys like charges (N9). The all-pairs index lists of the no-fusion kernel use complementary broadcasts (N10); contiguity scans of the no-change fast paths are closed by a comparison with the total (N11).",
    "C15": "Also: library calls allowed to overwrite their operand (scipy overwrite_a/overwrite_b=True) count as writes into that operand. "
           "Round 4: the PEPS environments stay outside the interprocedural summaries (DESIGN 9.9), but M6 holds helpers that are called from "
           "them with the caller's own parameter to M1, M7 holds the DIRECT writes of the environments' public value-returning operations to the "
           "property (two named exceptions), and M8 reports a mutable default that the function writes, over the whole package. Round 5: augmented assignment on the caller's array in a backend kernel (M4).",
    "C16": "Also: no parameter of a memoised function is an instance of a stateful identity-hashed class (Tensor, MPS, ...); the fermionic "
           "flag vector handed to the memoised sign computations has one (boolean) encoding on every path. Round 5: no state in module-level containers (K8); metadata never compared by identity (K9).",
    "C17": "Also: an option resolved by self-delegation forwards every other parameter (to_dict(resolve_ops=True) keeps meta); every key a "
           "reader tests for presence is also read; the generic split/combine traversals order keys in a way defined for the mixed "
           "int/tuple keys of an MPS with a central block. Round 5: config-compatibility guards compare values, not truthiness (Z12).",
    "C18": "Also: every value of the requested Krylov dimension of expmv is bounded by the maximum its controller tests for; every step is "
           "bounded by the remaining time (accepted steps add up to |t|); the right-hand side of lin_solver's projected problem is the "
           "norm of the residual the basis starts from. Round 4: no function writes into a mutable default (shared Hessenberg dictionary); all three solvers size the projected problem as len(basis) on happy breakdown and len(basis)-1 otherwise.",
    "C19": "Also: guards written as raise-in-loop and a modulus held in a module-level constant are evaluated alike; sorted storage of (t, D) "
           "is decided by evaluating the two store expressions on a witness list of pairs. Round 4: LegMeta.conj returns the dual (s=-self.s, conjugated sub-legs); a component computed from other columns of the signed sum is a violation. Round 5: shortcut returns of fuse() reduce like the general path (G2).",
    "C20": "Also: f_ordered is the column-major total order on all integer sites (interpreted on 3200 witness pairs); site-addressed reads of "
           "the stored data go through __getitem__ (patch first); the bond tables concatenated by bonds() hold one sequence type and bonds "
           "are built from nn_site() results only under a None test.",
    "C20": "Round 5: a validation flag overwritten per site is reported; Q4 decides the flag form of the neighbourhood guard (U11).",
}


def build():
    checks = []
    for pid, (engine, technique, text, note, ref) in sorted(CLAIMED.items()):
        if pid in ADDENDA:
            text = text + " " + ADDENDA[pid]
        checks.append({
            "property_id": pid,
            "quick_cmd": f"cd /verif && {PY} -m sa.check {pid} --tier quick",
            "thorough_cmd": f"cd /verif && {PY} -m sa.check {pid} --tier thorough",
            "evidence_file": f"/verif/evidence/{pid}.json",
            "replay_cmd_template": f"cd /verif && {PY} -m sa.check {pid} --replay {{path}}",
            "engine": engine,
            "level_claimed": {"category": "other", "text": text, "design_ref": ref},
            "level_note": note,
            "technique": "static analysis: " + technique,
        })
    na = [{"property_id": k, "reason": v} for k, v in sorted({**PENDING, **NOT_APPLICABLE}.items())
          if k not in CLAIMED]
    engines = {}
    for pid, (engine, *_r) in CLAIMED.items():
        engines.setdefault(engine, []).append(pid)
    man = {
        "version": 1,
        "setup_cmd": f"cd /verif && {PY} -c \"import sa.check\"",
        "hooks": {
            "guard": "YASTN_VERIF",
            "enable": "no hooks: the analysis only parses /repo's sources, nothing in /repo is instrumented",
            "baseline_off_cmd": "cd /repo && /venv/bin/python -m pytest -ra -q -p no:cacheprovider --timeout=900 "
                                "--continue-on-collection-errors",
            "source_commits": [],
            "add_only": True,
        },
        "engines": [{"name": e, "path": f"/verif/sa/props/{sorted(p)[0].lower()}.py", "serves_properties": sorted(p),
                     "kind_free_text": "static analysis over python ast (no execution of yastn)"}
                    for e, p in sorted(engines.items())],
        "checks": checks,
        "not_applicable": na,
        "notes": "All checks are static (ast/CFG/dataflow over /repo's current sources, parsed on every run; yastn is "
                 "never imported). Exit 2 + ANALYSIS-ERROR means the analysis could not be carried out (vanished "
                 "anchor / instance floor), never a verdict. Known findings: /verif/known_findings.json.",
    }
    return man


if __name__ == "__main__":
    man = build()
    with open(os.path.join(VERIF, "MANIFEST.json"), "w") as f:
        json.dump(man, f, indent=1)
    print("wrote MANIFEST.json:", [c["property_id"] for c in man["checks"]], "n/a:",
          [n["property_id"] for n in man["not_applicable"]])
