"""Static analysis of yastn against the properties of /verif/properties.jsonl.

Nothing under this package imports or executes yastn; every verdict is computed
from the source text of the repository (``ast``), see /verif/DESIGN.md.
"""
