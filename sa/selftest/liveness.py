"""G-7(b) instance-liveness sweep (thorough tier).

For every mutant (one confirmed rule instance broken by a source edit) the package is copied to a
scratch directory outside /repo and /verif, the edit is applied, and the same static check is run on
the copy (SA_REPO=<copy>): it must exit 1 and name the expected rule.  For every behaviour-preserving
variant it must exit 0.  Nothing is executed from the copy — it is only parsed.  The result is evidence
about the *checker* (WEAK-RULE / NOISY-RULE lines), it never changes the exit code of the property.
"""
from __future__ import annotations

import os
import shutil
import subprocess
import sys
import tempfile
from concurrent.futures import ThreadPoolExecutor

from ..core.loader import REPO

VERIF = os.path.dirname(os.path.dirname(os.path.dirname(os.path.abspath(__file__))))


def _run_variant(pid, edits, repo=None):
    """edits: list of (relpath, old, new).  Returns (status, exit_code, output)."""
    repo = repo or REPO
    tmp = tempfile.mkdtemp(prefix="sa-live-")
    try:
        shutil.copytree(os.path.join(repo, "yastn"), os.path.join(tmp, "yastn"),
                        ignore=shutil.ignore_patterns("__pycache__", "*.pyc"))
        for rel, old, new in edits:
            if rel == "@patch":
                # a unified diff from the corpus of independently written behaviour-preserving refactorings (/verif/benign)
                p = subprocess.run(["patch", "-p1", "-s", "--no-backup-if-mismatch", "-i", old], cwd=tmp, capture_output=True, text=True)
                if p.returncode != 0:
                    return "stale", None, f"patch {os.path.basename(old)} does not apply to the current tree"
                continue
            path = os.path.join(tmp, rel)
            with open(path) as f:
                src = f.read()
            if src.count(old) != 1:
                return "stale", None, f"edit anchor found {src.count(old)} times in {rel}"
            with open(path, "w") as f:
                f.write(src.replace(old, new))
        env = dict(os.environ, SA_REPO=tmp, SA_EVIDENCE_DIR=os.path.join(tmp, "evidence"), VERIF_TIER="quick")
        p = subprocess.run([sys.executable, "-m", "sa.check", pid, "--tier", "quick"], cwd=VERIF, env=env,
                           capture_output=True, text=True, timeout=600)
        return "ran", p.returncode, p.stdout + p.stderr
    finally:
        shutil.rmtree(tmp, ignore_errors=True)


def _norm_edits(m):
    # (name, relpath, old, new[, rule])  or (name, [(relpath, old, new), ...][, rule])
    if isinstance(m[1], list):
        return m[0], m[1], (m[2] if len(m) > 2 else None)
    return m[0], [(m[1], m[2], m[3])], (m[4] if len(m) > 4 else None)


def sweep(pid, mod, verbose=True):
    mutants = [_norm_edits(m) for m in getattr(mod, "MUTANTS", [])]
    benign = [_norm_edits(b) for b in getattr(mod, "BENIGN", [])]
    # corpus of behaviour-preserving refactorings written by independent sub-agents for the code this property is anchored in
    import glob
    for d in sorted(glob.glob(os.path.join(VERIF, "benign", pid, "*.diff"))):
        benign.append((f"corpus {pid}/{os.path.basename(d)}", [("@patch", d, None)], None))
    res = {"mutants_generated": len(mutants), "mutants_detected": 0, "mutants_stale": 0, "weak": [],
           "benign_variants": len(benign), "benign_silent": 0, "noisy": [], "benign_stale": 0, "details": []}
    with ThreadPoolExecutor(max_workers=16) as ex:
        futs_m = [(m, ex.submit(_run_variant, pid, m[1])) for m in mutants]
        futs_b = [(b, ex.submit(_run_variant, pid, b[1])) for b in benign]
        for (name, edits, rule), fut in futs_m:
            st, code, out = fut.result()
            if st == "stale":
                res["mutants_stale"] += 1
                res["details"].append({"mutant": name, "result": "stale", "why": out})
                if verbose:
                    print(f"STALE-MUTANT property={pid} {name}: {out}")
                continue
            named = rule is None or any(f"rule {rule} " in ln for ln in out.splitlines())
            if code == 1 and named:
                res["mutants_detected"] += 1
                res["details"].append({"mutant": name, "result": "detected", "rule": rule})
            else:
                res["weak"].append(name)
                res["details"].append({"mutant": name, "result": f"missed (exit {code})", "rule": rule})
                if verbose:
                    print(f"WEAK-RULE property={pid} mutant `{name}` expected rule {rule}: exit {code}")
        for (name, edits, _), fut in futs_b:
            st, code, out = fut.result()
            if st == "stale":
                res["benign_stale"] += 1
                res["details"].append({"benign": name, "result": "stale", "why": out})
                if verbose:
                    print(f"STALE-VARIANT property={pid} {name}: {out}")
                continue
            if code == 0:
                res["benign_silent"] += 1
                res["details"].append({"benign": name, "result": "silent"})
            elif code == 2:
                # "cannot decide this spelling": not a verdict and not silence; counted apart (the known ones are listed in benign/KNOWN_EXIT2.md)
                res.setdefault("benign_undecided", []).append(name)
                res["details"].append({"benign": name, "result": "not decided (exit 2)"})
                if verbose:
                    print(f"UNDECIDED-VARIANT property={pid} benign variant `{name}`: exit 2 (the rules cannot classify this spelling; no verdict)")
            else:
                res["noisy"].append(name)
                # quoted lines of the variant run are defused so that a self-test message can never be read as a verdict on /repo
                last = [ln.replace("VIOLATION property=", "variant-violation:").replace("ANALYSIS-ERROR property=", "variant-analysis-error:")
                        for ln in out.splitlines() if "VIOLATION" in ln or "ANALYSIS-ERROR" in ln]
                res["details"].append({"benign": name, "result": f"fired (exit {code})", "output": last[:3]})
                if verbose:
                    print(f"NOISY-RULE property={pid} benign variant `{name}`: exit {code} {last[:2]}")
    if verbose:
        print(f"liveness {pid}: mutants {res['mutants_detected']}/{res['mutants_generated']} detected "
              f"({res['mutants_stale']} stale); benign {res['benign_silent']}/{res['benign_variants'] - res['benign_stale']} silent, {len(res.get('benign_undecided', []))} not decided ({res['benign_stale']} stale: no longer apply to the repaired tree)")
    return res


if __name__ == "__main__":
    import importlib
    for pid in sys.argv[1:]:
        sweep(pid, importlib.import_module(f"sa.props.{pid.lower()}"))
