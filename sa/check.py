"""Command line:  /venv/bin/python -m sa.check <Cxx> [--tier quick|thorough] [--replay <file>]

exit 0  every obligation of the property's rules held (known findings are printed, do not fail)
exit 1  VIOLATION property=<id> replay=<path>
exit 2  ANALYSIS-ERROR (vanished anchor, instance floor not met, internal error)
"""
from __future__ import annotations

import argparse
import importlib
import json
import os
import sys
import traceback

from .core.errors import AnalysisError
from .core.loader import Program
from .core.report import Check

PROPS = ["C01", "C02", "C03", "C04", "C05", "C06", "C08", "C09", "C10", "C13", "C14", "C15", "C16",
         "C17", "C18", "C19", "C20"]


chk_holder = []


def run_property(pid, tier, repo=None, seed=0, liveness=None):
    prog = Program(repo)
    chk = Check(pid, tier, prog, seed)
    chk_holder[:] = [chk]
    mod = importlib.import_module(f"sa.props.{pid.lower()}")
    mod.run(chk)
    if tier == "thorough" and liveness is not False and hasattr(mod, "MUTANTS"):
        from .selftest.liveness import sweep
        chk.liveness = sweep(pid, mod)
    return chk


def main(argv=None):
    """Runs the check on the tree as written.  If that does not end with exit 0 the check is run once more on the N1 normal form of
    the tree (private helpers that the rules do not know inlined into their callers, sa/core/normalise.py); inlining preserves
    behaviour, so `holds` on the normal form is `holds`.  If the second run is not clean either, the output of the first is reported."""
    import io
    import contextlib
    argv = list(sys.argv[1:] if argv is None else argv)
    if os.environ.get("SA_NORMALISE", "") in ("1", "2") or "--replay" in argv:
        return _main(argv)
    buf, ebuf = io.StringIO(), io.StringIO()
    with contextlib.redirect_stdout(buf), contextlib.redirect_stderr(ebuf):
        rc = _main(argv)
    if rc == 0:
        sys.stderr.write(ebuf.getvalue())
        sys.stdout.write(buf.getvalue())
        return 0
    rc_prev = rc
    for mode, label in (("1", "N1"), ("2", "N1+N2")):
        # N2 (unrolling of loops over literal tables) changes the loop structure some rules read directions and ranges from: a rule can
        # lose that information on the unrolled form and pass vacuously.  It is therefore used only to get past "cannot classify"
        # (exit 2 on the tree as written *and* on N1), never to overturn a VIOLATION
        if mode == "2" and not (rc == 2 and rc_prev == 2):
            break
        os.environ["SA_NORMALISE"] = mode
        buf2 = io.StringIO()
        try:
            with contextlib.redirect_stdout(buf2), contextlib.redirect_stderr(io.StringIO()):
                rc2 = _main(argv)
        finally:
            os.environ.pop("SA_NORMALISE", None)
        rc_prev = rc2
        if rc2 == 0 and chk_holder and chk_holder[0].prog.normal_info:
            sys.stdout.write(buf2.getvalue())
            inl = sorted({h for v in chk_holder[0].prog.normal_info.values() for h in v["helpers_inlined"]})
            nun = sum(v.get("loops_unrolled", 0) for v in chk_holder[0].prog.normal_info.values())
            print(f"note: the rules did not recognise the tree as written (first run: exit {rc}); they hold on its normal form {label} "
                  f"(N1 private helpers inlined into their callers: {', '.join(inl) or 'none'}; N2 loops over literal tables unrolled: {nun})")
            return 0
    # not clean on any form: the report on the tree as written stands (re-run to rewrite its evidence file)
    with contextlib.redirect_stdout(io.StringIO()), contextlib.redirect_stderr(io.StringIO()):
        _main(argv)
    sys.stderr.write(ebuf.getvalue())
    sys.stdout.write(buf.getvalue())
    return rc


def _main(argv=None):
    try:
        import signal
        signal.signal(signal.SIGPIPE, signal.SIG_DFL)
    except Exception:  # noqa: BLE001
        pass
    ap = argparse.ArgumentParser()
    ap.add_argument("pid")
    ap.add_argument("--tier", default=os.environ.get("VERIF_TIER", "quick"), choices=["quick", "thorough"])
    ap.add_argument("--replay")
    ap.add_argument("--repo", default=None)
    ap.add_argument("--no-liveness", action="store_true")
    a = ap.parse_args(argv)
    seed = int(os.environ.get("VERIF_SEED", "0") or 0)
    try:
        chk = run_property(a.pid, a.tier, a.repo, seed, liveness=False if a.no_liveness else None)
        if a.replay:
            with open(a.replay) as f:
                want = json.load(f)["key"]
            hit = [f for f in chk.findings if f.key == want]
            if hit:
                print(f"VIOLATION property={a.pid} replay={a.replay}")
                print(f"  still fires: {hit[0].message}")
                return 1
            print(f"replay: finding {want!r} does not fire on the current tree")
            return 0
        return chk.finish()
    except AnalysisError as e:
        print(f"ANALYSIS-ERROR property={a.pid}: {e}")
        if chk_holder and chk_holder[0].findings:
            # definite violations found before the analysis gave up are still violations
            chk_holder[0].note(f"analysis incomplete: {e}")
            chk_holder[0].rules = {k: dict(v, floor=0) for k, v in chk_holder[0].rules.items()}
            code = chk_holder[0].finish()
            return code if code == 1 else 2
        return 2
    except Exception:  # noqa: BLE001  every traceback is an analysis error, never a violation
        print(f"ANALYSIS-ERROR property={a.pid}: internal error")
        traceback.print_exc()
        return 2


if __name__ == "__main__":
    sys.exit(main())
