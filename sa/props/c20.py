"""C20 — lattice geometry is a consistent indexing of the square lattice (engine E11 `geomtab`), partial.

Decided (structural necessary conditions):
  Q1  the direction table `_dir` is antisymmetric, its axis directions are unit vectors and diagonals are sums
  Q2  nn_bond_dirn pairs each direction with its opposite and returns the matching label; unmatched bonds raise;
      bonds are generated only in lattice order ('r' and 'b'); nn_site treats both axes by the same boundary rule
  Q3  the Lattice container reads, writes and folds patches with the same key expression site2index(site);
      every site2index reduces modulo the cell periods it was built with
  Q4  inconsistent unit-cell patterns and non-unique/missing assignments are rejected before the object is usable
Not decided: the enumerated value-level invariants (each site once, periodicities, total order).
"""
from __future__ import annotations

import ast

from ..core import astutil as A
from ..core.cfg import CFG
from ..core.errors import AnalysisError

GEO = "yastn.tn.fpeps._geometry"
OPP = {"t": "b", "b": "t", "l": "r", "r": "l"}


def _dir_table(chk, sq):
    init = sq.methods.get("__init__")
    chk.require(init is not None, "SquareLattice.__init__ not found")
    for n in ast.walk(init.node):
        if isinstance(n, ast.Assign) and A.text(n.targets[0]) == "self._dir":
            try:
                return init, n, ast.literal_eval(n.value)
            except Exception as e:
                raise AnalysisError("SquareLattice._dir is not a literal table") from e
    raise AnalysisError("SquareLattice._dir assignment not found")


def _eval_letter_test(test, subject, letter):
    """evaluate a test on a one-letter boundary code (`subj in 'ip'`, `subj == 'i'`, not/and/or of these) -> True/False/None"""
    if isinstance(test, ast.Compare) and len(test.ops) == 1 and A.text(test.left) == subject and isinstance(test.comparators[0], ast.Constant) \
            and isinstance(test.comparators[0].value, str):
        c = test.comparators[0].value
        op = test.ops[0]
        if isinstance(op, ast.In):
            return letter in c
        if isinstance(op, ast.NotIn):
            return letter not in c
        if isinstance(op, ast.Eq):
            return letter == c
        if isinstance(op, ast.NotEq):
            return letter != c
        return None
    if isinstance(test, ast.Compare) and len(test.ops) == 1 and A.text(test.left) == subject and isinstance(test.comparators[0], (ast.Tuple, ast.List, ast.Set)):
        try:
            vals = [ast.literal_eval(e) for e in test.comparators[0].elts]
        except Exception:
            return None
        if isinstance(test.ops[0], ast.In):
            return letter in vals
        if isinstance(test.ops[0], ast.NotIn):
            return letter not in vals
        return None
    if isinstance(test, ast.UnaryOp) and isinstance(test.op, ast.Not):
        v = _eval_letter_test(test.operand, subject, letter)
        return None if v is None else not v
    if isinstance(test, ast.BoolOp):
        vs = [_eval_letter_test(v, subject, letter) for v in test.values]
        if isinstance(test.op, ast.And):
            return False if any(v is False for v in vs) else (True if all(v is True for v in vs) else None)
        return True if any(v is True for v in vs) else (False if all(v is False for v in vs) else None)
    return None


def run(chk):
    prog = chk.prog
    chk.explanation = (
        "Constant tables and key expressions of the lattice geometry are read from the AST and checked algebraically: "
        "antisymmetry and composition of the direction table, pairing of directions/labels in nn_bond_dirn, the boundary "
        "rule of nn_site per axis, the generation of bonds in lattice order, agreement of the key expression used by "
        "Lattice.__getitem__/__setitem__/apply_patch/__init__, the modular reduction in every site2index, and dominance "
        "of the rejection guards. Value-level enumerations (uniqueness of sites, total order) are not decided.")
    chk.trusted_base = ["python ast parser"]
    sq = prog.cls(GEO, "SquareLattice")
    # ---------------------------------------------------------------- Q1
    chk.rule("Q1", "direction table is antisymmetric; axis directions are unit vectors; diagonals are sums of their letters", floor=10)
    init, node, tab = _dir_table(chk, sq)
    want_axes = {"t": (-1, 0), "b": (1, 0), "l": (0, -1), "r": (0, 1)}
    chk.verdict("Q1", (init, node), "_dir keys", True if set(tab) == {"t", "b", "l", "r", "tl", "tr", "bl", "br"} else False,
                f"_dir has keys {sorted(tab)}")
    for k, v in want_axes.items():
        chk.verdict("Q1", (init, node), f"_dir['{k}'] = {tab.get(k)}", True if tab.get(k) == v else False,
                    f"_dir['{k}'] should be {v} (rows grow downwards, columns to the right; bonds, f_ordered and the "
                    f"'lr'/'tb' labels assume this orientation)")
    for k in ("tl", "tr", "bl", "br"):
        if k in tab and all(c in tab for c in k):
            s = tuple(a + b for a, b in zip(tab[k[0]], tab[k[1]]))
            chk.verdict("Q1", (init, node), f"_dir['{k}'] = _dir['{k[0]}'] + _dir['{k[1]}']", True if tab[k] == s else False,
                        f"_dir['{k}'] = {tab[k]} is not the sum {s} of its letters")
    for a, b in (("t", "b"), ("l", "r"), ("tl", "br"), ("tr", "bl")):
        if a in tab and b in tab:
            chk.verdict("Q1", (init, node), f"_dir['{a}'] = -_dir['{b}']",
                        True if tuple(-x for x in tab[a]) == tab[b] else False, f"_dir['{a}'] and _dir['{b}'] are not opposite")
    # ---------------------------------------------------------------- Q2
    chk.rule("Q2", "nn_bond_dirn pairs each direction with its opposite and label; bonds are generated in lattice order; "
             "nn_site applies one boundary rule per axis", floor=10)
    nb = sq.methods.get("nn_bond_dirn")
    chk.require(nb is not None, "SquareLattice.nn_bond_dirn not found")
    tests = [n for n in nb.node.body if isinstance(n, ast.If) and isinstance(n.body[0], ast.Return)]
    chk.require(len(tests) >= 4, "nn_bond_dirn: four direction tests expected")
    seen = set()
    for t in tests:
        ok, why = False, ""
        conj = t.test.values if isinstance(t.test, ast.BoolOp) and isinstance(t.test.op, ast.And) else []
        if len(conj) == 2:
            parsed = []
            for c in conj:
                if isinstance(c, ast.Compare) and isinstance(c.left, ast.Call) and A.text(c.left.func) == "self.nn_site" \
                        and len(c.left.args) == 2 and isinstance(c.ops[0], ast.Eq):
                    parsed.append((A.text(c.left.args[0]), A.literal(c.left.args[1]) if isinstance(c.left.args[1], ast.Constant) else None,
                                   A.text(c.comparators[0])))
            if len(parsed) == 2:
                (a0, d0, b0), (a1, d1, b1) = parsed
                label = t.body[0].value.value if isinstance(t.body[0].value, ast.Constant) else None
                if (a0, b0, a1, b1) == ("s0", "s1", "s1", "s0") and d0 in OPP:
                    seen.add(d0)
                    if d1 != OPP[d0]:
                        why = f"forward test uses '{d0}' but the reverse test uses '{d1}' instead of '{OPP[d0]}'"
                    elif label != OPP[d0] + d0:
                        why = f"s1 is the '{d0}' neighbour of s0, so the label must be '{OPP[d0] + d0}', not '{label}'"
                    else:
                        ok = True
                else:
                    why = "test is not nn_site(s0, X) == s1 and nn_site(s1, opposite X) == s0"
        if not why and not ok:
            raise AnalysisError(f"nn_bond_dirn: unrecognised test shape at {nb.where(t)}")
        chk.verdict("Q2", (nb, t), t.test, True if ok else False, why)
    chk.verdict("Q2", nb, "all four directions tested", True if seen == set(OPP) else False,
                f"nn_bond_dirn tests directions {sorted(seen)} only")
    last = nb.node.body[-1]
    chk.verdict("Q2", (nb, last), last, True if isinstance(last, ast.Raise) else False,
                "nn_bond_dirn does not end in a raise for non-neighbouring sites")
    # bonds generated in lattice order
    gens = []
    for ci in [c for c in prog.all_classes() if c.module.name == GEO and sq in prog.class_mro(c)]:
        f = ci.methods.get("__init__")
        if f is None:
            continue
        for n in ast.walk(f.node):
            if isinstance(n, ast.Call) and A.text(n.func) == "self.nn_site" and len(n.args) + len(n.keywords) == 2:
                d = n.args[1] if len(n.args) == 2 else A.kwarg(n, "d")
                if isinstance(d, ast.Constant):
                    gens.append((f, n, d.value))
    chk.require(len(gens) >= 4, "bond generation through nn_site(s, 'r'/'b') not found")
    for f, n, d in gens:
        chk.verdict("Q2", (f, n), n, True if d in ("r", "b") else False,
                    f"bonds are generated towards '{d}': listed bonds would not be in lattice order (left->right, top->bottom)")
    # Bond(s, neighbour) argument order
    for ci in [c for c in prog.all_classes() if c.module.name == GEO and sq in prog.class_mro(c)]:
        f = ci.methods.get("__init__")
        if f is None:
            continue
        inl = A.Inliner(f.node)
        for n in ast.walk(f.node):
            if isinstance(n, ast.Call) and A.call_name(n) == "Bond" and len(n.args) == 2 and not all(
                    isinstance(a, ast.Call) and A.call_name(a) == "Site" for a in n.args):
                a0, a1 = (A.text(inl.expand(x)) for x in n.args)
                if "nn_site" in a1 and "nn_site" not in a0:
                    chk.ok("Q2", (f, n), n, {"order": "site first, its r/b neighbour second"}, sample=False)
                elif "nn_site" in a0 and "nn_site" in a1:
                    # diagonal bonds of the triangular lattice: Bond(s_b, s_r)
                    chk.ok("Q2", (f, n), n, {"order": "diagonal: bottom neighbour first, right neighbour second"}, sample=False)
                elif "nn_site" in a0:
                    chk.bad("Q2", (f, n), n, "Bond lists the neighbour first: bond is not in lattice order")
    # nn_site: boundary handling per axis
    nn = sq.methods.get("nn_site")
    chk.require(nn is not None, "SquareLattice.nn_site not found")
    for n in [x for x in nn.node.body if isinstance(x, ast.If)]:
        t = A.text(n.test)
        if "self._periodic[" not in t:
            continue
        ax = 0 if "self._periodic[0]" in t else 1
        coord = "x" if ax == 0 else "y"
        other = "y" if ax == 0 else "x"
        ok = f"{coord} < 0" in t and f"{coord} >= self._dims[{ax}]" in t and f"{other} <" not in t and f"self._dims[{1 - ax}]" not in t
        chk.verdict("Q2", (nn, n), n.test, True if ok else False,
                    f"boundary test for axis {ax} must compare `{coord}` with 0 and self._dims[{ax}] (strict lower, inclusive upper bound)")
        if "== 'p'" in t:
            body = A.text(n.body)
            chk.verdict("Q2", (nn, n), n.body[0], True if body.replace(" ", "") == f"{coord}={coord}%self._dims[{ax}]" else False,
                        f"periodic wrap of axis {ax} must be `{coord} = {coord} % self._dims[{ax}]`")
    # ---------------------------------------------------------------- Q3
    chk.rule("Q3", "Lattice item access, patches and initialisation use the same key site2index(site); site2index reduces "
             "modulo the periods", floor=8)
    L = prog.cls(GEO, "Lattice")
    gi, si, ap, ini = (L.methods.get(k) for k in ("__getitem__", "__setitem__", "apply_patch", "__init__"))
    chk.require(all((gi, si, ap, ini)), "Lattice.__getitem__/__setitem__/apply_patch/__init__ not found")
    key = "self._site_data[self.site2index(site)]"

    def subs(f, store):
        out = []
        for n in ast.walk(f.node):
            if isinstance(n, ast.Subscript) and A.text(n.value) == "self._site_data" and isinstance(n.ctx, ast.Store if store else ast.Load):
                out.append(n)
        return out
    for f, store in ((gi, False), (si, True), (ap, True)):
        ss = subs(f, store)
        chk.require(ss, f"{f.short}: access of self._site_data not found")
        for n in ss:
            chk.verdict("Q3", (f, n), n, True if A.text(n) == key else False,
                        f"{f.short} indexes _site_data with `{A.text(n.slice)}` instead of `self.site2index(site)`: objects are "
                        f"stored and looked up under different keys")
    # patches consulted first with the raw site
    for f in (gi, si):
        first = A.strip_docstring(f.node.body)[0]
        ok = isinstance(first, ast.If) and A.text(first.test) == "site in self._patch"
        chk.verdict("Q3", (f, first), first.test if isinstance(first, ast.If) else first, True if ok else False,
                    f"{f.short} does not consult the patch overlay first (`if site in self._patch`)")
    # initialisation of the container
    init_ok = any(isinstance(n, ast.Assign) and A.text(n.targets[0]) == "self._site_data" and
                  A.text(n.value) == "{self.site2index(site): None for site in self.sites()}" for n in ast.walk(ini.node))
    chk.verdict("Q3", ini, "self._site_data = {self.site2index(site): None for site in self.sites()}", True if init_ok else False,
                "Lattice.__init__ does not create one slot per site2index(site) of the unique sites")
    # apply_patch iterates a snapshot and pops what it stores
    t = A.text(ap.node)
    chk.verdict("Q3", ap, "apply_patch pops the entry it folds back", True if "= self._patch.pop(site)" in t and "list(self._patch.keys())" in t else False,
                "apply_patch no longer removes the patch entries it copies into _site_data (or mutates the dict while iterating it)")
    # site2index of each geometry: every use of a coordinate is reduced modulo the period of *its own* axis
    # (or, combined with the other coordinate, modulo a constant: checkerboard parity, sqrt3 x sqrt3 triangular cell);
    # an un-reduced coordinate is allowed only in the else-branch of a test on that axis' boundary type.
    PERIOD = {0: {"self.Nx", "self._dims[0]"}, 1: {"self.Ny", "self._dims[1]"}}
    pd = [n for n in prog.module(GEO).tree.body if isinstance(n, ast.Assign) and A.text(n.targets[0]) == "_periodic_dict"]
    chk.require(pd, "_periodic_dict table not found")
    try:
        ptab = ast.literal_eval(pd[0].value)
    except Exception as e:
        raise AnalysisError("_periodic_dict is not a literal table") from e
    letters = {0: {v[0] for v in ptab.values()}, 1: {v[1] for v in ptab.values()}}
    for ci in [c for c in prog.all_classes() if c.module.name == GEO and (c is sq or sq in prog.class_mro(c))]:
        f = ci.methods.get("site2index")
        if f is None or f.cls is not ci:
            continue
        parent = A.enclosing_map(f.node)
        uses = [n for n in ast.walk(f.node) if isinstance(n, ast.Subscript) and A.text(n.value) == "site"
                and isinstance(n.slice, ast.Constant) and n.slice.value in (0, 1)]
        chk.require(uses, f"{ci.name}.site2index does not read site[0]/site[1]")
        for u in uses:
            ax = u.slice.value
            cur, ok, why = u, None, ""
            while cur in parent and not isinstance(parent[cur], ast.stmt):
                p = parent[cur]
                if isinstance(p, ast.BinOp) and isinstance(p.op, ast.Mod) and p.left is cur or \
                        (isinstance(p, ast.BinOp) and isinstance(p.op, ast.Mod) and cur in list(ast.walk(p.left))):
                    mod = A.text(p.right)
                    both = {n.slice.value for n in ast.walk(p.left) if isinstance(n, ast.Subscript) and A.text(n.value) == "site"
                            and isinstance(n.slice, ast.Constant)}
                    if mod in PERIOD[ax]:
                        ok = True
                    elif isinstance(p.right, ast.Constant) and both == {0, 1}:
                        ok = True
                    else:
                        ok, why = False, f"site[{ax}] is reduced modulo `{mod}`, which is not the period of axis {ax}"
                    break
                if isinstance(p, ast.IfExp) and cur is p.orelse and f"self._periodic[{ax}]" in A.text(p.test):
                    # the raw coordinate is the index only for an open boundary along this axis: evaluate the test for every
                    # boundary letter that _periodic_dict can put on this axis
                    wrong = [c for c in sorted(letters[ax]) if c != "o" and _eval_letter_test(p.test, f"self._periodic[{ax}]", c) is not True]
                    undec = [c for c in sorted(letters[ax]) if _eval_letter_test(p.test, f"self._periodic[{ax}]", c) is None]
                    if undec:
                        raise AnalysisError(f"{ci.name}.site2index: cannot evaluate `{A.text(p.test)}` for boundary letter(s) {undec}")
                    if wrong:
                        ok, why = False, (f"site[{ax}] is not reduced modulo the period when the boundary letter of axis {ax} is "
                                          f"{wrong} (periodic): `{A.text(p.test)}` sends it to the un-reduced branch")
                    else:
                        ok = True
                    break
                cur = p
            if ok is None:
                ok, why = False, f"site[{ax}] is used without reduction modulo the lattice period"
            chk.verdict("Q3", (f, u), f"{ci.name}.site2index: site[{ax}] in `{A.short(A.stmt_of(u, parent), 70)}`",
                        True if ok else False, f"{ci.name}.site2index: {why}: indexing is not invariant under the lattice periods")
        # a linear index u * K + v built from two reduced coordinates is injective only if the stride K is the period of v
        for add in [n for n in ast.walk(f.node) if isinstance(n, ast.BinOp) and isinstance(n.op, ast.Add)]:
            def reduced(n):
                if isinstance(n, ast.BinOp) and isinstance(n.op, ast.Mod) and isinstance(n.left, ast.Subscript) and A.text(n.left.value) == "site" \
                        and isinstance(n.left.slice, ast.Constant):
                    return n.left.slice.value, A.text(n.right)
                return None
            for big, small in ((add.left, add.right), (add.right, add.left)):
                rs = reduced(small)
                if rs is None or not (isinstance(big, ast.BinOp) and isinstance(big.op, ast.Mult)):
                    continue
                for u, K in ((big.left, big.right), (big.right, big.left)):
                    ru = reduced(u)
                    if ru is None:
                        continue
                    okk = A.text(K) in PERIOD[rs[0]] and rs[1] in PERIOD[rs[0]] and ru[0] != rs[0]
                    chk.verdict("Q3", (f, add), f"{ci.name}.site2index: stride `{A.text(K)}` of `{A.short(add, 60)}`", True if okk else False,
                                f"{ci.name}.site2index: the linear index `{A.short(add, 70)}` multiplies the reduced site[{ru[0]}] by `{A.text(K)}`, "
                                f"which is not the period of site[{rs[0]}] (`{rs[1]}`): two different sites of a non-square cell share one index")
    # ---------------------------------------------------------------- Q4
    chk.rule("Q4", "inconsistent patterns and non-unique / missing assignments are rejected", floor=4)
    ru = prog.cls(GEO, "RectangularUnitcell")
    ri = ru.methods.get("__init__")
    cfg = CFG(ri.node)
    guard = [n for n in A.walk_local(ri.node) if isinstance(n, ast.If) and "len(set(envs)) > 1" in A.text(n.test)
             and any(isinstance(b, ast.Raise) for b in n.body)]
    stores = [n for n in A.walk_local(ri.node) if isinstance(n, ast.Assign) and A.text(n.targets[0]) in ("self._sites", "self._bonds_h", "self._bonds_v")]
    if not guard:
        chk.bad("Q4", ri, "neighbourhood guard", "RectangularUnitcell.__init__ no longer rejects patterns in which one label has two "
                "different neighbourhoods (`len(set(envs)) > 1` -> raise)")
    else:
        g = guard[0]
        t = A.text(g.test)
        chk.verdict("Q4", (ri, g), g.test, True if t == "any((len(set(envs)) > 1 for envs in label_envs.values()))" else False,
                    "the neighbourhood guard no longer quantifies over all labels")
        dom = stores and all(cfg.must_pass([s], [g.test]) for s in stores)
        chk.verdict("Q4", (ri, g), "guard dominates the unique sites/bonds", True if dom else False,
                    "unique sites/bonds are assigned on a path that skips the neighbourhood guard")
        # the four neighbours compared
        envs = [n for n in ast.walk(ri.node) if isinstance(n, ast.Assign) and A.text(n.targets[0]) == "env"]
        if envs:
            tx = A.text(envs[0].value)
            need = ["(nx - 1, ny)", "(nx, ny - 1)", "(nx + 1, ny)", "(nx, ny + 1)"]
            chk.verdict("Q4", (ri, envs[0]), envs[0], True if all(x in tx for x in need) else False,
                        "the neighbourhood compared does not consist of the four nearest neighbours")
    ltxt = A.text(ini.node)
    chk.verdict("Q4", ini, "non-unique assignment raises", True if "elif self[site] is not tensor: raise" in ltxt.replace("\n", " ") or
                "Non-unique assignment" in ltxt else False, "Lattice.__init__ lost the non-unique-assignment rejection")
    chk.verdict("Q4", ini, "unassigned sites raise", True if "any((tensor is None for tensor in self._site_data.values()))" in ltxt else False,
                "Lattice.__init__ lost the check that every unique site got an object")


MUTANTS = [
    ("dir table entry", "yastn/tn/fpeps/_geometry.py", "'tl': (-1, -1), 't': (-1, 0), 'tr': (-1,  1),", "'tl': (-1, -1), 't': (-1, 0), 'tr': (-1,  -1),", "Q1"),
    ("label rl for r", "yastn/tn/fpeps/_geometry.py", "            return 'lr'  # dirn", "            return 'rl'  # dirn", "Q2"),
    ("cylinder row not reduced", "yastn/tn/fpeps/_geometry.py", "        x = site[0] % self._dims[0] if self._periodic[0] in 'ip' else site[0]", "        x = site[0] % self._dims[0] if self._periodic[0] == 'i' else site[0]", "Q3"),
    ("wrong stride", "yastn/tn/fpeps/_geometry.py", "            return (site[0] % self.Nx) * self.Ny + site[1] % self.Ny", "            return (site[0] % self.Nx) * self.Nx + site[1] % self.Ny", "Q3"),
    ("setitem keyed by site", "yastn/tn/fpeps/_geometry.py", "            self._site_data[self.site2index(site)] = obj", "            self._site_data[site] = obj", "Q3"),
    ("pattern guard deleted", "yastn/tn/fpeps/_geometry.py",
     "        if any(len(set(envs)) > 1 for envs in label_envs.values()):\n            raise YastnError(\"RectangularUnitcell: each unique label should have the same neighbors.\")\n", "", "Q4"),
    ("wrong reverse direction", "yastn/tn/fpeps/_geometry.py", "self.nn_site(s0, 'b') == s1 and self.nn_site(s1, 't') == s0", "self.nn_site(s0, 'b') == s1 and self.nn_site(s1, 'b') == s0", "Q2"),
    ("upper bound off by one", "yastn/tn/fpeps/_geometry.py", "if self._periodic[1] == 'o' and (y < 0 or y >= self._dims[1]):", "if self._periodic[1] == 'o' and (y < 0 or y > self._dims[1]):", "Q2"),
]
BENIGN = [
    ("boundary test as != 'o'", "yastn/tn/fpeps/_geometry.py", "        x = site[0] % self._dims[0] if self._periodic[0] in 'ip' else site[0]", "        x = site[0] % self._dims[0] if self._periodic[0] != 'o' else site[0]"),
    ("column-major stride", "yastn/tn/fpeps/_geometry.py", "            return (site[0] % self.Nx) * self.Ny + site[1] % self.Ny", "            return site[0] % self.Nx + self.Nx * (site[1] % self.Ny)"),
    ("reorder dir literal", "yastn/tn/fpeps/_geometry.py", "        self._dir = {'tl': (-1, -1), 't': (-1, 0), 'tr': (-1,  1),\n                      'l': ( 0, -1),                'r': ( 0,  1),",
     "        self._dir = {'t': (-1, 0), 'tl': (-1, -1), 'tr': (-1,  1),\n                      'r': ( 0,  1),                'l': ( 0, -1),"),
]
