"""C20 — lattice geometry is a consistent indexing of the square lattice (engine E11 `geomtab`), partial.

Decided (structural necessary conditions):
  Q1  the direction table `_dir` is antisymmetric, its axis directions are unit vectors and diagonals are sums
  Q2  nn_bond_dirn pairs each direction with its opposite and returns the matching label; unmatched bonds raise;
      bonds are generated only in lattice order ('r' and 'b'); nn_site treats both axes by the same boundary rule
  Q3  the Lattice container reads, writes and folds patches with the same key expression site2index(site);
      every site2index reduces modulo the cell periods it was built with
  Q4  inconsistent unit-cell patterns and non-unique/missing assignments are rejected before the object is usable
Not decided: the enumerated value-level invariants (each site once, periodicities, total order).
"""
from __future__ import annotations

import ast

from ..core import astutil as A
from ..core.cfg import CFG
from ..core.errors import AnalysisError

GEO = "yastn.tn.fpeps._geometry"
OPP = {"t": "b", "b": "t", "l": "r", "r": "l"}


def _dir_table(chk, sq):
    init = sq.methods.get("__init__")
    chk.require(init is not None, "SquareLattice.__init__ not found")
    for n in ast.walk(init.node):
        if isinstance(n, ast.Assign) and A.text(n.targets[0]) == "self._dir":
            v = n.value
            # `dict(NAME)` / `NAME.copy()` / `NAME` of a module-level literal table
            ref = None
            if isinstance(v, ast.Call) and A.call_name(v) == "dict" and len(v.args) == 1 and isinstance(v.args[0], ast.Name) and not v.keywords:
                ref = v.args[0].id
            elif isinstance(v, ast.Call) and isinstance(v.func, ast.Attribute) and v.func.attr == "copy" and isinstance(v.func.value, ast.Name) and not v.args:
                ref = v.func.value.id
            elif isinstance(v, ast.Name):
                ref = v.id
            if ref is not None:
                tops = [st.value for st in init.module.tree.body if isinstance(st, ast.Assign) and len(st.targets) == 1 and A.text(st.targets[0]) == ref]
                if len(tops) == 1:
                    v = tops[0]
            try:
                return init, n, ast.literal_eval(v)
            except Exception as e:
                raise AnalysisError("SquareLattice._dir is not a literal table") from e
    raise AnalysisError("SquareLattice._dir assignment not found")


def _eval_letter_test(test, subject, letter):
    """evaluate a test on a one-letter boundary code (`subj in 'ip'`, `subj == 'i'`, not/and/or of these) -> True/False/None"""
    if isinstance(test, ast.Compare) and len(test.ops) == 1 and A.text(test.left) == subject and isinstance(test.comparators[0], ast.Constant) \
            and isinstance(test.comparators[0].value, str):
        c = test.comparators[0].value
        op = test.ops[0]
        if isinstance(op, ast.In):
            return letter in c
        if isinstance(op, ast.NotIn):
            return letter not in c
        if isinstance(op, ast.Eq):
            return letter == c
        if isinstance(op, ast.NotEq):
            return letter != c
        return None
    if isinstance(test, ast.Compare) and len(test.ops) == 1 and A.text(test.left) == subject and isinstance(test.comparators[0], (ast.Tuple, ast.List, ast.Set)):
        try:
            vals = [ast.literal_eval(e) for e in test.comparators[0].elts]
        except Exception:
            return None
        if isinstance(test.ops[0], ast.In):
            return letter in vals
        if isinstance(test.ops[0], ast.NotIn):
            return letter not in vals
        return None
    if isinstance(test, ast.UnaryOp) and isinstance(test.op, ast.Not):
        v = _eval_letter_test(test.operand, subject, letter)
        return None if v is None else not v
    if isinstance(test, ast.BoolOp):
        vs = [_eval_letter_test(v, subject, letter) for v in test.values]
        if isinstance(test.op, ast.And):
            return False if any(v is False for v in vs) else (True if all(v is True for v in vs) else None)
        return True if any(v is True for v in vs) else (False if all(v is False for v in vs) else None)
    return None


def run(chk):
    prog = chk.prog
    chk.explanation = (
        "Constant tables and key expressions of the lattice geometry are read from the AST and checked algebraically: "
        "antisymmetry and composition of the direction table, pairing of directions/labels in nn_bond_dirn, the boundary "
        "rule of nn_site per axis, the generation of bonds in lattice order, agreement of the key expression used by "
        "Lattice.__getitem__/__setitem__/apply_patch/__init__, the modular reduction in every site2index, and dominance "
        "of the rejection guards. Value-level enumerations (uniqueness of sites, total order) are not decided.")
    chk.trusted_base = ["python ast parser"]
    sq = prog.cls(GEO, "SquareLattice")
    # ---------------------------------------------------------------- Q1
    chk.rule("Q1", "direction table is antisymmetric; axis directions are unit vectors; diagonals are sums of their letters", floor=10)
    init, node, tab = _dir_table(chk, sq)
    want_axes = {"t": (-1, 0), "b": (1, 0), "l": (0, -1), "r": (0, 1)}
    chk.verdict("Q1", (init, node), "_dir keys", True if set(tab) == {"t", "b", "l", "r", "tl", "tr", "bl", "br"} else False,
                f"_dir has keys {sorted(tab)}")
    for k, v in want_axes.items():
        chk.verdict("Q1", (init, node), f"_dir['{k}'] = {tab.get(k)}", True if tab.get(k) == v else False,
                    f"_dir['{k}'] should be {v} (rows grow downwards, columns to the right; bonds, f_ordered and the "
                    f"'lr'/'tb' labels assume this orientation)")
    for k in ("tl", "tr", "bl", "br"):
        if k in tab and all(c in tab for c in k):
            s = tuple(a + b for a, b in zip(tab[k[0]], tab[k[1]]))
            chk.verdict("Q1", (init, node), f"_dir['{k}'] = _dir['{k[0]}'] + _dir['{k[1]}']", True if tab[k] == s else False,
                        f"_dir['{k}'] = {tab[k]} is not the sum {s} of its letters")
    for a, b in (("t", "b"), ("l", "r"), ("tl", "br"), ("tr", "bl")):
        if a in tab and b in tab:
            chk.verdict("Q1", (init, node), f"_dir['{a}'] = -_dir['{b}']",
                        True if tuple(-x for x in tab[a]) == tab[b] else False, f"_dir['{a}'] and _dir['{b}'] are not opposite")
    # ---------------------------------------------------------------- Q2
    chk.rule("Q2", "nn_bond_dirn pairs each direction with its opposite and label; bonds are generated in lattice order; "
             "nn_site applies one boundary rule per axis", floor=10)
    nb = sq.methods.get("nn_bond_dirn")
    chk.require(nb is not None, "SquareLattice.nn_bond_dirn not found")
    s0n, s1n = nb.params[1], nb.params[2]

    def subst(node, env):
        import copy

        class R(ast.NodeTransformer):
            def visit_Name(self, n):
                return ast.Constant(value=env[n.id]) if n.id in env else n
        return R().visit(copy.deepcopy(node))
    # direction tests, written either as a sequence of `if ...: return '<label>'` or as a loop over a literal table of
    # (forward direction, reverse direction, label) rows with one such `if` in its body
    cases = []     # (report node, test node with constants, label)
    for n in nb.node.body:
        if isinstance(n, ast.If) and len(n.body) == 1 and isinstance(n.body[0], ast.Return) and isinstance(n.body[0].value, ast.Constant):
            cases.append((n, n.test, n.body[0].value.value))
        elif isinstance(n, ast.For) and len(n.body) == 1 and isinstance(n.body[0], ast.If) and isinstance(n.body[0].body[0], ast.Return):
            rows = A.literal_seq(n.iter, nb.node, prog.module(GEO).tree)
            names = A.assigned_names(n.target)
            if rows is not None:
                rows = [tuple(r_) if isinstance(r_, str) and len(r_) == len(names) else r_ for r_ in rows]   # 'tb' unpacks to ('t', 'b')
            if rows is None or not all(isinstance(r_, (tuple, list)) and len(r_) == len(names) for r_ in rows):
                raise AnalysisError("nn_bond_dirn: table of directions is not a literal")
            for r_ in rows:
                env = dict(zip(names, r_))
                lab = subst(n.body[0].body[0].value, env)
                try:
                    from ..core.minieval import evaluate
                    labv = evaluate(lab, {})
                except Exception:  # noqa: BLE001
                    labv = None
                cases.append((n, subst(n.body[0].test, env), labv))
    chk.require(len(cases) >= 4, "nn_bond_dirn: four direction tests expected")
    seen = set()
    for rep, test, label in cases:
        ok, why = False, ""
        conj = test.values if isinstance(test, ast.BoolOp) and isinstance(test.op, ast.And) else []
        if len(conj) == 2:
            parsed = []
            for c in conj:
                if isinstance(c, ast.Compare) and isinstance(c.left, ast.Call) and A.text(c.left.func) == f"{nb.params[0]}.nn_site" \
                        and len(c.left.args) == 2 and isinstance(c.ops[0], ast.Eq):
                    parsed.append((A.text(c.left.args[0]), c.left.args[1].value if isinstance(c.left.args[1], ast.Constant) else None,
                                   A.text(c.comparators[0])))
            if len(parsed) == 2:
                if parsed[0][0] == s1n:          # reverse test written first
                    parsed = parsed[::-1]
                (a0, d0, b0), (a1, d1, b1) = parsed
                if (a0, b0, a1, b1) == (s0n, s1n, s1n, s0n) and d0 in OPP:
                    seen.add(d0)
                    if d1 != OPP[d0]:
                        why = f"forward test uses '{d0}' but the reverse test uses '{d1}' instead of '{OPP[d0]}'"
                    elif label != OPP[d0] + d0:
                        why = f"{s1n} is the '{d0}' neighbour of {s0n}, so the label must be '{OPP[d0] + d0}', not '{label}'"
                    else:
                        ok = True
                else:
                    why = "test is not nn_site(s0, X) == s1 and nn_site(s1, opposite X) == s0"
        if not why and not ok:
            raise AnalysisError(f"nn_bond_dirn: unrecognised test shape at {nb.where(rep)}")
        chk.verdict("Q2", (nb, rep), f"{A.text(test)} -> {label!r}", True if ok else False, why)
    chk.verdict("Q2", nb, "all four directions tested", True if seen == set(OPP) else False,
                f"nn_bond_dirn tests directions {sorted(seen)} only")
    # On a periodic axis of length 2 (or 1) a site is both the right and the left (bottom and top) neighbour: both tests of an axis hold.
    # Bonds are listed in lattice order (site, its 'r'/'b' neighbour), so the lattice-order test of each axis must come first.
    order_ = []
    for rep, test, label in cases:
        for c in (test.values if isinstance(test, ast.BoolOp) else []):
            if isinstance(c, ast.Compare) and isinstance(c.left, ast.Call) and len(c.left.args) == 2 and A.text(c.left.args[0]) == s0n \
                    and isinstance(c.left.args[1], ast.Constant):
                order_.append(c.left.args[1].value)
    for fwd, bwd in (("r", "l"), ("b", "t")):
        if fwd in order_ and bwd in order_:
            chk.verdict("Q2", nb, f"'{fwd}' is tested before '{bwd}'", True if order_.index(fwd) < order_.index(bwd) else False,
                        f"nn_bond_dirn tests direction '{bwd}' before '{fwd}': on a periodic axis of length 2 both hold and a bond listed in lattice "
                        f"order (site, its '{fwd}' neighbour) is reported with the reversed label")
    last = nb.node.body[-1]
    chk.verdict("Q2", (nb, last), last, True if isinstance(last, ast.Raise) else False,
                "nn_bond_dirn does not end in a raise for non-neighbouring sites")
    # bonds generated in lattice order
    gens = []
    for ci in [c for c in prog.all_classes() if c.module.name == GEO and sq in prog.class_mro(c)]:
        f = ci.methods.get("__init__")
        if f is None:
            continue
        for n in ast.walk(f.node):
            if isinstance(n, ast.Call) and A.text(n.func) == "self.nn_site" and len(n.args) + len(n.keywords) == 2:
                d = n.args[1] if len(n.args) == 2 else A.kwarg(n, "d")
                if isinstance(d, ast.Constant):
                    gens.append((f, n, d.value))
    chk.require(len(gens) >= 4, "bond generation through nn_site(s, 'r'/'b') not found")
    for f, n, d in gens:
        chk.verdict("Q2", (f, n), n, True if d in ("r", "b") else False,
                    f"bonds are generated towards '{d}': listed bonds would not be in lattice order (left->right, top->bottom)")
    # Bond(s, neighbour) argument order
    for ci in [c for c in prog.all_classes() if c.module.name == GEO and sq in prog.class_mro(c)]:
        f = ci.methods.get("__init__")
        if f is None:
            continue
        inl = A.Inliner(f.node)
        for n in ast.walk(f.node):
            if isinstance(n, ast.Call) and A.call_name(n) == "Bond" and len(n.args) == 2 and not all(
                    isinstance(a, ast.Call) and A.call_name(a) == "Site" for a in n.args):
                a0, a1 = (A.text(inl.expand(x)) for x in n.args)
                if "nn_site" in a1 and "nn_site" not in a0:
                    chk.ok("Q2", (f, n), n, {"order": "site first, its r/b neighbour second"}, sample=False)
                elif "nn_site" in a0 and "nn_site" in a1:
                    # diagonal bonds of the triangular lattice: Bond(s_b, s_r)
                    chk.ok("Q2", (f, n), n, {"order": "diagonal: bottom neighbour first, right neighbour second"}, sample=False)
                elif "nn_site" in a0:
                    chk.bad("Q2", (f, n), n, "Bond lists the neighbour first: bond is not in lattice order")
    # nn_site: boundary handling per axis
    nn = sq.methods.get("nn_site")
    chk.require(nn is not None, "SquareLattice.nn_site not found")
    me = nn.params[0]
    # coordinate variables: the names unpacked from the site (axis 0 first); period of an axis: self._dims[ax], self.Nx/Ny or a local
    # unpacked from self._dims at that position
    coords = None
    per = {0: {f"{me}._dims[0]", f"{me}.Nx"}, 1: {f"{me}._dims[1]", f"{me}.Ny"}}
    for n in A.walk_local(nn.node):
        if isinstance(n, ast.Assign) and isinstance(n.targets[0], ast.Tuple) and len(n.targets[0].elts) == 2:
            if A.text(n.value) == nn.params[1]:
                coords = [A.text(e) for e in n.targets[0].elts]
            if A.text(n.value) in (f"{me}._dims", f"{me}.dims"):
                for ax_, e in enumerate(n.targets[0].elts):
                    per[ax_].add(A.text(e))
    chk.require(coords, "nn_site: unpacking of the site into coordinates not found")

    def outside_test(t, ax):
        """(coord < 0 or coord >= period) for the coordinate and period of axis `ax`, in either order"""
        if not (isinstance(t, ast.BoolOp) and isinstance(t.op, ast.Or) and len(t.values) == 2):
            return False
        got = set()
        for c in t.values:
            if isinstance(c, ast.Compare) and len(c.ops) == 1 and A.text(c.left) == coords[ax]:
                if isinstance(c.ops[0], ast.Lt) and A.neg_const(c.comparators[0]) == 0:
                    got.add("low")
                if isinstance(c.ops[0], ast.GtE) and A.text(c.comparators[0]) in per[ax]:
                    got.add("high")
                if isinstance(c.ops[0], ast.Gt) and A.text(c.comparators[0]).replace(" ", "") in {p_ + "-1" for p_ in per[ax]}:
                    got.add("high")
        return got == {"low", "high"}
    nbt = 0
    tests_ = []
    for n in [x for x in nn.node.body if isinstance(x, ast.If)]:
        # a disjunction of boundary tests sharing one body is the same as the tests one after the other
        if isinstance(n.test, ast.BoolOp) and isinstance(n.test.op, ast.Or) and all(isinstance(v_, ast.BoolOp) and isinstance(v_.op, ast.And) for v_ in n.test.values):
            tests_ += [(n, v_) for v_ in n.test.values]
        else:
            tests_.append((n, n.test))
    for n, t in tests_:
        if not (isinstance(t, ast.BoolOp) and isinstance(t.op, ast.And) and len(t.values) == 2):
            continue
        letter = [c for c in t.values if isinstance(c, ast.Compare) and A.text(c.left).startswith(f"{me}._periodic[")
                  and isinstance(c.comparators[0], ast.Constant)]
        if len(letter) != 1:
            continue
        nbt += 1
        ax = 0 if A.text(letter[0].left) == f"{me}._periodic[0]" else 1
        rng = [c for c in t.values if c is not letter[0]][0]
        ok = outside_test(rng, ax)
        chk.verdict("Q2", (nn, n), t, True if ok else False,
                    f"boundary test for axis {ax} must compare `{coords[ax]}` with 0 and the size of axis {ax} (strict lower, inclusive upper bound)")
        if letter[0].comparators[0].value == "p":
            b0 = n.body[0]
            okw = isinstance(b0, ast.Assign) and A.text(b0.targets[0]) == coords[ax] and isinstance(b0.value, ast.BinOp) and isinstance(b0.value.op, ast.Mod) \
                and A.text(b0.value.left) == coords[ax] and A.text(b0.value.right) in per[ax]
            chk.verdict("Q2", (nn, n), n.body[0], True if okw else False,
                        f"periodic wrap of axis {ax} must be `{coords[ax]} = {coords[ax]} % <size of axis {ax}>`")
    chk.require(nbt >= 3, f"nn_site: {nbt} boundary tests found (3 confirmed by hand)")
    # ---------------------------------------------------------------- Q3
    chk.rule("Q3", "Lattice item access, patches and initialisation use the same key site2index(site); site2index reduces "
             "modulo the periods", floor=8)
    L = prog.cls(GEO, "Lattice")
    gi, si, ap, ini = (L.methods.get(k) for k in ("__getitem__", "__setitem__", "apply_patch", "__init__"))
    chk.require(all((gi, si, ap, ini)), "Lattice.__getitem__/__setitem__/apply_patch/__init__ not found")
    def subs(f, store):
        out = []
        for n in ast.walk(f.node):
            if isinstance(n, ast.Subscript) and A.text(n.value) == f"{f.params[0]}._site_data" and isinstance(n.ctx, ast.Store if store else ast.Load):
                out.append(n)
        return out
    sitevar = {id(gi): gi.params[1], id(si): si.params[1]}
    for n in ast.walk(ap.node):
        if isinstance(n, ast.For):
            sitevar[id(ap)] = A.text(n.target)
    chk.require(id(ap) in sitevar, "apply_patch: loop over the patched sites not found")
    for f, store in ((gi, False), (si, True), (ap, True)):
        ss = subs(f, store)
        chk.require(ss, f"{f.short}: access of self._site_data not found")
        key = f"{f.params[0]}.site2index({sitevar[id(f)]})"
        for n in ss:
            chk.verdict("Q3", (f, n), n, True if A.text(n.slice) == key else False,
                        f"{f.short} indexes _site_data with `{A.text(n.slice)}` instead of `{key}`: objects are "
                        f"stored and looked up under different keys")

    def polarity(test, me_, site_):
        """+1 for `site in self._patch`, -1 for its negation, None otherwise"""
        pos = f"{site_} in {me_}._patch"
        neg = f"{site_} not in {me_}._patch"
        t = A.text(test)
        if t == pos:
            return 1
        if t in (neg, f"not {pos}", f"not ({pos})"):
            return -1
        return None
    # the patch overlay is consulted with the raw site on every path: item access goes to the patch iff the site is patched
    for f, store in ((gi, False), (si, True)):
        me_, site_ = f.params[0], f.params[1]
        body = A.strip_docstring(f.node.body)
        paths = []
        if not store and len(body) == 1 and isinstance(body[0], ast.Return) and isinstance(body[0].value, ast.IfExp):
            e = body[0].value
            paths = [([(e.test, True)], {}, e.body), ([(e.test, False)], {}, e.orelse)]
        else:
            for conds, stores, ret in A.straightline_paths(body):
                paths.append((conds, stores, ret.value if ret is not None else None))
        ok = len(paths) == 2
        for conds, stores, val in paths:
            pol = [polarity(t, me_, site_) * (1 if o else -1) for t, o in conds if polarity(t, me_, site_) is not None]
            if len(pol) != 1:
                ok = False
                continue
            patched = pol[0] == 1
            want = f"{me_}._patch[{site_}]" if patched else f"{me_}._site_data[{me_}.site2index({site_})]"
            if store:
                ok = ok and list(stores) == [want]
            else:
                ok = ok and val is not None and A.text(val) == want
        chk.verdict("Q3", f, f"{f.short}: patched sites go to the patch overlay, all others to _site_data[site2index(site)]", True if ok else False,
                    f"{f.short} does not consult the patch overlay first with the raw site (`{site_} in {me_}._patch`) on every path")
    # initialisation of the container: one slot per site2index(site) of the unique sites
    init_ok = False
    for n in ast.walk(ini.node):
        if isinstance(n, ast.Assign) and A.text(n.targets[0]) == f"{ini.params[0]}._site_data" and isinstance(n.value, ast.DictComp):
            g0 = n.value.generators[0]
            init_ok = A.text(n.value.key) == f"{ini.params[0]}.site2index({A.text(g0.target)})" and A.text(g0.iter) == f"{ini.params[0]}.sites()" \
                and A.neg_const(n.value.value) is None and A.text(n.value.value) == "None"
    chk.verdict("Q3", ini, "self._site_data = {self.site2index(site): None for site in self.sites()}", True if init_ok else False,
                "Lattice.__init__ does not create one slot per site2index(site) of the unique sites")
    # apply_patch iterates a snapshot of the patched sites and pops what it stores
    me_ = ap.params[0]
    loops = [n for n in ast.walk(ap.node) if isinstance(n, ast.For)]
    okp = False
    if len(loops) == 1:
        it = A.Inliner(ap.node).expand(loops[0].iter)
        snap = isinstance(it, ast.Call) and A.call_name(it) in ("list", "tuple") and len(it.args) == 1 and \
            A.text(it.args[0]) in (f"{me_}._patch", f"{me_}._patch.keys()")
        sv = A.text(loops[0].target)
        st = [n for n in loops[0].body if isinstance(n, ast.Assign)]
        okp = snap and len(st) == 1 and A.text(st[0].targets[0]) == f"{me_}._site_data[{me_}.site2index({sv})]" and \
            A.text(st[0].value) == f"{me_}._patch.pop({sv})"
    chk.verdict("Q3", ap, "apply_patch pops the entry it folds back", True if okp else False,
                "apply_patch no longer removes the patch entries it copies into _site_data (or mutates the dict while iterating it)")
    # site2index of each geometry: every use of a coordinate is reduced modulo the period of *its own* axis
    # (or, combined with the other coordinate, modulo a constant: checkerboard parity, sqrt3 x sqrt3 triangular cell);
    # an un-reduced coordinate is allowed only in the else-branch of a test on that axis' boundary type.
    PERIOD = {0: {"self.Nx", "self._dims[0]"}, 1: {"self.Ny", "self._dims[1]"}}
    # the boundary-letter table is the module-level dict that SquareLattice.__init__ subscripts with `boundary` for self._periodic
    sq_init = prog.cls(GEO, "SquareLattice").methods["__init__"]
    tabname = None
    for n in ast.walk(sq_init.node):
        if isinstance(n, ast.Assign) and A.text(n.targets[0]).endswith("._periodic") and isinstance(n.value, ast.Subscript) and isinstance(n.value.value, ast.Name):
            tabname = n.value.value.id
    chk.require(tabname is not None, "SquareLattice.__init__: `self._periodic = <table>[boundary]` not found")
    pd = [n for n in prog.module(GEO).tree.body if isinstance(n, ast.Assign) and A.text(n.targets[0]) == tabname]
    chk.require(pd, f"boundary-letter table `{tabname}` not found")
    try:
        ptab = ast.literal_eval(pd[0].value)
    except Exception as e:
        raise AnalysisError("_periodic_dict is not a literal table") from e
    letters = {0: {v[0] for v in ptab.values()}, 1: {v[1] for v in ptab.values()}}
    for ci in [c for c in prog.all_classes() if c.module.name == GEO and (c is sq or sq in prog.class_mro(c))]:
        f = ci.methods.get("site2index")
        if f is None or f.cls is not ci:
            continue
        parent = A.enclosing_map(f.node)
        uses = [n for n in ast.walk(f.node) if isinstance(n, ast.Subscript) and A.text(n.value) == "site"
                and isinstance(n.slice, ast.Constant) and n.slice.value in (0, 1)]
        chk.require(uses, f"{ci.name}.site2index does not read site[0]/site[1]")
        for u in uses:
            ax = u.slice.value
            cur, ok, why = u, None, ""
            while cur in parent and not isinstance(parent[cur], ast.stmt):
                p = parent[cur]
                if isinstance(p, ast.BinOp) and isinstance(p.op, ast.Mod) and p.left is cur or \
                        (isinstance(p, ast.BinOp) and isinstance(p.op, ast.Mod) and cur in list(ast.walk(p.left))):
                    mod = A.text(p.right)
                    both = {n.slice.value for n in ast.walk(p.left) if isinstance(n, ast.Subscript) and A.text(n.value) == "site"
                            and isinstance(n.slice, ast.Constant)}
                    if mod in PERIOD[ax]:
                        ok = True
                    elif isinstance(p.right, ast.Constant) and both == {0, 1}:
                        ok = True
                    else:
                        ok, why = False, f"site[{ax}] is reduced modulo `{mod}`, which is not the period of axis {ax}"
                    break
                if isinstance(p, ast.IfExp) and (cur is p.orelse or cur is p.body) and f"self._periodic[{ax}]" in A.text(p.test):
                    # the raw coordinate is the index only for an open boundary along this axis: evaluate the test for every
                    # boundary letter that _periodic_dict can put on this axis; the un-reduced use sits in the branch taken when the
                    # test is `want_raw` (False for `reduced if periodic else raw`, True for `raw if open else reduced`)
                    want_raw = cur is p.body
                    wrong = [c for c in sorted(letters[ax]) if c != "o" and _eval_letter_test(p.test, f"self._periodic[{ax}]", c) is want_raw]
                    undec = [c for c in sorted(letters[ax]) if _eval_letter_test(p.test, f"self._periodic[{ax}]", c) is None]
                    if undec:
                        raise AnalysisError(f"{ci.name}.site2index: cannot evaluate `{A.text(p.test)}` for boundary letter(s) {undec}")
                    if wrong:
                        ok, why = False, (f"site[{ax}] is not reduced modulo the period when the boundary letter of axis {ax} is "
                                          f"{wrong} (periodic): `{A.text(p.test)}` sends it to the un-reduced branch")
                    else:
                        ok = True
                    break
                cur = p
            if ok is None:
                ok, why = False, f"site[{ax}] is used without reduction modulo the lattice period"
            chk.verdict("Q3", (f, u), f"{ci.name}.site2index: site[{ax}] in `{A.short(A.stmt_of(u, parent), 70)}`",
                        True if ok else False, f"{ci.name}.site2index: {why}: indexing is not invariant under the lattice periods")
        # a linear index u * K + v built from two reduced coordinates is injective only if the stride K is the period of v
        for add in [n for n in ast.walk(f.node) if isinstance(n, ast.BinOp) and isinstance(n.op, ast.Add)]:
            def reduced(n):
                if isinstance(n, ast.BinOp) and isinstance(n.op, ast.Mod) and isinstance(n.left, ast.Subscript) and A.text(n.left.value) == "site" \
                        and isinstance(n.left.slice, ast.Constant):
                    return n.left.slice.value, A.text(n.right)
                return None
            for big, small in ((add.left, add.right), (add.right, add.left)):
                rs = reduced(small)
                if rs is None or not (isinstance(big, ast.BinOp) and isinstance(big.op, ast.Mult)):
                    continue
                for u, K in ((big.left, big.right), (big.right, big.left)):
                    ru = reduced(u)
                    if ru is None:
                        continue
                    okk = A.text(K) in PERIOD[rs[0]] and rs[1] in PERIOD[rs[0]] and ru[0] != rs[0]
                    chk.verdict("Q3", (f, add), f"{ci.name}.site2index: stride `{A.text(K)}` of `{A.short(add, 60)}`", True if okk else False,
                                f"{ci.name}.site2index: the linear index `{A.short(add, 70)}` multiplies the reduced site[{ru[0]}] by `{A.text(K)}`, "
                                f"which is not the period of site[{rs[0]}] (`{rs[1]}`): two different sites of a non-square cell share one index")
    # ---------------------------------------------------------------- Q4
    chk.rule("Q4", "inconsistent patterns and non-unique / missing assignments are rejected", floor=4)
    ru = prog.cls(GEO, "RectangularUnitcell")
    ri = ru.methods.get("__init__")
    cfg = CFG(ri.node)
    def two_neighbourhoods(test):
        """does the test hold exactly when *some* label has more than one distinct neighbourhood?  -> (True/False, quantified over .values())"""
        neg = False
        t = test
        while isinstance(t, ast.UnaryOp) and isinstance(t.op, ast.Not):
            neg = not neg
            t = t.operand
        if not (isinstance(t, ast.Call) and A.call_name(t) in ("any", "all") and t.args and isinstance(t.args[0], (ast.GeneratorExp, ast.ListComp))):
            return None
        g = t.args[0]
        c = g.elt
        if not (isinstance(c, ast.Compare) and len(c.ops) == 1 and isinstance(c.left, ast.Call) and A.call_name(c.left) == "len"
                and isinstance(c.left.args[0], ast.Call) and A.call_name(c.left.args[0]) == "set"):
            return None
        k = A.neg_const(c.comparators[0])
        op = type(c.ops[0]).__name__
        more_than_one = (op, k) in (("Gt", 1), ("GtE", 2), ("NotEq", 1))
        at_most_one = (op, k) in (("LtE", 1), ("Lt", 2), ("Eq", 1))
        quant = A.call_name(t)
        holds = (quant == "any" and more_than_one and not neg) or (quant == "all" and at_most_one and neg)
        over_all = A.text(g.generators[0].iter).endswith(".values()") and A.text(c.left.args[0].args[0]) == A.text(g.generators[0].target)
        return holds, over_all
    guard = [n for n in A.walk_local(ri.node) if isinstance(n, ast.If) and two_neighbourhoods(n.test) is not None
             and any(isinstance(b, ast.Raise) for b in n.body)]
    stores = [n for n in A.walk_local(ri.node) if isinstance(n, ast.Assign) and A.text(n.targets[0]) in ("self._sites", "self._bonds_h", "self._bonds_v")]
    if not guard:
        # other spellings of the guard: a flag accumulated over the sites (`same = same and first.setdefault(label, env) == env`) tested after
        # the loops.  Decided: overwritten flag -> the last site decides (U11); accumulated flag over a per-label lookup -> holds; a raise that
        # depends on the collected neighbourhoods in a shape not known here -> undecided (exit 2); no such raise at all -> the guard is gone.
        from . import e10
        loops = [n for n in A.walk_local(ri.node) if isinstance(n, ast.For)
                 and any(isinstance(c, ast.Call) and A.call_name(c).endswith("site2index") for c in ast.walk(n))]
        collected = set()
        for lp in loops:
            for n in ast.walk(lp):
                if isinstance(n, ast.Name) and isinstance(n.ctx, ast.Store):
                    collected.add(n.id)
                elif isinstance(n, ast.Subscript) and isinstance(n.ctx, ast.Store) and isinstance(n.value, ast.Name):
                    collected.add(n.value.id)
                elif isinstance(n, ast.Call) and isinstance(n.func, ast.Attribute) and n.func.attr in ("setdefault", "append", "add", "update"):
                    b = n.func.value
                    while isinstance(b, (ast.Subscript, ast.Call, ast.Attribute)):
                        b = b.value if not isinstance(b, ast.Call) else b.func
                    if isinstance(b, ast.Name):
                        collected.add(b.id)
        # values derived from the collected neighbourhoods (a later loop over them, a flag computed from them)
        changed = True
        while changed:
            changed = False
            for n in A.walk_local(ri.node):
                src, tg = None, None
                if isinstance(n, ast.Assign):
                    src, tg = n.value, n.targets
                elif isinstance(n, ast.For):
                    src, tg = n.iter, [n.target]
                elif isinstance(n, ast.AugAssign):
                    src, tg = n.value, [n.target]
                if src is None or not any(isinstance(x, ast.Name) and x.id in collected for x in ast.walk(src)):
                    continue
                for t_ in tg:
                    for x in ast.walk(t_):
                        if isinstance(x, ast.Name) and x.id not in collected:
                            collected.add(x.id)
                            changed = True
        all_loops = [n for n in A.walk_local(ri.node) if isinstance(n, ast.For)]
        dep_guards = [n for n in A.walk_local(ri.node) if isinstance(n, ast.If) and any(isinstance(b, ast.Raise) for b in n.body)
                      and loops and n.lineno > loops[0].lineno
                      and any(isinstance(x, ast.Name) and x.id in collected for x in ast.walk(n.test))]
        over = e10._overwritten_flags(ri.node)
        if over:
            flag, lp, sto, g = over[0]
            chk.bad("Q4", (ri, sto), A.short(sto, 70), f"RectangularUnitcell.__init__: the neighbourhood test `{A.short(sto, 70)}` overwrites the flag `{flag}` at every "
                    f"site and the guard `if {A.short(g.test, 30)}: raise` looks at it after the loops: only the last site decides, a pattern in which "
                    f"an earlier label has two different neighbourhoods is accepted")
        elif not dep_guards:
            chk.bad("Q4", ri, "neighbourhood guard", "RectangularUnitcell.__init__ no longer rejects patterns in which one label has two "
                    "different neighbourhoods: no `raise` depends on the neighbourhoods collected per label")
        else:
            acc = None
            for g in dep_guards:
                names = {x.id for x in ast.walk(g.test) if isinstance(x, ast.Name)}
                for lp in all_loops:
                    for n in ast.walk(lp):
                        tgt = n.targets[0] if isinstance(n, ast.Assign) else n.target if isinstance(n, ast.AugAssign) else None
                        if isinstance(tgt, ast.Name) and tgt.id in names:
                            val = n.value
                            accumulates = isinstance(n, ast.AugAssign) and isinstance(n.op, (ast.BitAnd, ast.BitOr)) or \
                                any(isinstance(x, ast.Name) and x.id == tgt.id for x in ast.walk(val)) or isinstance(val, ast.Constant)
                            per_label = any(isinstance(x, ast.Compare) and any(isinstance(y, (ast.Subscript, ast.Call)) for z in [x.left] + x.comparators for y in ast.walk(z))
                                            for x in ast.walk(lp))
                            if accumulates and per_label:
                                acc = (g, n)
            if acc is None:
                raise AnalysisError("Q4: RectangularUnitcell.__init__ raises depending on the collected neighbourhoods, but the shape of the guard is "
                                    "not one this rule decides (any(len(set(envs)) > 1 ..) or a flag accumulated over the sites)")
            chk.verdict("Q4", (ri, acc[0]), acc[0].test, True, "")
            dom = stores and all(cfg.must_pass([s_], [acc[0].test]) for s_ in stores)
            chk.verdict("Q4", (ri, acc[0]), "guard dominates the unique sites/bonds", True if dom else False,
                        "unique sites/bonds are assigned on a path that skips the neighbourhood guard")
    else:
        g = guard[0]
        holds, over_all = two_neighbourhoods(g.test)
        chk.verdict("Q4", (ri, g), g.test, True if holds and over_all else False,
                    "the neighbourhood guard no longer raises exactly when some label (of all labels) has more than one distinct neighbourhood")
        dom = stores and all(cfg.must_pass([s], [g.test]) for s in stores)
        chk.verdict("Q4", (ri, g), "guard dominates the unique sites/bonds", True if dom else False,
                    "unique sites/bonds are assigned on a path that skips the neighbourhood guard")
        # the four neighbours compared
        envs = [n for n in ast.walk(ri.node) if isinstance(n, ast.Assign) and A.text(n.targets[0]) == "env"]
        if envs:
            tx = A.text(A.Inliner(ri.node).expand(envs[0].value))
            need = ["(nx - 1, ny)", "(nx, ny - 1)", "(nx + 1, ny)", "(nx, ny + 1)"]
            chk.verdict("Q4", (ri, envs[0]), envs[0], True if all(x in tx for x in need) else False,
                        "the neighbourhood compared does not consist of the four nearest neighbours")
    ltxt = A.text(ini.node)
    chk.verdict("Q4", ini, "non-unique assignment raises", True if "elif self[site] is not tensor: raise" in ltxt.replace("\n", " ") or
                "Non-unique assignment" in ltxt else False, "Lattice.__init__ lost the non-unique-assignment rejection")
    chk.verdict("Q4", ini, "unassigned sites raise", True if "any((tensor is None for tensor in self._site_data.values()))" in ltxt else False,
                "Lattice.__init__ lost the check that every unique site got an object")

    run_Q5(chk)
    run_Q6(chk)
    run_Q7(chk)
    from . import e10
    e10.run_U(chk, ("yastn.tn.fpeps._geometry",), floor1=5, floor2=1)


def run_Q7(chk):
    """Q7: the patch layer.  While a site is in `_patch` its object lives there; `__getitem__` is the one place that knows (patch first,
    stored data otherwise).  Every *site-addressed* read of the stored data -- `_site_data[site2index(site)]` in load context -- outside
    `__getitem__` bypasses an active patch and returns the stale object (whole-container operations address `_site_data` by index,
    not by site, and are not concerned)."""
    prog = chk.prog
    chk.rule("Q7", "site-addressed reads of the stored data go through __getitem__ (patch first)", floor=1)
    lat = prog.cls(GEO, "Lattice")
    gi = lat.methods.get("__getitem__")
    chk.require(gi is not None, "Lattice.__getitem__ not found")
    n = 0
    for mod in (GEO, "yastn.tn.fpeps._peps"):
        for f in prog.all_funcs({mod}):
            for x in ast.walk(f.node):
                if isinstance(x, ast.Subscript) and isinstance(x.ctx, ast.Load) and isinstance(x.value, ast.Attribute) and x.value.attr == "_site_data" \
                        and any(isinstance(c, ast.Call) and A.callee_attr(c) == "site2index" for c in ast.walk(x.slice)):
                    n += 1
                    if f is gi:
                        # the patch test comes first
                        cfg = CFG(f.node)
                        par = A.enclosing_map(f.node)
                        st = A.stmt_of(x, par)
                        tests = [t for t in ast.walk(f.node) if isinstance(t, ast.If) and "_patch" in A.text(t.test)]
                        ok = bool(tests) and cfg.must_pass([st], [cfg.node_of[tests[0]]]) and any(isinstance(b_, ast.Return) and "_patch" in A.text(b_) for b_ in tests[0].body)
                        if not ok:
                            # conditional-expression form: `self._patch[site] if site in self._patch else self._site_data[..]`
                            for ie in ast.walk(f.node):
                                if isinstance(ie, ast.IfExp) and "_patch" in A.text(ie.test) and any(x is y for y in ast.walk(ie.orelse)) and "_patch[" in A.text(ie.body) \
                                        and isinstance(ie.test, ast.Compare) and isinstance(ie.test.ops[0], ast.In):
                                    ok = True
                                if isinstance(ie, ast.IfExp) and "_patch" in A.text(ie.test) and any(x is y for y in ast.walk(ie.body)) and "_patch[" in A.text(ie.orelse) \
                                        and isinstance(ie.test, ast.Compare) and isinstance(ie.test.ops[0], ast.NotIn):
                                    ok = True
                        chk.verdict("Q7", (f, x), "Lattice.__getitem__: patch looked up before the stored data", True if ok else False,
                                    "Lattice.__getitem__: the stored data is read without consulting the patch first")
                    else:
                        chk.bad("Q7", (f, x), x, f"{f.short}(): `{A.short(x, 50)}` reads the stored object of a site directly; if the site is in an active patch "
                                f"the object set there (psi[site] = X after move_to_patch) is ignored and the stale one is used -- only __getitem__ "
                                f"(`self[site]`) resolves patch before stored data")
    chk.require(n >= 1, "no site-addressed read of _site_data found (Lattice.__getitem__ confirmed by hand)")


def run_Q6(chk):
    """Q6: f_ordered is the column-major order of *all* integer sites (infinite lattices use coordinates outside the unit cell): decided
    by interpreting the function on a grid of witness site pairs (coordinates -3..4, unit cells 2x2 and 3x2) and comparing with
    (col, row) <= (col', row').  An order computed from a linear index `col * Nx + row` is injective only inside one unit cell."""
    from ..core.minieval import run_function, CannotEvaluate
    prog = chk.prog
    chk.rule("Q6", "f_ordered is the column-major total order on all integer sites (witness evaluation)", floor=1)
    m = prog.module(GEO)
    for ci in m.classes.values():
        f = ci.methods.get("f_ordered")
        if f is None or f.cls is not ci:
            continue
        p_self, p0, p1 = f.params[0], f.params[1], f.params[2]
        bad = None
        n = 0
        try:
            for (Nx, Ny) in ((2, 2), (3, 2)):
                for a0 in range(-3, 5):
                    for a1 in range(-2, 3):
                        for b0 in range(-3, 5):
                            for b1 in range(-2, 3):
                                env = {p0: (a0, a1), p1: (b0, b1), f"{p_self}.Nx": Nx, f"{p_self}.Ny": Ny, f"{p_self}._dims": (Nx, Ny), f"{p_self}.dims": (Nx, Ny)}
                                got = bool(run_function(f.node, env))
                                want = (a1, a0) <= (b1, b0)
                                n += 1
                                if got != want and bad is None:
                                    bad = ((a0, a1), (b0, b1), (Nx, Ny), got)
        except CannotEvaluate as e:
            raise AnalysisError(f"{ci.name}.f_ordered cannot be interpreted on witness sites ({e})")
        chk.verdict("Q6", f, f"{ci.name}.f_ordered on {n} witness pairs", True if bad is None else False,
                    f"{ci.name}.f_ordered({bad[0]}, {bad[1]}) returns {bad[3]} on a {bad[2][0]}x{bad[2][1]} unit cell, the column-major order of sites says "
                    f"{not bad[3]}: the fermionic order is no longer a total order of all lattice sites compatible with the enumeration of the unit cell "
                    f"(infinite lattices address sites outside the cell)" if bad else "")


def run_Q5(chk):
    """Q5: the tables of unique bonds.  (i) `bonds()` concatenates the tables `self._bonds_*` with `+`: every value ever stored in one of
    them has to be of one sequence type (tuple) -- a list next to tuples makes `bonds()` raise for exactly the lattices that take
    that path.  (ii) a bond is built from the result of nn_site(), which is None outside an open boundary: every `Bond(..)` whose end
    comes from nn_site() is constructed only under a test that this end is not None."""
    prog = chk.prog
    chk.rule("Q5", "bond tables concatenated by bonds() hold tuples on every path; bonds are built from nn_site() results only when these are not None", floor=6)
    m = prog.module(GEO)
    for ci in m.classes.values():
        bm = ci.methods.get("bonds")
        if bm is None or bm.cls is not ci:
            continue
        tables = sorted({n.attr for n in ast.walk(bm.node) if isinstance(n, ast.Attribute) and n.attr.startswith("_bonds") and isinstance(n.value, ast.Name)
                         and n.value.id == bm.params[0]})
        concat = any(isinstance(n, ast.BinOp) and isinstance(n.op, ast.Add) and "_bonds" in A.text(n) for n in ast.walk(bm.node))
        if not concat:
            continue
        # every store into these tables, in this class and its bases / subclasses defined in the module
        family = [c for c in m.classes.values() if c is ci or ci in prog.subclasses(c) or c in prog.subclasses(ci)]
        for c2 in family:
            for meth in c2.methods.values():
                if meth.cls is not c2:
                    continue
                b = A.local_bindings(meth.node)
                for st in ast.walk(meth.node):
                    if not (isinstance(st, ast.Assign) and len(st.targets) == 1 and isinstance(st.targets[0], ast.Attribute) and st.targets[0].attr in tables):
                        continue
                    v = st.value

                    def kind(e, depth=0):
                        if isinstance(e, ast.Tuple) or (isinstance(e, ast.Call) and A.call_name(e) == "tuple"):
                            return "tuple"
                        if isinstance(e, (ast.List, ast.ListComp)) or (isinstance(e, ast.Call) and A.call_name(e) in ("list", "sorted")):
                            return "list"
                        if isinstance(e, ast.Name) and depth < 3:
                            ks = {kind(v_, depth + 1) for st_, v_, k_ in b.get(e.id, []) if v_ is not None and k_ == "assign"}
                            return ks.pop() if len(ks) == 1 else None
                        if isinstance(e, ast.IfExp):
                            ks = {kind(e.body, depth + 1), kind(e.orelse, depth + 1)}
                            return ks.pop() if len(ks) == 1 else None
                        return None
                    k = kind(v)
                    chk.verdict("Q5", (meth, st), f"{c2.name}.{meth.name}: {st.targets[0].attr} <- {k or 'unclassified'}", True if k == "tuple" else False if k == "list" else None,
                                f"{c2.name}.{meth.name}(): `{A.short(st, 50)}` stores a list in a table that {ci.name}.bonds() concatenates with tuples "
                                f"(`self._bonds_h + self._bonds_v + ...`): bonds() raises TypeError for every lattice built on this path")
    # (ii) None guards
    for ci in m.classes.values():
        for meth in ci.methods.values():
            if meth.cls is not ci or "nn_site" not in A.text(meth.node) or "Bond(" not in A.text(meth.node):
                continue
            b = A.local_bindings(meth.node)
            par = A.enclosing_map(meth.node)
            from_nn = {nm for nm, ds in b.items() if any(v_ is not None and isinstance(v_, ast.Call) and A.callee_attr(v_) == "nn_site" for st_, v_, k_ in ds)}
            for c in ast.walk(meth.node):
                if not (isinstance(c, ast.Call) and A.call_name(c) == "Bond"):
                    continue
                ends = [a_.id for a_ in c.args if isinstance(a_, ast.Name) and a_.id in from_nn]
                if not ends:
                    continue
                tested = set()
                cur = c
                while cur in par:
                    prev, cur = cur, par[cur]
                    if isinstance(cur, ast.If) and prev in cur.body:
                        for t_ in ast.walk(cur.test):
                            if isinstance(t_, ast.Compare) and len(t_.ops) == 1 and isinstance(t_.ops[0], ast.IsNot) and isinstance(t_.left, ast.Name) \
                                    and isinstance(t_.comparators[0], ast.Constant) and t_.comparators[0].value is None:
                                tested.add(t_.left.id)
                            if isinstance(t_, ast.Name) and isinstance(cur.test, (ast.Name, ast.BoolOp)) and isinstance(t_.ctx, ast.Load):
                                tested.add(t_.id) if isinstance(cur.test, ast.Name) or (isinstance(cur.test, ast.BoolOp) and isinstance(cur.test.op, ast.And) and t_ in cur.test.values) else None
                # ... or an earlier statement of an enclosing block leaves (continue / return / raise) when the end is None
                cur = c
                while cur in par:
                    prev, cur = cur, par[cur]
                    for fld in ("body", "orelse"):
                        blk = getattr(cur, fld, None)
                        if isinstance(blk, list) and prev in blk:
                            for st_ in blk[:blk.index(prev)]:
                                if isinstance(st_, ast.If) and st_.body and isinstance(st_.body[-1], (ast.Continue, ast.Return, ast.Raise)) and not st_.orelse:
                                    disj = st_.test.values if isinstance(st_.test, ast.BoolOp) and isinstance(st_.test.op, ast.Or) else [st_.test]
                                    for t_ in disj:
                                        if isinstance(t_, ast.Compare) and len(t_.ops) == 1 and isinstance(t_.ops[0], ast.Is) and isinstance(t_.left, ast.Name) \
                                                and isinstance(t_.comparators[0], ast.Constant) and t_.comparators[0].value is None:
                                            tested.add(t_.left.id)
                                        if isinstance(t_, ast.UnaryOp) and isinstance(t_.op, ast.Not) and isinstance(t_.operand, ast.Name):
                                            tested.add(t_.operand.id)
                missing = [e for e in ends if e not in tested]
                chk.verdict("Q5", (meth, c), f"{ci.name}.{meth.name}: `{A.short(c, 30)}` under `is not None` of {ends}", False if missing else True,
                            f"{ci.name}.{meth.name}(): `{A.short(c, 40)}` is built from `{', '.join(missing)}` = nn_site(..), which is None beyond an open "
                            f"boundary, without testing it: the lattice lists a bond with a missing end (not a pair of nearest neighbours)")

MUTANTS = [
    ('neighbourhood flag overwritten at every site', [('yastn/tn/fpeps/_geometry.py', '            label_sites, label_envs = {}, {}\n', '            label_sites, label_envs, same_envs = {}, {}, True\n'), ('yastn/tn/fpeps/_geometry.py', '                    if label in label_sites:\n                        label_sites[label].append(Site(nx, ny))\n                        label_envs[label].append(env)\n                    else:\n                        label_sites[label] = [Site(nx, ny)]\n                        label_envs[label] = [env]\n        except TypeError:\n            raise YastnError("RectangularUnitcell: pattern labels should be hashable.")\n        if any(len(set(envs)) > 1 for envs in label_envs.values()):', '                    label_sites.setdefault(label, []).append(Site(nx, ny))\n                    same_envs = label_envs.setdefault(label, env) == env\n        except TypeError:\n            raise YastnError("RectangularUnitcell: pattern labels should be hashable.")\n        if not same_envs:')], 'Q4'),
    ('diagonal bonds kept as a list', 'yastn/tn/fpeps/_geometry.py', '            self._bonds_d = tuple(bonds_d)', '            self._bonds_d = bonds_d', 'Q5'),
    ('f_ordered by linear index', 'yastn/tn/fpeps/_geometry.py', '        return s0[1] < s1[1] or (s0[1] == s1[1] and s0[0] <= s1[0])', '        return s0[1] * self.Nx + s0[0] <= s1[1] * self.Nx + s1[0]', 'Q6'),
    ('move_to_patch bypasses the patch', 'yastn/tn/fpeps/_geometry.py', '            self._patch[site] = self[site].shallow_copy()', '            self._patch[site] = self._site_data[self.site2index(site)].shallow_copy()', 'Q7'),
    ("direction tests folded into a loop in another order", "yastn/tn/fpeps/_geometry.py", "        if self.nn_site(s0, 'r') == s1 and self.nn_site(s1, 'l') == s0:\n            return 'lr'  # dirn\n        if self.nn_site(s0, 'b') == s1 and self.nn_site(s1, 't') == s0:\n            return 'tb'\n        if self.nn_site(s0, 'l') == s1 and self.nn_site(s1, 'r') == s0:\n            return 'rl'\n        if self.nn_site(s0, 't') == s1 and self.nn_site(s1, 'b') == s0:\n            return 'bt'\n", "        for d0, d1 in ('tb', 'lr', 'bt', 'rl'):\n            if self.nn_site(s0, d0) == s1 and self.nn_site(s1, d1) == s0:\n                return d1 + d0\n", "Q2"),
    ("dir table entry", "yastn/tn/fpeps/_geometry.py", "'tl': (-1, -1), 't': (-1, 0), 'tr': (-1,  1),", "'tl': (-1, -1), 't': (-1, 0), 'tr': (-1,  -1),", "Q1"),
    ("label rl for r", "yastn/tn/fpeps/_geometry.py", "            return 'lr'  # dirn", "            return 'rl'  # dirn", "Q2"),
    ("cylinder row not reduced", "yastn/tn/fpeps/_geometry.py", "        x = site[0] % self._dims[0] if self._periodic[0] in 'ip' else site[0]", "        x = site[0] % self._dims[0] if self._periodic[0] == 'i' else site[0]", "Q3"),
    ("wrong stride", "yastn/tn/fpeps/_geometry.py", "            return (site[0] % self.Nx) * self.Ny + site[1] % self.Ny", "            return (site[0] % self.Nx) * self.Nx + site[1] % self.Ny", "Q3"),
    ("setitem keyed by site", "yastn/tn/fpeps/_geometry.py", "            self._site_data[self.site2index(site)] = obj", "            self._site_data[site] = obj", "Q3"),
    ("pattern guard deleted", "yastn/tn/fpeps/_geometry.py",
     "        if any(len(set(envs)) > 1 for envs in label_envs.values()):\n            raise YastnError(\"RectangularUnitcell: each unique label should have the same neighbors.\")\n", "", "Q4"),
    ("wrong reverse direction", "yastn/tn/fpeps/_geometry.py", "self.nn_site(s0, 'b') == s1 and self.nn_site(s1, 't') == s0", "self.nn_site(s0, 'b') == s1 and self.nn_site(s1, 'b') == s0", "Q2"),
    ("upper bound off by one", "yastn/tn/fpeps/_geometry.py", "if self._periodic[1] == 'o' and (y < 0 or y >= self._dims[1]):", "if self._periodic[1] == 'o' and (y < 0 or y > self._dims[1]):", "Q2"),
]
BENIGN = [
    ("direction tests folded into a loop, same order", "yastn/tn/fpeps/_geometry.py", "        if self.nn_site(s0, 'r') == s1 and self.nn_site(s1, 'l') == s0:\n            return 'lr'  # dirn\n        if self.nn_site(s0, 'b') == s1 and self.nn_site(s1, 't') == s0:\n            return 'tb'\n        if self.nn_site(s0, 'l') == s1 and self.nn_site(s1, 'r') == s0:\n            return 'rl'\n        if self.nn_site(s0, 't') == s1 and self.nn_site(s1, 'b') == s0:\n            return 'bt'\n", "        for d0, d1 in ('rl', 'bt', 'lr', 'tb'):\n            if self.nn_site(s0, d0) == s1 and self.nn_site(s1, d1) == s0:\n                return d1 + d0\n"),
    ("boundary test as != 'o'", "yastn/tn/fpeps/_geometry.py", "        x = site[0] % self._dims[0] if self._periodic[0] in 'ip' else site[0]", "        x = site[0] % self._dims[0] if self._periodic[0] != 'o' else site[0]"),
    ("column-major stride", "yastn/tn/fpeps/_geometry.py", "            return (site[0] % self.Nx) * self.Ny + site[1] % self.Ny", "            return site[0] % self.Nx + self.Nx * (site[1] % self.Ny)"),
    ("reorder dir literal", "yastn/tn/fpeps/_geometry.py", "        self._dir = {'tl': (-1, -1), 't': (-1, 0), 'tr': (-1,  1),\n                      'l': ( 0, -1),                'r': ( 0,  1),",
     "        self._dir = {'t': (-1, 0), 'tl': (-1, -1), 'tr': (-1,  1),\n                      'r': ( 0,  1),                'l': ( 0, -1),"),
]
