"""C10 — TDVP conserves what it must and advances time exactly (partial; engine E7).

Decided: forward/backward evolution coefficients are -/+ u*dt/2 (T1), 2nd/4th-order sub-step durations and mid-points
are exact polynomial identities and the composition constant is 1/(4-4^(1/3)) (T2), snapshot bookkeeping (T3), the
Krylov-dimension memo is per site (T4), expmv combines the orthonormal basis and Heff is linear in its input (T5),
sweep ordering as for DMRG (O1, O2).
Not decided: conservation to solver tolerance, agreement with expm (numerical).
"""
from __future__ import annotations

from ..core import astutil as A
from . import e7

TDVP = "yastn.tn.mps._tdvp"


def run(chk):
    prog = chk.prog
    chk.explanation = (
        "Exact polynomial identities over the source of tdvp_ and its three sweep functions: each `du` handed to the local "
        "solvers is normalised to a polynomial in u, dt and must equal -u*dt/2 for forward steps (2-site updates; 1-site updates "
        "followed on every path by the split) and +u*dt/2 for backward steps; per `order` branch the sub-step lengths sum to ds "
        "and every sampling time equals start + elapsed + length/2 as rational functions of ds and the composition constant; "
        "ds=(t1-t0)/steps with exactly `steps` iterations and one t+=ds each; the reported time is the loop-carried one. Sweep "
        "bodies are checked on a CFG as for DMRG (refresh after/at the new isometry, invalidation covering written sites)."
        " expmv combines its orthonormal Krylov basis started from v/|v|, every Heff is linear in its input, and all Heff0/1/2 siblings carry the operator's norm factor (forward and backward steps use one generator).")
    chk.trusted_base = ["python ast parser", "exact rational arithmetic sa/core/poly.py (float literals taken exactly)"]
    chk.rule("T1", "forward steps evolve by -u*dt/2, backward steps by +u*dt/2", floor=9)
    chk.rule("T2", "sub-steps of each order sum to ds and sample H at their mid-points; 4th-order constant exact", floor=9)
    chk.rule("T3", "ds=(t1-t0)/steps, `steps` iterations, one t+=ds per step, reported time is loop-carried; bad inputs raise", floor=7)
    chk.rule("T4", "Krylov-dimension memo is tested, read and written under one key per update function", floor=3)
    chk.rule("O1", "every sweep-step path refreshes the environment after, and at the site of, the new isometry", floor=12)
    chk.rule("O2", "every such path invalidates the environments of the written sites first", floor=5)
    paths = 0
    for name in ("_tdvp_sweep_1site_", "_tdvp_sweep_2site_", "_tdvp_sweep_12site_"):
        f = prog.func(TDVP, name)
        paths += e7.check_sweep(chk, f)
        e7.final_refresh(chk, f)
        e7.tdvp_coefficients(chk, f)
    chk.extra["sweep_body_paths"] = paths
    e7.tdvp_composition(chk, prog.func(TDVP, "tdvp_"))
    e7.krylov_memo_keys(chk, prog)
    from . import e10
    e10.run_U(chk, ("yastn.tn.mps._tdvp", "yastn.tn.mps._env", "yastn.krylov", "yastn.tensor._krylov"), rule1="U1", rule2="U2", floor1=40, floor2=10)
    chk.rule("T6", "all effective Hamiltonians Heff0/Heff1/Heff2 carry the operator's norm factor (forward and backward steps use one generator)", floor=12)
    from . import e8
    e8.check_heff_factor(chk, "T6")
    chk.rule("T5", "expmv returns a combination of the orthonormal Krylov basis started from v/|v|; effective operators are linear", floor=20)
    e7.check_krylov_combination(chk, "T5", prog.func("yastn.krylov._krylov", "expmv"))
    nr = e7.check_env_reset_per_substep(chk, "T3", prog, prog.func(TDVP, "tdvp_"))
    chk.require(nr >= 2, f"tdvp_: routine lambdas calling the sweep functions not found ({nr}, 3 confirmed by hand)")
    ng = e7.check_local_generators(chk, "T5", prog, TDVP)
    chk.require(ng >= 4, f"local generators handed to expmv in _tdvp not found ({ng}, 6 confirmed by hand)")
    ENVM = "yastn.tn.mps._env"
    for ci in prog.module(ENVM).classes.values():
        for name, f in ci.methods.items():
            if f.cls is ci and name in ("Heff0", "Heff1", "Heff2"):
                e7.check_conj_typing(chk, "T5", f, f.params[1:2])

    run_T7(chk)


def run_T7(chk):
    """T7: the 12-site scheme enlarges a bond unless it already has the dimension `D_total`.  `enlarge_bond` reshapes the two site tensors into
    matrices by `fuse_legs(axes=(<group>, <leg>))`; in the shape of such a matrix the bond is the position of the *single* leg of `axes`, the
    other position is the product of the grouped legs.  The comparison with opts_svd['D_total'] reads the bond's position."""
    import ast
    from ..core import astutil as A
    prog = chk.prog
    chk.rule("T7", "enlarge_bond compares the dimension of the bond (the un-grouped leg of the reshaped site tensor) with D_total", floor=0)
    ci = prog.cls("yastn.tn.mps._env", "EnvParent")
    f = ci.methods["enlarge_bond"]
    b = A.local_bindings(f.node)

    def single_def(nm):
        ds = [v for st, v, k in b.get(nm, []) if v is not None]
        return ds[0] if len(ds) == 1 else None
    n = 0
    for c in ast.walk(f.node):
        if not (isinstance(c, ast.Compare) and len(c.ops) == 1 and "D_total" in A.text(c)):
            continue
        for side in [c.left] + c.comparators:
            if isinstance(side, ast.Subscript) and isinstance(side.value, ast.Name) and isinstance(side.slice, ast.Constant):
                shp = single_def(side.value.id)
                if not (isinstance(shp, ast.Call) and A.callee_attr(shp) == "get_shape" and isinstance(shp.func.value, ast.Name)):
                    continue
                mat = single_def(shp.func.value.id)
                if not (isinstance(mat, ast.Call) and A.callee_attr(mat) == "fuse_legs"):
                    continue
                axes = A.kwarg(mat, "axes") or (mat.args[0] if mat.args else None)
                if not isinstance(axes, ast.Tuple):
                    continue
                k = side.slice.value

                def is_group(e):
                    if isinstance(e, ast.Tuple):
                        return True
                    if isinstance(e, ast.Name):
                        ds = [v for st, v, kk in b.get(e.id, []) if v is not None]
                        return bool(ds) and all(isinstance(v, (ast.Tuple, ast.IfExp)) for v in ds)
                    return False
                n += 1
                ok = 0 <= k < len(axes.elts) and not is_group(axes.elts[k])
                chk.verdict("T7", (f, c), f"enlarge_bond: `{A.text(side)}` is the un-grouped leg of `{A.short(mat, 50)}`", True if ok else False,
                            f"EnvParent.enlarge_bond(): `{A.text(c)}` compares position {k} of the shape of `{A.short(mat, 60)}` with D_total, but that position "
                            f"is the group `{A.text(axes.elts[k]) if 0 <= k < len(axes.elts) else '?'}` (virtual x physical), not the bond: enlargement stops while the "
                            f"bond is still below D_total (12-site TDVP stays in a too small manifold)")
    if not n:
        chk.note("T7: enlarge_bond does not compare an entry of get_shape() of a fuse_legs(axes=(..)) matrix with D_total (other spelling): not decided")


MUTANTS = [
    ('enlarge_bond compares the grouped dimension with D_total', 'yastn/tn/mps/_env.py', "shapeL[1] >= opts_svd['D_total']", "shapeL[0] >= opts_svd['D_total']", 'T7'),
    ('environment reset once per step', 'yastn/tn/mps/_tdvp.py', '        routine = lambda t, dt0, env: _tdvp_sweep_2site_(psi, Ht(t), dt0, u, et(env), opts_expmv, opts_svd, normalize, subtract_E, precompute)', '        routine = lambda t, dt0, env: _tdvp_sweep_2site_(psi, Ht(t), dt0, u, env, opts_expmv, opts_svd, normalize, subtract_E, precompute)', 'T3'),
    ('energy shift on the fixed start tensor', 'yastn/tn/mps/_tdvp.py', '        f = lambda x: env.Heff2(x, bd) - E0 * x', '        f = lambda x: env.Heff2(x, bd) - E0 * AA', 'T5'),
    ('composition constant as a wrong expression', 'yastn/tn/mps/_tdvp.py', '                s2 = 0.41449077179437573714', '                s2 = 1 / (4 - 4 ** 1 / 3)', 'T2'),
    ("flip sign of backward step", "yastn/tn/mps/_tdvp.py",
     "            env.update_env_(n, to=to)\n            _update_C(env, u * 0.5 * dt, opts, normalize=normalize, subtract_E=subtract_E)\n            psi.absorb_central_(to=to)\n\n    env.update_env_(psi.first, to='first')",
     "            env.update_env_(n, to=to)\n            _update_C(env, -u * 0.5 * dt, opts, normalize=normalize, subtract_E=subtract_E)\n            psi.absorb_central_(to=to)\n\n    env.update_env_(psi.first, to='first')", "T1"),
    ("full step instead of half", "yastn/tn/mps/_tdvp.py", "            _update_AA(env, (n, n + 1), -u * 0.5 * dt, opts, opts_svd,", "            _update_AA(env, (n, n + 1), -u * 1.0 * dt, opts, opts_svd,", "T1"),
    ("middle substep 1-3*s2", "yastn/tn/mps/_tdvp.py", "ds * (1 - 4 * s2), env)", "ds * (1 - 3 * s2), env)", "T2"),
    ("midpoint of 2nd substep", "yastn/tn/mps/_tdvp.py", "routine(t + 1.5 * s2 * ds, ds * s2, env)", "routine(t + 1.0 * s2 * ds, ds * s2, env)", "T2"),
    ("t advanced by dt", "yastn/tn/mps/_tdvp.py", "            t = t + ds\n", "            t = t + dt\n", "T3"),
    ("constant truncated", "yastn/tn/mps/_tdvp.py", "s2 = 0.41449077179437573714", "s2 = 0.4144907717", "T2"),
    ("memo key mismatch", "yastn/tn/mps/_tdvp.py", "    env._temp['expmv_ncv'][ibd] = info['ncv']", "    env._temp['expmv_ncv'][bd] = info['ncv']", "T4"),
    ("expmv combines unnormalised start", "yastn/krylov/_krylov.py", "            v = V[0].add(*V[1:], amplitudes=F, **kwargs)", "            v = v.add(*V[1:], amplitudes=F, **kwargs)", "T5"),
    ("Heff0 without factor", "yastn/tn/mps/_env.py", "        tmp = tensordot(self.F[bd], C @ self.F[ibd], axes=((0, 1), (0, 1)))\n        return tmp * self.op.factor", "        return tensordot(self.F[bd], C @ self.F[ibd], axes=((0, 1), (0, 1)))", "T6"),
    ("delete clear_site_ 2site", "yastn/tn/mps/_tdvp.py", "            env.clear_site_(n, n + 1)\n            env.update_env_(n + 1 - dn, to=to)", "            env.update_env_(n + 1 - dn, to=to)", "O2"),
    ("12site refresh wrong site", "yastn/tn/mps/_tdvp.py", "                env.update_env_(n + 1 - 2 * dn, to=to)", "                env.update_env_(n + 1 - dn, to=to)", "O1"),
]
BENIGN = [
    ("-0.5*u*dt form", "yastn/tn/mps/_tdvp.py", "            _update_AA(env, (n, n + 1), -u * 0.5 * dt, opts, opts_svd,", "            _update_AA(env, (n, n + 1), -0.5 * u * dt, opts, opts_svd,"),
    ("bind half step", "yastn/tn/mps/_tdvp.py",
     "    for to in ('last', 'first'):\n        for n in psi.sweep(to=to):\n            _update_A(env, n, -u * 0.5 * dt, opts, normalize=normalize, subtract_E=subtract_E, precompute=precompute)\n            psi.orthogonalize_site_(n, to=to, normalize=normalize)\n            env.clear_site_(n)\n            env.update_env_(n, to=to)\n            _update_C(env, u * 0.5 * dt,",
     "    h = 0.5 * u * dt\n    for to in ('last', 'first'):\n        for n in psi.sweep(to=to):\n            _update_A(env, n, -h, opts, normalize=normalize, subtract_E=subtract_E, precompute=precompute)\n            psi.orthogonalize_site_(n, to=to, normalize=normalize)\n            env.clear_site_(n)\n            env.update_env_(n, to=to)\n            _update_C(env, h,"),
]
