"""C04 — factorisations have the promised structure (partial; engine E6 rows + S4/S5 + E3-L3).

Decided: the tensor's charge is carried by the factor the caller selected (S2 rows of svd/qr/eigh); the new connecting
leg has signature E in one factor and -E in the other, in struct *and* in the fusion record, with charges from one
variable (S4); Uaxis/Vaxis/Qaxis/Raxis move the connecting leg of the factor of the same letter from where it was
created, masks act on the connecting leg where it is at that moment, sU/nU reach the meta function (S5); s/hfs/mfs of the
factors are built from the same leg sequences (L3).
Not decided: reconstruction, isometry, ordering of singular values, triangularity (LAPACK-level, value-level).
"""
from __future__ import annotations

import ast

from . import e3, e6
from ..core import astutil as A


def run(chk):
    chk.explanation = (
        "Structural analysis of svd/qr/eigh/eig and their meta functions: charge rows of the charge-flow table restricted to "
        "decompositions; syntactic pairing E / -E of the connecting leg's signature in struct and in the _Fusion record of both "
        "factors (and of S); single-variable origin of the connecting charges; def-use flow of the position/selector parameters "
        "into exactly one moveaxis of the factor of the same letter, of the mask axes in the *_with_truncation wrappers and of "
        "sU/nU into _meta_svd; segment-wise comparison of the s/hfs/mfs constructions of each factor. Numerical properties of the "
        "LAPACK results are not decided.")
    chk.trusted_base = ["python ast parser"]
    e6.run_S45(chk)
    e3.run_L3(chk)
    # leg groups of the factorisations are mapped meta -> logical-native -> native (through the pending permutation, in that direction)
    e3.run_L1(chk, rule="L1", floor=30, only={"svd", "qr", "eigh", "eig", "svd_with_truncation", "eigh_with_truncation", "moveaxis", "_merge_to_matrix"})
    # charge rows of the decompositions only
    from ..core.report import Check
    e6.run_S2(chk)

    from . import e6 as _e6
    chk.rule("WH", "ordering key per `which` (LM/SM/LR/SR): truncation keeps, and the backend lists first, the values the option names", floor=8)
    _e6.run_WH(chk, "WH")
    from . import e10
    e10.run_U(chk, ("yastn.tensor.linalg", "yastn.tensor._merging"), floor1=5, floor2=1)
    e10.run_U10(chk, ("yastn.backend.backend_np",))
    run_S8(chk)


def run_S8(chk):
    """S8: scipy.sparse.linalg.svds returns the singular values of a block in *ascending* order; the block kernel promises them in
    descending order within each sector (the truncation takes `[:k]`).  Every call of svds is followed, on every path to the statements
    that store U/S/V, by the re-ordering (argsort of -S, or a [::-1] reversal) -- for every solver."""
    from ..core.cfg import CFG
    prog = chk.prog
    chk.rule("S8", "every partial block SVD (scipy svds, ascending) is re-ordered to descending before it is stored, for every solver", floor=2)
    f = prog.func("yastn.backend.backend_np", "svds_scipy")
    cfg = CFG(f.node)
    stmts = [n.ast for n in cfg.nodes if isinstance(n.ast, ast.stmt)]
    calls = [st for st in stmts if isinstance(st, ast.Assign) and any(isinstance(c, ast.Call) and (A.call_name(c) or "").endswith("linalg.svds") for c in ast.walk(st.value))]
    reorder = [st for st in stmts if isinstance(st, ast.Assign) and (("argsort(-" in A.text(st.value).replace(" ", "")) or "[::-1]" in A.text(st.value).replace(" ", ""))]
    chk.require(calls, "svds_scipy: calls of scipy.sparse.linalg.svds not found")
    for c in calls:
        ok = bool(reorder) and cfg.always_followed(c, reorder)
        chk.verdict("S8", (f, c), f"svds_scipy: `{A.short(c, 60)}` is followed by the descending re-order on every path", True if ok else False,
                    f"svds_scipy(): after `{A.short(c, 60)}` some path reaches the stores of U/S/V without the re-ordering: scipy's svds returns ascending "
                    f"singular values, so for that solver the sector comes out in ascending order and the truncation `[:k]` keeps the smallest")

MUTANTS = [
    ('which swallowed by a named parameter', 'yastn/backend/backend_np.py', 'def eig(data, meta=None, sizes=(1, 1), **kwargs):', "def eig(data, meta=None, sizes=(1, 1), which='LM', **kwargs):", 'U10'),
    ('eigh maps legs with the inverse permutation', 'yastn/tensor/linalg.py', "    out_hl = tuple(a.trans[ax] for ax in out_hl)\n    out_hr = tuple(a.trans[ax] for ax in out_hr)\n    #\n    if not all(x == 0 for x in a.struct.n):\n        raise YastnError('eigh requires tensor charge to be zero.')", "    out_hl = tuple(a.trans.index(ax) for ax in out_hl)\n    out_hr = tuple(a.trans.index(ax) for ax in out_hr)\n    #\n    if not all(x == 0 for x in a.struct.n):\n        raise YastnError('eigh requires tensor charge to be zero.')", 'L1'),
    ('moveaxis normalises with the native leg count', 'yastn/tensor/_single.py', '    ldst = tuple(xx + a.ndim if xx < 0 else xx for xx in ldst)', '    ldst = tuple(xx + a.ndim_n if xx < 0 else xx for xx in ldst)', 'L1'),
    ("qr: R gets meta-fusion of the left group", "yastn/tensor/linalg.py", "    Rmfs = ((1,),) + tuple(a.mfs[ii] for ii in out_mr)", "    Rmfs = ((1,),) + tuple(a.mfs[ii] for ii in out_ml)", "L3"),
    ("Vs with +sU", "yastn/tensor/linalg.py", "    Vstruct = _struct(s=(-sU, struct.s[1]), n=Vn, diag=False, t=Vt, D=VD, size=sum(VDp))", "    Vstruct = _struct(s=(sU, struct.s[1]), n=Vn, diag=False, t=Vt, D=VD, size=sum(VDp))", "S4"),
    ("swap Uaxis/Vaxis", "yastn/tensor/linalg.py", "    U = U.moveaxis(source=-1, destination=Uaxis)\n    V = V.moveaxis(source=0, destination=Vaxis)\n    return U, S, V\n\n\ndef _find_gaps",
     "    U = U.moveaxis(source=-1, destination=Vaxis)\n    V = V.moveaxis(source=0, destination=Uaxis)\n    return U, S, V\n\n\ndef _find_gaps", "S5"),
    ("qr forgets Raxis", "yastn/tensor/linalg.py", "    Q = Q.moveaxis(source=-1, destination=Qaxis)\n    R = R.moveaxis(source=0, destination=Raxis)\n", "    Q = Q.moveaxis(source=-1, destination=Qaxis)\n", "S5"),
    ("Q fusion record wrong sign", "yastn/tensor/linalg.py", "    Qhfs = tuple(a.hfs[ii] for ii in out_hl) + (_Fusion(s=(sQ,)),)", "    Qhfs = tuple(a.hfs[ii] for ii in out_hl) + (_Fusion(s=(-sQ,)),)", "S4"),
    ("mask after move", "yastn/tensor/linalg.py", "    U, S, V = Smask.apply_mask(U, S, V, axes=(-1, 0, 0))", "    U, S, V = Smask.apply_mask(U, S, V, axes=(0, 0, 0))", "S5"),
    ("R carries the charge", "yastn/tensor/linalg.py", "    Rstruct = struct._replace(t=Rt, D=RD, size=sum(RDp), s=(-sQ, struct.s[1]), n=n0)", "    Rstruct = struct._replace(t=Rt, D=RD, size=sum(RDp), s=(-sQ, struct.s[1]))", "S2"),
]
BENIGN = []
