"""C04 — factorisations have the promised structure (partial; engine E6 rows + S4/S5 + E3-L3).

Decided: the tensor's charge is carried by the factor the caller selected (S2 rows of svd/qr/eigh); the new connecting
leg has signature E in one factor and -E in the other, in struct *and* in the fusion record, with charges from one
variable (S4); Uaxis/Vaxis/Qaxis/Raxis move the connecting leg of the factor of the same letter from where it was
created, masks act on the connecting leg where it is at that moment, sU/nU reach the meta function (S5); s/hfs/mfs of the
factors are built from the same leg sequences (L3).
Not decided: reconstruction, isometry, ordering of singular values, triangularity (LAPACK-level, value-level).
"""
from __future__ import annotations

import ast

from . import e3, e6
from ..core import astutil as A


def run(chk):
    chk.explanation = (
        "Structural analysis of svd/qr/eigh/eig and their meta functions: charge rows of the charge-flow table restricted to "
        "decompositions; syntactic pairing E / -E of the connecting leg's signature in struct and in the _Fusion record of both "
        "factors (and of S); single-variable origin of the connecting charges; def-use flow of the position/selector parameters "
        "into exactly one moveaxis of the factor of the same letter, of the mask axes in the *_with_truncation wrappers and of "
        "sU/nU into _meta_svd; segment-wise comparison of the s/hfs/mfs constructions of each factor. Numerical properties of the "
        "LAPACK results are not decided.")
    chk.trusted_base = ["python ast parser"]
    e6.run_S45(chk)
    e3.run_L3(chk)
    # leg groups of the factorisations are mapped meta -> logical-native -> native (through the pending permutation, in that direction)
    e3.run_L1(chk, rule="L1", floor=30, only={"svd", "qr", "eigh", "eig", "svd_with_truncation", "eigh_with_truncation", "moveaxis", "_merge_to_matrix"})
    # charge rows of the decompositions only
    from ..core.report import Check
    e6.run_S2(chk)

    from . import e6 as _e6
    chk.rule("WH", "ordering key per `which` (LM/SM/LR/SR): truncation keeps, and the backend lists first, the values the option names", floor=8)
    _e6.run_WH(chk, "WH")
    from . import e10
    e10.run_U(chk, ("yastn.tensor.linalg", "yastn.tensor._merging"), floor1=5, floor2=1)
    e10.run_U10(chk, ("yastn.backend.backend_np",))
    run_S8(chk)
    run_S9(chk)
    # block lists of the decompositions (struct.t, struct.D, slices and the per-block limits zipped with them) are narrowed together
    e3.run_I6(chk, ("yastn.tensor.linalg",), rule="I6", floor=3)


def run_S9(chk):
    """S9: tables that translate the option `which` (LM / SM / LR / SR) into the mode of scipy's Hermitian ARPACK driver map each request to
    the mode that selects the same eigenvalues: LM -> LM, SM -> SM, LR -> LA (largest algebraic), SR -> SA; in particular two different
    requests never share a mode."""
    prog = chk.prog
    chk.rule("S9", "translation tables of `which` for the Hermitian ARPACK driver map LM/SM/LR/SR to LM/SM/LA/SA", floor=0)
    want = {"LM": "LM", "SM": "SM", "LR": "LA", "SR": "SA"}
    m = prog.modules["yastn.backend.backend_np"]
    seen_ = 0
    for f in prog.all_funcs():
        if f.module is not m:
            continue
        for n in ast.walk(f.node):
            if isinstance(n, ast.Dict) and len(n.keys) >= 2 and all(isinstance(k, ast.Constant) and k.value in want for k in n.keys) \
                    and all(isinstance(v, ast.Constant) and isinstance(v.value, str) for v in n.values):
                got = {k.value: v.value for k, v in zip(n.keys, n.values)}
                seen_ += 1
                usesh = "eigsh" in A.text(f.node)
                wrong = {k: v for k, v in got.items() if v != want[k]} if usesh else \
                    ({k: v for k, v in got.items() if list(got.values()).count(v) > 1})
                chk.verdict("S9", (f, n), f"{f.short}: {got}", False if wrong else True,
                            f"{f.short}(): the table translates " + ", ".join(f"which='{k}' to '{v}'" for k, v in sorted(wrong.items())) +
                            f" (expected {', '.join(k + ' -> ' + want[k] for k in sorted(wrong))}): the driver is asked for other eigenvalues than "
                            f"the option names (e.g. the largest magnitudes instead of the largest algebraic ones, which differ as soon as the "
                            f"spectrum has large negative values); sorting the returned values afterwards cannot bring back what was not computed")

    if not seen_:
        chk.note("S9: no literal `which` translation table in backend_np (other spelling): not decided")


def run_S8(chk):
    """S8: scipy.sparse.linalg.svds returns the singular values of a block in *ascending* order; the block kernel promises them in
    descending order within each sector (the truncation takes `[:k]`).  Every call of svds is followed, on every path to the statements
    that store U/S/V, by the re-ordering (argsort of -S, or a [::-1] reversal) -- for every solver."""
    from ..core.cfg import CFG
    prog = chk.prog
    chk.rule("S8", "every partial block SVD (scipy svds, ascending) is re-ordered to descending before it is stored, for every solver", floor=2)
    f = prog.func("yastn.backend.backend_np", "svds_scipy")
    cfg = CFG(f.node)
    stmts = [n.ast for n in cfg.nodes if isinstance(n.ast, ast.stmt)]
    calls = [st for st in stmts if isinstance(st, ast.Assign) and any(isinstance(c, ast.Call) and (A.call_name(c) or "").endswith("linalg.svds") for c in ast.walk(st.value))]
    reorder = [st for st in stmts if isinstance(st, ast.Assign) and (("argsort(-" in A.text(st.value).replace(" ", "")) or "[::-1]" in A.text(st.value).replace(" ", ""))]
    chk.require(calls, "svds_scipy: calls of scipy.sparse.linalg.svds not found")
    for c in calls:
        ok = bool(reorder) and cfg.always_followed(c, reorder)
        chk.verdict("S8", (f, c), f"svds_scipy: `{A.short(c, 60)}` is followed by the descending re-order on every path", True if ok else False,
                    f"svds_scipy(): after `{A.short(c, 60)}` some path reaches the stores of U/S/V without the re-ordering: scipy's svds returns ascending "
                    f"singular values, so for that solver the sector comes out in ascending order and the truncation `[:k]` keeps the smallest")

MUTANTS = [
    ('eigh_lowrank asks ARPACK for LM when LR is requested', 'yastn/backend/backend_np.py', "'LR': 'LA'", "'LR': 'LM'", 'S9'),
    ('_meta_eigh filters slices with the already filtered minD', 'yastn/tensor/linalg.py', '        slices = tuple(x for x, mD in zip(slices, minD) if mD > 0)\n        minD = tuple(mD for mD in minD if mD > 0)\n        struct = struct._replace(t=at, D=aD)\n\n    if sU == -struct.s[0]:', '        minD = tuple(mD for mD in minD if mD > 0)\n        slices = tuple(x for x, mD in zip(slices, minD) if mD > 0)\n        struct = struct._replace(t=at, D=aD)\n\n    if sU == -struct.s[0]:', 'I6'),
    ('which swallowed by a named parameter', 'yastn/backend/backend_np.py', 'def eig(data, meta=None, sizes=(1, 1), **kwargs):', "def eig(data, meta=None, sizes=(1, 1), which='LM', **kwargs):", 'U10'),
    ('eigh maps legs with the inverse permutation', 'yastn/tensor/linalg.py', "    out_hl = tuple(a.trans[ax] for ax in out_hl)\n    out_hr = tuple(a.trans[ax] for ax in out_hr)\n    #\n    if not all(x == 0 for x in a.struct.n):\n        raise YastnError('eigh requires tensor charge to be zero.')", "    out_hl = tuple(a.trans.index(ax) for ax in out_hl)\n    out_hr = tuple(a.trans.index(ax) for ax in out_hr)\n    #\n    if not all(x == 0 for x in a.struct.n):\n        raise YastnError('eigh requires tensor charge to be zero.')", 'L1'),
    ('moveaxis normalises with the native leg count', 'yastn/tensor/_single.py', '    ldst = tuple(xx + a.ndim if xx < 0 else xx for xx in ldst)', '    ldst = tuple(xx + a.ndim_n if xx < 0 else xx for xx in ldst)', 'L1'),
    ("qr: R gets meta-fusion of the left group", "yastn/tensor/linalg.py", "    Rmfs = ((1,),) + tuple(a.mfs[ii] for ii in out_mr)", "    Rmfs = ((1,),) + tuple(a.mfs[ii] for ii in out_ml)", "L3"),
    ("Vs with +sU", "yastn/tensor/linalg.py", "    Vstruct = _struct(s=(-sU, struct.s[1]), n=Vn, diag=False, t=Vt, D=VD, size=sum(VDp))", "    Vstruct = _struct(s=(sU, struct.s[1]), n=Vn, diag=False, t=Vt, D=VD, size=sum(VDp))", "S4"),
    ("swap Uaxis/Vaxis", "yastn/tensor/linalg.py", "    U = U.moveaxis(source=-1, destination=Uaxis)\n    V = V.moveaxis(source=0, destination=Vaxis)\n    return U, S, V\n\n\ndef _find_gaps",
     "    U = U.moveaxis(source=-1, destination=Vaxis)\n    V = V.moveaxis(source=0, destination=Uaxis)\n    return U, S, V\n\n\ndef _find_gaps", "S5"),
    ("qr forgets Raxis", "yastn/tensor/linalg.py", "    Q = Q.moveaxis(source=-1, destination=Qaxis)\n    R = R.moveaxis(source=0, destination=Raxis)\n", "    Q = Q.moveaxis(source=-1, destination=Qaxis)\n", "S5"),
    ("Q fusion record wrong sign", "yastn/tensor/linalg.py", "    Qhfs = tuple(a.hfs[ii] for ii in out_hl) + (_Fusion(s=(sQ,)),)", "    Qhfs = tuple(a.hfs[ii] for ii in out_hl) + (_Fusion(s=(-sQ,)),)", "S4"),
    ("mask after move", "yastn/tensor/linalg.py", "    U, S, V = Smask.apply_mask(U, S, V, axes=(-1, 0, 0))", "    U, S, V = Smask.apply_mask(U, S, V, axes=(0, 0, 0))", "S5"),
    ("R carries the charge", "yastn/tensor/linalg.py", "    Rstruct = struct._replace(t=Rt, D=RD, size=sum(RDp), s=(-sQ, struct.s[1]), n=n0)", "    Rstruct = struct._replace(t=Rt, D=RD, size=sum(RDp), s=(-sQ, struct.s[1]))", "S2"),
]
BENIGN = []
