"""E8 `factorflow` — norm-factor bookkeeping of the MPS layer; shared by C06 and C08."""
from __future__ import annotations

import ast
import copy
from fractions import Fraction

from ..core import astutil as A
from ..core.cfg import CFG
from ..core.errors import AnalysisError
from ..core.poly import Poly, Rat, from_ast, NotPolynomial


# ------------------------------------------------------------------------ taint
class Taint:
    """Flow-insensitive taint closure inside one function: which locals (and which objects through
    attribute/item stores) depend on a source expression."""

    def __init__(self, fn, is_source):
        self.fn = fn
        self.is_source = is_source
        self.b = {k: list(v) for k, v in A.local_bindings(fn).items()}
        # values appended / extended into a local list are definitions of that list
        for n in A.walk_local(fn, include_self=False):
            if isinstance(n, ast.Call) and isinstance(n.func, ast.Attribute) and n.func.attr in ("append", "extend", "insert", "add", "update") \
                    and isinstance(n.func.value, ast.Name) and n.args:
                self.b.setdefault(n.func.value.id, []).append((n, n.args[-1], "append"))
        self.tainted = set()       # local names
        self.obj_tainted = set()   # names of objects that had a tainted value stored into a field/element
        self._fix()

    def mentions(self, node):
        for n in ast.walk(node):
            if self.is_source(n):
                return True
            if isinstance(n, ast.Name) and isinstance(n.ctx, ast.Load) and (n.id in self.tainted or n.id in self.obj_tainted):
                return True
        return False

    def _fix(self):
        changed = True
        while changed:
            changed = False
            for name, defs in self.b.items():
                if name in self.tainted:
                    continue
                for st, val, kind in defs:
                    if val is not None and self.mentions(val):
                        self.tainted.add(name)
                        changed = True
                        break
            for n in ast.walk(self.fn):
                if isinstance(n, (ast.Assign, ast.AugAssign)):
                    tgts = n.targets if isinstance(n, ast.Assign) else [n.target]
                    for t in tgts:
                        tl = t.elts if isinstance(t, ast.Tuple) else [t]
                        for tt in tl:
                            if isinstance(tt, (ast.Attribute, ast.Subscript)):
                                root = tt
                                while isinstance(root, (ast.Attribute, ast.Subscript)):
                                    root = root.value
                                if isinstance(root, ast.Name) and root.id not in self.obj_tainted and self.mentions(n.value):
                                    self.obj_tainted.add(root.id)
                                    changed = True

    def returned_tainted(self):
        rets = [r for r in A.returns_of(self.fn) if r.value is not None]
        if not rets:
            return None
        return all(self.mentions(r.value) for r in rets if not (isinstance(r.value, ast.Constant)))


def factor_of(*bases):
    """source matcher: `<base>.factor` for given base texts ('a', 'self', 'self.ket' ...) or loop variables over them"""
    bases = set(bases)

    def m(n):
        return isinstance(n, ast.Attribute) and n.attr == "factor" and A.text(n.value) in bases
    return m


def loop_vars_over(fn, param):
    """names bound by for-loops / comprehensions whose iterable mentions `param`"""
    out = set()
    for n in ast.walk(fn):
        gens = []
        if isinstance(n, (ast.ListComp, ast.SetComp, ast.GeneratorExp, ast.DictComp)):
            gens = [(g.target, g.iter) for g in n.generators]
        elif isinstance(n, ast.For):
            gens = [(n.target, n.iter)]
        for tgt, it in gens:
            if any(isinstance(x, ast.Name) and x.id == param for x in ast.walk(it)):
                out |= set(A.assigned_names(tgt))
    return out


def check_flow(chk, rule, f, operands, what, loop_over=None):
    """the factor of each operand reaches the value returned by f"""
    fn = f.node
    for op in operands:
        bases = {op}
        if loop_over and op == loop_over:
            bases |= loop_vars_over(fn, op)
            bases.discard(op)
        t = Taint(fn, factor_of(*bases))
        r = t.returned_tainted()
        if r is None:
            raise AnalysisError(f"{f.short}: no value returned")
        chk.verdict(rule, f, f"{f.short}: factor of `{op}` -> {what}", True if r else False,
                    f"{f.short}(): the norm factor of operand `{op}` does not reach the result ({what}); the result is wrong for every "
                    f"operand whose factor is not 1 (e.g. after canonize_(normalize=False), truncate_, scalar multiplication)")


# ----------------------------------------------------------------- FF3 identity
def mul_identity(chk, f, rule="FF3"):
    """_MpsMpoParent.__mul__: on every path, (new factor) * (scalar applied to one site tensor) == number * self.factor, with the
    modulus abs(number) kept in the factor; a zero modulus is not divided by.  Evaluated per path (if/else, hoisted stores and
    temporaries make no difference); local names are read off the function."""
    fn = f.node
    me, num = f.params[0], f.params[1]
    body = A.strip_docstring(fn.body)
    b = A.local_bindings(fn)
    phis = [nm for nm, ds in b.items() for st, v, k in ds if k == "assign" and isinstance(v, ast.Call) and A.text(v.func) == f"{me}.shallow_copy"]
    ams = [nm for nm, ds in b.items() for st, v, k in ds if k == "assign" and isinstance(v, ast.Call) and A.call_name(v) == "abs"
           and len(v.args) == 1 and A.text(v.args[0]) == num]
    chk.verdict(rule, f, f"modulus `{ams[0] if ams else '?'}` = abs({num})", True if ams else False, "__mul__: the modulus kept in `factor` is not abs(number)")
    if not phis or not ams:
        raise AnalysisError("__mul__: result object (shallow copy) or modulus not found")
    phi, am = phis[0], ams[0]
    NUM, F_, AM = Rat(Poly.sym(num)), Rat(Poly.sym("F")), Rat(Poly.sym(am))

    def to_rat(node):
        import copy

        class R(ast.NodeTransformer):
            def visit_Attribute(self, n):
                if A.text(n) == f"{me}.factor":
                    return ast.Name(id="F", ctx=ast.Load())
                return n
        return from_ast(R().visit(copy.deepcopy(node)))
    paths = [p_ for p_ in A.straightline_paths(body) if p_[2] is not None]
    chk.require(len(paths) >= 2, "__mul__: paths for zero / non-zero modulus not found")
    for conds, stores, ret in paths:
        fac = stores.get(f"{phi}.factor")
        scal = None
        for tt, v in stores.items():
            if tt.startswith(f"{phi}.A[") and isinstance(v, ast.BinOp) and isinstance(v.op, ast.Mult):
                scal = v.right if A.text(v.left) == tt else (v.left if A.text(v.right) == tt else None)
        def through_path(e, depth=3):
            """replace temporaries by what this very path stored into them"""
            import copy
            if depth <= 0 or e is None:
                return e

            class T(ast.NodeTransformer):
                def visit_Name(self, n):
                    if isinstance(n.ctx, ast.Load) and n.id in stores and n.id not in (me, num, am, phi):
                        return through_path(copy.deepcopy(stores[n.id]), depth - 1)
                    return n
            return T().visit(copy.deepcopy(e))
        fac, scal = through_path(fac), through_path(scal)
        ctext = " and ".join(("" if o else "not ") + A.text(t) for t, o in conds) or "always"
        # does this path know that the modulus is non-zero?
        def _strip_not(t, o):
            while isinstance(t, ast.UnaryOp) and isinstance(t.op, ast.Not):
                t, o = t.operand, not o
            return t, o
        nconds = [_strip_not(t, o) for t, o in conds]
        nonzero = any((A.text(t) in (f"{am} > 0", f"{am} != 0", am, f"0 < {am}") and o) or (A.text(t) in (f"{am} == 0", f"{am} <= 0") and not o) for t, o in nconds)
        if fac is None:
            chk.bad(rule, (f, ret), f"[{ctext}] {phi}.factor", f"__mul__: on the path [{ctext}] the factor of the result is not set")
            continue
        if scal is None:
            ok = to_rat(fac).equals(AM * F_) and not nonzero
            chk.verdict(rule, (f, ret), f"[{ctext}] factor = {A.text(fac)}, tensors unscaled", True if ok else False,
                        f"__mul__: on the path [{ctext}] no site tensor is scaled although the modulus may be non-zero, or the factor is not "
                        f"modulus * {me}.factor: scalar multiplication changes the represented state by a wrong amount")
            continue
        prod = to_rat(fac) * to_rat(scal)
        ok = prod.equals(NUM * F_) and to_rat(fac).equals(AM * F_)
        chk.verdict(rule, (f, ret), f"[{ctext}] ({A.text(fac)}) * ({A.text(scal)}) == {num} * {me}.factor", True if ok else False,
                    f"__mul__: on the path [{ctext}] new factor * scalar on the site tensor = {prod}, expected {num}*{me}.factor with the modulus "
                    f"in the factor: scalar multiplication changes the represented state by a wrong amount")
        divides = any(isinstance(x, ast.BinOp) and isinstance(x.op, ast.Div) and A.text(x.right) == am for x in ast.walk(scal))
        chk.verdict(rule, (f, ret), f"[{ctext}] division by the modulus only where it is non-zero", True if (not divides or nonzero) else False,
                    "__mul__: the phase number/am is computed without excluding am == 0")


def scalar_siblings(chk, cls, rule="FF3"):
    """the other scalar operations of _MpsMpoParent agree with __mul__: `-psi`, `number * psi`, `psi / number` are `psi * (-1)`,
    `psi * number`, `psi * (1 / number)`.  Each is either a delegation `return self.__mul__(E)` with E the right scalar (exact
    rational identity), or an explicit implementation whose (new factor) * (scalar applied to a site tensor) equals the right scalar
    times self.factor on every path -- as a rational identity in the symbols number, |number| and factor, i.e. for complex numbers too
    (an implementation that is right only when number**2 == |number|**2 is right for real scalars only)."""
    for name, expect in (("__rmul__", lambda N: N), ("__neg__", lambda N: Rat(Poly.const(-1))), ("__truediv__", lambda N: Rat(Poly.const(1)) / N)):
        f = cls.methods.get(name)
        if f is None:
            continue
        fn = f.node
        me = f.params[0]
        num = f.params[1] if len(f.params) > 1 else "number"
        NUM, F_ = Rat(Poly.sym(num)), Rat(Poly.sym("F"))
        want = expect(NUM)
        body = A.strip_docstring(fn.body)
        if len(body) > 1 and isinstance(body[-1], ast.Return) and body[-1].value is not None and all(
                isinstance(st_, ast.Assign) and len(st_.targets) == 1 and isinstance(st_.targets[0], ast.Name) for st_ in body[:-1]):
            # temporaries in front of a single return (`inverse = 1 / number; return self.__mul__(inverse)`) are written out
            tmp_ = {st_.targets[0].id: st_.value for st_ in body[:-1]}
            if len(tmp_) == len(body) - 1:
                class _W(ast.NodeTransformer):
                    def visit_Name(self, n_):
                        if isinstance(n_.ctx, ast.Load) and n_.id in tmp_:
                            return self.visit(copy.deepcopy(tmp_[n_.id]))
                        return n_
                body = [ast.copy_location(ast.Return(value=_W().visit(copy.deepcopy(body[-1].value))), body[-1])]
        if len(body) == 1 and isinstance(body[0], ast.Return) and isinstance(body[0].value, ast.Call) and A.text(body[0].value.func) in (f"{me}.__mul__",) \
                and len(body[0].value.args) == 1:
            try:
                got = from_ast(body[0].value.args[0])
            except NotPolynomial:
                got = None
            chk.verdict(rule, (f, body[0]), f"{name}: {A.short(body[0], 50)}", True if got is not None and got.equals(want) else False,
                        f"{name}: delegates to __mul__ with the scalar `{A.text(body[0].value.args[0])}` instead of {want}")
            continue
        if len(body) == 1 and isinstance(body[0], ast.Return) and isinstance(body[0].value, ast.BinOp) and isinstance(body[0].value.op, ast.Mult) \
                and me in (A.text(body[0].value.left), A.text(body[0].value.right)):
            other = body[0].value.right if A.text(body[0].value.left) == me else body[0].value.left
            try:
                got = from_ast(other)
            except NotPolynomial:
                got = None
            chk.verdict(rule, (f, body[0]), f"{name}: {A.short(body[0], 50)}", True if got is not None and got.equals(want) else False,
                        f"{name}: multiplies by `{A.text(other)}` instead of {want}")
            continue
        # explicit implementation: per path, product of the new factor and of the scalar applied to one site tensor
        b = A.local_bindings(fn)
        phis = [nm for nm, ds in b.items() for st, v, k in ds if k == "assign" and isinstance(v, ast.Call) and A.text(v.func) == f"{me}.shallow_copy"]
        if not phis:
            raise AnalysisError(f"{name}: neither a delegation to __mul__ nor an explicit implementation on a shallow copy")
        phi = phis[0]
        import copy as _copy

        def to_rat(node, stores):
            class R(ast.NodeTransformer):
                def visit_Attribute(self, n):
                    if A.text(n) == f"{me}.factor":
                        return ast.Name(id="F", ctx=ast.Load())
                    return n

                def visit_Name(self, n):
                    if isinstance(n.ctx, ast.Load) and n.id in stores and n.id not in (me, num, phi):
                        return self.visit(_copy.deepcopy(stores[n.id]))
                    return n

                def visit_Call(self, c):
                    if A.call_name(c) == "abs" and len(c.args) == 1 and A.text(c.args[0]) == num:
                        return ast.Name(id="ABS", ctx=ast.Load())
                    return self.generic_visit(c)
            return from_ast(R().visit(_copy.deepcopy(node)))
        for conds, stores, ret in [p_ for p_ in A.straightline_paths(body) if p_[2] is not None]:
            fac = stores.get(f"{phi}.factor")
            scal = None
            for tt, v in stores.items():
                if tt.startswith(f"{phi}.A[") and isinstance(v, ast.BinOp) and isinstance(v.op, (ast.Mult, ast.Div)):
                    if isinstance(v.op, ast.Mult):
                        scal = v.right if A.text(v.left) == tt else (v.left if A.text(v.right) == tt else None)
                    elif A.text(v.left) == tt:
                        scal = ast.BinOp(left=ast.Constant(value=1), op=ast.Div(), right=v.right)
            ctext = " and ".join(("" if o else "not ") + A.text(t) for t, o in conds) or "always"
            try:
                prod = (to_rat(fac, stores) if fac is not None else F_) * (to_rat(scal, stores) if scal is not None else Rat(Poly.const(1)))
            except NotPolynomial:
                raise AnalysisError(f"{name}: scalar arithmetic on the path [{ctext}] is not rational")
            chk.verdict(rule, (f, ret), f"{name} [{ctext}]: new factor * scalar on the site tensor == ({want}) * {me}.factor", True if prod.equals(want * F_) else False,
                        f"{name}: on the path [{ctext}] new factor * scalar applied to the site tensor = {prod}, expected ({want})*F as an identity in "
                        f"`{num}` and |{num}|: the operation disagrees with `{me} * ({want})` -- e.g. the phase of a complex divisor is not inverted "
                        f"(right for real scalars only)")


# ------------------------------------------------------- FF4 division / factor pairing
def division_sites(fn):
    """(stmt, numerator node, denominator node) for `T / v` used to normalise a tensor"""
    out = []
    for n in A.walk_local(fn, include_self=False):
        if isinstance(n, ast.Assign):
            v = n.value
            cand = []
            if isinstance(v, ast.IfExp) and isinstance(v.body, ast.BinOp) and isinstance(v.body.op, ast.Div):
                cand.append(v.body)
            elif isinstance(v, ast.BinOp) and isinstance(v.op, ast.Div):
                cand.append(v)
            for c in cand:
                den = c.right
                num = c.left
                if isinstance(num, ast.Tuple):
                    continue
                if isinstance(den, (ast.Name, ast.Attribute)) and not isinstance(num, ast.Constant):
                    out.append((n, num, den))
    return out


def check_division_pairing(chk, f, rule="FF4", exceptions=()):
    fn = f.node
    b = A.local_bindings(fn)
    sites = division_sites(fn)
    n_ok = 0
    for st, num, den in sites:
        dtext = A.text(den)
        if isinstance(num, ast.Name):
            ndefs = [v for s_, v, k in b.get(num.id, []) if v is not None]
            if ndefs and all(isinstance(v, ast.Call) and A.callee_attr(v) == "norm" for v in ndefs):
                continue          # a ratio of two norms (a number), not a tensor being normalised
        if dtext in exceptions:
            chk.note(f"{rule} named exception {f.short}: `{A.short(st, 60)}` ({exceptions[dtext]})")
            continue
        # definition of the denominator: <T>.norm()
        ddef = None
        if isinstance(den, ast.Name):
            defs = [v for s_, v, k in b.get(den.id, []) if v is not None and getattr(s_, "lineno", 0) <= st.lineno]
            ddef = defs[-1] if defs else None
        else:
            # attribute (psi.factor): find `X.factor = ...` before
            for n in ast.walk(fn):
                if isinstance(n, ast.Assign) and A.text(n.targets[0]) == dtext and n.lineno <= st.lineno:
                    ddef = n.value
        if ddef is None or not (isinstance(ddef, ast.Call) and A.callee_attr(ddef) == "norm" and isinstance(ddef.func, ast.Attribute)):
            continue      # not a normalisation by a norm (e.g. a user scalar)
        normed = A.text(ddef.func.value)
        ok_same = normed == A.text(num)
        chk.verdict(rule, (f, st), f"{A.short(st, 60)}: divisor is the norm of the divided tensor", True if ok_same else False,
                    f"{f.short}: `{A.text(num)}` is divided by the norm of `{normed}`: the tensor is not normalised by its own norm")
        # the same scalar multiplies the factor
        paired = False
        detail = ""
        if isinstance(den, ast.Attribute) and den.attr == "factor":
            paired = True   # factor := norm, tensor := tensor / factor
        if isinstance(den, ast.Name):
            # same with a temporary: nrm = T.norm(); obj.factor = nrm; obj.A[..] = T / nrm   — only for an object created in this function
            for n in ast.walk(fn):
                if isinstance(n, ast.Assign) and isinstance(n.targets[0], ast.Attribute) and n.targets[0].attr == "factor" and A.text(n.value) == dtext \
                        and isinstance(n.targets[0].value, ast.Name):
                    od = [v for s_, v, k in b.get(n.targets[0].value.id, []) if k == "assign"]
                    if od and all(isinstance(v, ast.Call) and isinstance(v.func, ast.Name) and v.func.id[:1].isupper() for v in od):
                        paired = True
        for n in ast.walk(fn):
            if isinstance(n, ast.Assign) and isinstance(n.targets[0], ast.Attribute) and n.targets[0].attr == "factor":
                obj = A.text(n.targets[0].value)
                v = n.value
                body = v
                norm_branch = None
                if isinstance(v, ast.IfExp):
                    if A.text(v.test) == "normalize":
                        body, norm_branch = v.orelse, v.body
                    elif A.text(v.test) == "not normalize":
                        body, norm_branch = v.body, v.orelse
                import copy

                class R(ast.NodeTransformer):
                    def visit_Attribute(self, nn):
                        if A.text(nn) == f"{obj}.factor":
                            return ast.Name(id="F", ctx=ast.Load())
                        return nn
                try:
                    r = from_ast(R().visit(copy.deepcopy(body)))
                except NotPolynomial:
                    continue
                if r.equals(Rat(Poly.sym("F")) * Rat(Poly.sym(dtext if isinstance(den, ast.Name) else "<" + dtext + ">"))):
                    paired = True
                    if norm_branch is not None and A.neg_const(norm_branch) != 1:
                        paired = False
                        detail = "the normalize branch does not reset the factor to 1"
        chk.verdict(rule, (f, st), f"{A.short(st, 60)}: `{dtext}` also multiplies the factor", True if paired else False,
                    f"{f.short}: the tensor is divided by `{dtext}` but the norm factor is not multiplied by it ({detail or 'no `factor = factor * ' + dtext + '`'}): "
                    f"the represented state changes its norm when normalize=False")
        n_ok += 1
    return n_ok


# ------------------------------------------------------------- FF5 discarded weights
def inline_simple_calls(prog, f, expr, depth=2):
    """replace calls of repository functions whose body is a single `return <expr>` by that expression (arguments substituted)"""
    import copy
    from ..core.loader import FuncInfo
    if depth <= 0:
        return expr

    class T(ast.NodeTransformer):
        def visit_Call(self, c):
            self.generic_visit(c)
            if isinstance(c.func, ast.Name) and not c.keywords and not any(isinstance(a_, ast.Starred) for a_ in c.args):
                tgt = prog.resolve(f.module, c.func.id)
                if isinstance(tgt, FuncInfo):
                    body = A.strip_docstring(tgt.node.body)
                    if len(body) == 1 and isinstance(body[0], ast.Return) and body[0].value is not None and len(tgt.params) == len(c.args):
                        sub = dict(zip(tgt.params, c.args))

                        class S(ast.NodeTransformer):
                            def visit_Name(self, n):
                                return copy.deepcopy(sub[n.id]) if n.id in sub and isinstance(n.ctx, ast.Load) else n
                        return inline_simple_calls(prog, tgt, S().visit(copy.deepcopy(body[0].value)), depth - 1)
            return c
    return T().visit(copy.deepcopy(expr))


def check_discarded_composition(chk, f, rule="FF5"):
    """A loop-carried accumulator `acc` (constant initial value c0, updated in the loop from itself and one local weight) is returned
    through a square root: `return (E(acc)) ** 0.5`.  With K(acc) = 1 - E(acc) (the squared norm kept so far) the reported value is the
    true relative error of the whole sweep iff
        K(c0) = 1       and       K(update(acc, x)) = K(acc) * (1 - x)        (x the squared local weight; or (1 - y**2), y the weight)
    -- weights kept at consecutive cuts multiply.  Both are exact polynomial identities; the spelling (`a + x - a*x`, a running product
    of kept weights, ...) does not matter.  Helper functions consisting of one return expression are inlined."""
    fn = f.node
    prog = chk.prog
    ACC, X = Rat(Poly.sym("acc")), Rat(Poly.sym("x"))
    ONE = Rat(Poly.const(1))
    found = 0
    b = A.local_bindings(fn)
    par = A.enclosing_map(fn)
    rets = [r for r in A.returns_of(fn) if r.value is not None]
    for n in A.walk_local(fn, include_self=False):
        if not (isinstance(n, ast.Assign) and isinstance(n.targets[0], ast.Name)):
            continue
        acc = n.targets[0].id
        val = inline_simple_calls(prog, f, n.value)
        names = {x.id for x in ast.walk(val) if isinstance(x, ast.Name)}
        if acc not in names:
            continue
        others = names - {acc}
        in_loop = False
        cur = n
        while cur in par:
            cur = par[cur]
            if isinstance(cur, (ast.For, ast.While)):
                in_loop = True
        inits = [v for st, v, k in b.get(acc, []) if st is not n and k == "assign" and v is not None and isinstance(A.neg_const(v), (int, float))]
        if len(others) != 1 or not in_loop or not inits:
            continue
        loc = others.pop()
        try:
            got = from_ast(val, {acc: ACC, loc: X}, opaque=False)
        except NotPolynomial:
            continue
        # E(acc): what the square root is taken of, in a return
        E = None
        for r in rets:
            for x in ast.walk(r.value):
                arg = None
                if isinstance(x, ast.BinOp) and isinstance(x.op, ast.Pow) and A.neg_const(x.right) == 0.5:
                    arg = x.left
                elif isinstance(x, ast.Call) and (A.call_name(x) or "").split(".")[-1] == "sqrt" and x.args:
                    arg = x.args[0]
                if arg is not None and any(isinstance(y, ast.Name) and y.id == acc for y in ast.walk(arg)):
                    try:
                        E = (from_ast(arg, {acc: ACC}, opaque=False), arg, r)
                    except NotPolynomial:
                        pass
        found += 1
        if E is None:
            chk.bad(rule, (f, rets[-1] if rets else n), rets[-1].value if rets else n,
                    f"{f.short}: the accumulated squared weight `{acc}` is not converted back by a square root in the returned value")
            continue
        Epoly, Earg, Eret = E

        def K(of):
            """1 - E with acc replaced by the Rat `of`"""
            return ONE - from_ast(Earg, {acc: of}, opaque=False)
        c0 = Rat(Poly.const(Fraction(A.neg_const(inits[0]))))
        ok_init = K(c0).equals(ONE)
        chk.verdict(rule, (f, n), f"{acc} starts at {A.neg_const(inits[0])}: nothing discarded yet", True if ok_init else False,
                    f"{f.short}: with the initial value {A.neg_const(inits[0])} of `{acc}` the returned weight is not 0 before the first cut")
        # representation: the (small) discarded weight is accumulated itself.  Kept as the complement -- acc the kept weight near 1 and the
        # result 1 - acc -- every discarded weight below the rounding unit of 1.0 (squared weights < 1e-16, i.e. local errors < 1e-8) is
        # lost by cancellation: the sweep reports 0 for a truncation that did discard something.
        if Epoly.equals(ONE - ACC):
            chk.bad(rule, (f, Eret), Eret.value, f"{f.short}: the truncation error is returned as `{A.short(Eret.value, 40)}` with `{acc}` the *kept* weight "
                    f"(it starts at {A.neg_const(inits[0])} and is multiplied by 1 - x): algebraically the same, but in floating point 1 - (1 - x) is 0 for "
                    f"every squared weight x below 1.1e-16 -- truncations with local errors below 1e-8 are reported as exact")
        elif Epoly.equals(ACC):
            chk.ok(rule, (f, Eret), f"{f.short}: `{acc}` is the discarded weight itself (no cancellation against 1)")
        step_sq = K(got).equals(K(ACC) * (ONE - X))            # x is a squared weight
        step_lin = K(got).equals(K(ACC) * (ONE - X * X))       # x is the weight itself
        chk.verdict(rule, (f, n), n, True if (step_sq or step_lin) else False,
                    f"{f.short}: discarded weights must compose so that the kept weights multiply, 1 - D' = (1 - D)(1 - x) (e.g. D' = D + x - D*x); "
                    f"with `{A.short(n, 60)}` and the returned `{A.short(Eret.value, 40)}` they do not: the reported truncation error of the sweep is "
                    f"not the true relative error")
        if step_lin and not step_sq:
            chk.ok(rule, (f, n), f"{loc} enters squared")
        else:
            # x is the square of the local weight
            ldef = [v for s_, v, k in b.get(loc, []) if v is not None]
            sq = any(isinstance(v, ast.BinOp) and isinstance(v.op, ast.Pow) and A.neg_const(v.right) == 2 or
                     isinstance(v, ast.IfExp) and isinstance(v.body, ast.BinOp) and isinstance(v.body.op, ast.Pow) and A.neg_const(v.body.right) == 2
                     for v in ldef)
            chk.verdict(rule, (f, n), f"{loc} is a squared weight", True if sq else False,
                        f"{f.short}: `{loc}` is not the square of the local discarded weight")
    if not found:
        raise AnalysisError(f"{f.short}: accumulator update of discarded weights not found")


def check_local_discarded(chk, f, rule="FF5"):
    """local discarded weight = || S restricted to the complement of the *same* mask || / || S before truncation ||"""
    fn = f.node
    t = A.text(fn)
    masks = [n for n in ast.walk(fn) if isinstance(n, ast.Assign) and isinstance(n.targets[0], ast.Name)
             and isinstance(n.value, ast.Call) and A.callee_attr(n.value) == "truncation_mask"]
    if not masks:
        raise AnalysisError(f"{f.short}: truncation_mask call not found")
    mname = masks[0].targets[0].id
    comp = [c for c in A.calls(fn) if A.callee_attr(c) == "bitwise_not"]
    ok_comp = comp and all((A.text(c.func.value) == mname if isinstance(c.func, ast.Attribute) and not c.args else
                            (c.args and A.text(c.args[0]) == mname)) for c in comp)
    chk.verdict(rule, (f, comp[0] if comp else masks[0]), comp[0] if comp else "bitwise_not(mask)", True if ok_comp else False,
                f"{f.short}: the discarded weight is not computed with the complement of the mask that truncates")
    applied = [c for c in A.calls(fn) if A.callee_attr(c) == "apply_mask" and isinstance(c.func, ast.Attribute) and A.text(c.func.value) == mname]
    chk.verdict(rule, (f, applied[0] if applied else masks[0]), applied[0] if applied else "mask.apply_mask", True if applied else False,
                f"{f.short}: the truncation is not performed with `{mname}`")


# ------------------------------------------------- FF6 norm switch (path-sensitive in the boolean knob)
def factor_stores(fn, obj):
    return [n for n in A.walk_local(fn, include_self=False) if isinstance(n, ast.Assign) and len(n.targets) == 1
            and A.text(n.targets[0]) == f"{obj}.factor"]


def check_norm_switch(chk, rule, f, obj, knob="normalize", must_enter=None, resets=False):
    """The function is analysed twice, once per value of the boolean `knob`: `if` tests and conditional expressions on
    the knob are decided, everything else keeps both branches.
      knob=False (norm tracked): every store to <obj>.factor is of the form <obj>.factor * x (accumulates, never
        overwrites), and when `must_enter` is given every entry->return path passes a store whose value multiplies
        <obj>.factor by `must_enter`;
      knob=True (`resets`): a store of the constant 1 exists and no accumulating store can follow it... (last word is 1)."""
    from ..core.cfg import CFG, specialise_expr
    cfg = CFG(f.node)
    stores = factor_stores(f.node, obj)
    chk.require(stores, f"{f.short}: no store to `{obj}.factor` found")
    me = f"{obj}.factor"
    # ---- norm tracked
    off = {knob: False}
    g = cfg.specialised(off)
    live = g.reach_from({g.entry.id})
    enters = []
    for st in stores:
        if cfg.node_of[st].id not in live:
            continue
        v = specialise_expr(st.value, off)
        mult = isinstance(v, ast.BinOp) and isinstance(v.op, ast.Mult) and me in (A.text(v.left), A.text(v.right))
        chk.verdict(rule, (f, st), f"{knob}=False: `{A.short(st, 70)}` accumulates", True if mult else False,
                    f"{f.short}: with {knob}=False the store `{A.short(st, 70)}` overwrites the norm factor instead of multiplying it: "
                    f"the norm accumulated so far is lost")
        if mult and must_enter is not None:
            other = v.right if A.text(v.left) == me else v.left
            if A.text(other) == must_enter:
                enters.append(st)
    if must_enter is not None:
        ok = bool(enters) and g.always_followed(g.entry.id, enters, strict=True)
        chk.verdict(rule, (f, enters[0] if enters else f.node), f"{knob}=False: every path to return multiplies {me} by {must_enter}",
                    True if ok else False,
                    f"{f.short}: with {knob}=False there is a path to `return` on which `{me}` is never multiplied by `{must_enter}`: "
                    f"the result misses the norm factor of that operand (invisible whenever it is 1)")
    # ---- normalised
    if resets:
        on = {knob: True}
        g1 = cfg.specialised(on)
        live1 = g1.reach_from({g1.entry.id})
        ones_ = [st for st in stores if cfg.node_of[st].id in live1 and A.neg_const(specialise_expr(st.value, on)) == 1]
        ok = bool(ones_) and g1.always_followed(g1.entry.id, ones_, strict=True)
        chk.verdict(rule, (f, ones_[0] if ones_ else f.node), f"{knob}=True: every path to return resets {me} to 1", True if ok else False,
                    f"{f.short}: with {knob}=True some path returns without resetting `{me}` to 1: the result is not normalised")


# ------------------------------------------------------------- FF2 Heff siblings carry the operator's factor
def check_heff_factor(chk, rule):
    prog = chk.prog
    ENV = "yastn.tn.mps._env"
    e3 = prog.cls(ENV, "EnvParent_3")
    fam = [c for c in prog.module(ENV).classes.values() if e3 in prog.class_mro(c)]
    n = 0
    for ci in fam:
        for name in ("Heff0", "Heff1", "Heff2"):
            f = ci.methods.get(name)
            if f is None or f.cls is not ci:
                continue
            if any("abstractmethod" in d for d in f.decorators):
                continue
            rets = [r for r in A.returns_of(f.node) if r.value is not None]
            if not rets:
                continue
            n += 1
            ok = all(isinstance(r.value, ast.BinOp) and isinstance(r.value.op, ast.Mult) and
                     "self.op.factor" in (A.text(r.value.left), A.text(r.value.right)) for r in rets)
            chk.verdict(rule, (f, rets[0]), rets[0].value, True if ok else False,
                        f"{ci.name}.{name}(): the effective Hamiltonian is not multiplied by self.op.factor although its siblings are: "
                        f"local problems use a Hamiltonian of the wrong scale whenever the MPO's factor is not 1")
    return n
