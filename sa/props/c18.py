"""C18 — Krylov solvers agree with dense matrix functions (partial; structural clauses only).

Decided (for every linear map f, every start vector, every option set):
  X1  Gram–Schmidt bookkeeping of expand_krylov_space: every coefficient recorded in H is the overlap <V[i]|w> with the
      basis vector as bra, the very same coefficient is subtracted from w for the very same basis vector, all existing basis
      vectors are covered (Arnoldi) / the three-term recurrence reuses the stored norm (Lanczos), and the new vector is
      w divided by the norm recorded as H[j+1, j]; on (happy) breakdown the division is skipped and the entry removed
  X2  start vectors: each solver divides its start vector by that vector's own norm; a zero start vector raises before any
      division (expmv: raises if it has to normalise, otherwise returns without iterating)
  X3  results are linear combinations of the orthonormal basis (plus, for lin_solver, the initial guess with amplitude 1)
      built by Tensor.add — which rejects operands of different charge — so results stay in the sector of the start vector
  X4  expmv norm bookkeeping, path-sensitive in `normalize`: the norm of the start vector times the norms of the small
      propagators is multiplied back on every path iff normalize is False
  X5  lin_solver returns its vector together with the norm of f(vector) - b recomputed from that very vector
Not decided: accuracy of the adaptive step/space controller of expmv, the variational property of Ritz values, tolerance claims.
"""
from __future__ import annotations

import ast

from ..core import astutil as A
from ..core.cfg import CFG, specialise_expr
from ..core.errors import AnalysisError
from . import e7

KRY = "yastn.krylov._krylov"
TKR = "yastn.tensor._krylov"


def _sub_text(node):
    return A.text(node).replace(" ", "")


def run_X1(chk):
    prog = chk.prog
    f = prog.func(TKR, "expand_krylov_space")
    fn = f.node
    par = A.enclosing_map(fn)
    chk.require(len(f.params) >= 7, "expand_krylov_space: parameters (self, f, tol, ncv, hermitian, V, H) not found")
    Vn, Hn = f.params[5], f.params[6]
    outer = [n for n in fn.body if isinstance(n, ast.For)]
    chk.require(len(outer) == 1, "expand_krylov_space: main loop not found")
    loop = outer[0]
    j = A.text(loop.target)
    # loop invariant len(V) == j + 1: range starts at len(V) - 1 and every completed iteration appends exactly once
    ok = isinstance(loop.iter, ast.Call) and A.call_name(loop.iter) == "range" and len(loop.iter.args) == 2 and _sub_text(loop.iter.args[0]) == f"len({Vn})-1"
    apps = [c for c in ast.walk(loop) if isinstance(c, ast.Call) and A.callee_attr(c) == "append" and A.text(c.func.value) == Vn]
    ok = ok and len(apps) == 1 and par[par[apps[0]]] is loop
    chk.verdict("X1", (f, loop), f"loop invariant len({Vn}) == {j} + 1", True if ok else False,
                "expand_krylov_space: the loop no longer starts at len(V)-1 with exactly one V.append per completed iteration: the index j "
                "and the size of the basis go out of step")
    # the dimension requested by the caller bounds the loop unmodified: the only other reason to stop is breakdown (size of the stored
    # blocks of the start vector says nothing about the dimension of the reachable sector)
    ncvp = f.params[3]
    upper = loop.iter.args[1] if isinstance(loop.iter, ast.Call) and len(loop.iter.args) == 2 else None
    rebound = [n for n in ast.walk(fn) if isinstance(n, ast.Name) and n.id == ncvp and isinstance(n.ctx, ast.Store)]
    chk.verdict("X1", (f, loop), f"loop runs up to the caller's `{ncvp}`", True if (upper is not None and A.text(upper) == ncvp and not rebound) else False,
                f"expand_krylov_space: the upper bound of the Krylov loop is not the caller's `{ncvp}` as given (it is rebound or replaced): the space is "
                f"cut short for reasons other than breakdown and eigs/lin_solver stop being exact when ncv covers the reachable sector")
    # w = f(V[-1])
    wdef = [n for n in loop.body if isinstance(n, ast.Assign) and isinstance(n.value, ast.Call) and A.text(n.value.func) == f.params[1]]
    chk.require(wdef, "expand_krylov_space: application of f not found")
    w = A.text(wdef[0].targets[0])
    chk.verdict("X1", (f, wdef[0]), wdef[0], True if _sub_text(wdef[0].value.args[0]) == f"{Vn}[-1]" else False,
                "expand_krylov_space: the map is not applied to the newest basis vector V[-1]")
    # every H[a, b] = X.vdot(w): X is V[a] (basis vector as bra)
    stores = [n for n in ast.walk(loop) if isinstance(n, ast.Assign) and isinstance(n.targets[0], ast.Subscript) and A.text(n.targets[0].value) == Hn]
    n_ov = 0
    inl0 = A.Inliner(fn)
    # a temporary that holds the overlap recorded under H[a, j] is the same value as H[a, j]
    same_as = {}
    for st in stores:
        if isinstance(st.value, ast.Name):
            same_as[st.value.id] = _sub_text(st.targets[0])
    for st in stores:
        v = inl0.expand(st.value) if isinstance(st.value, ast.Name) else st.value
        key = st.targets[0].slice
        if isinstance(v, ast.Call) and A.callee_attr(v) == "vdot" and isinstance(v.func, ast.Attribute):
            n_ov += 1
            bra = v.func.value
            row = key.elts[0] if isinstance(key, ast.Tuple) else None
            ok = isinstance(bra, ast.Subscript) and A.text(bra.value) == Vn and row is not None and A.text(bra.slice) == A.text(row) \
                and len(v.args) == 1 and A.text(v.args[0]) == w and A.kwarg(v, "conj") is None
            chk.verdict("X1", (f, st), st, True if ok else False,
                        f"expand_krylov_space: `{A.short(st, 60)}` must record <V[row]|{w}> (basis vector conjugated) under H[row, {j}]")
    chk.require(n_ov >= 2, "expand_krylov_space: overlap stores not found")
    # orthogonalisation: w = w.add(<basis...>, amplitudes=[1, -H[..], ...]).  Operands and amplitudes may be given in place, through
    # temporaries, selected by if/else, built by an append loop or by a comprehension: every alternative is brought to one of two forms
    #   explicit   operands [V[a], ..] with amplitudes [1, -H[a, j], ..]
    #   all-basis  operands *V         with amplitudes [1] ++ [-H[i, j] for i in range(j + 1)], the overlaps H[i, j] stored for those i
    adds = [n for n in ast.walk(loop) if isinstance(n, ast.Assign) and A.text(n.targets[0]) == w and isinstance(n.value, ast.Call)
            and A.callee_attr(n.value) == "add" and A.text(n.value.func.value) == w]
    chk.require(len(adds) >= 1, "expand_krylov_space: orthogonalisation steps `w = w.add(...)` not found")
    b = A.local_bindings(fn)

    def overlap_loop(target_i):
        """a loop `for i in range(j + 1)` in the Krylov loop that stores H[i, j]"""
        for il in ast.walk(loop):
            if isinstance(il, ast.For) and isinstance(il.iter, ast.Call) and A.call_name(il.iter) == "range" and len(il.iter.args) == 1 \
                    and _sub_text(il.iter.args[0]) == f"{j}+1" and any(isinstance(s_, ast.Assign) and _sub_text(s_.targets[0]) == f"{Hn}[{A.text(il.target)},{j}]" for s_ in ast.walk(il)):
                return True
        return False

    def neg_H_of(e, ivar):
        """-H[(ivar, j)] (possibly through a temporary that was stored under H[ivar, j])"""
        if isinstance(e, ast.UnaryOp) and isinstance(e.op, ast.USub):
            o = e.operand
            if isinstance(o, ast.Name) and o.id in same_as:
                return same_as[o.id] == f"{Hn}[{ivar},{j}]"
            return _sub_text(o) == f"{Hn}[{ivar},{j}]"
        return False

    def all_basis_amplitudes(amp):
        if isinstance(amp, ast.BinOp) and isinstance(amp.op, ast.Add) and isinstance(amp.left, ast.List) and len(amp.left.elts) == 1 and A.neg_const(amp.left.elts[0]) == 1 \
                and isinstance(amp.right, (ast.ListComp, ast.GeneratorExp)):
            comp = amp.right
        elif isinstance(amp, ast.List) and len(amp.elts) == 2 and A.neg_const(amp.elts[0]) == 1 and isinstance(amp.elts[1], ast.Starred) \
                and isinstance(amp.elts[1].value, (ast.ListComp, ast.GeneratorExp)):
            comp = amp.elts[1].value
        else:
            return False
        g = comp.generators[0]
        return len(comp.generators) == 1 and not g.ifs and isinstance(g.iter, ast.Call) and A.call_name(g.iter) == "range" and len(g.iter.args) == 1 \
            and _sub_text(g.iter.args[0]) == f"{j}+1" and neg_H_of(comp.elt, A.text(g.target)) and overlap_loop(A.text(g.target))

    from ..core.knob import KnobEval
    ke = KnobEval(fn, {})

    def reaching(name, at):
        return [(s_, v, k) for s_, v, k in ke._defs(name, at)]

    def alternatives(c, at):
        """[(operand nodes | ('*', name), amplitude node)]"""
        amp = A.kwarg(c, "amplitudes")
        ops = list(c.args)
        if len(ops) == 1 and isinstance(ops[0], ast.Starred) and isinstance(ops[0].value, ast.Name) and ops[0].value.id != Vn and isinstance(amp, ast.Name):
            # *vectors / amplitudes bound together, alternative by alternative
            vn, an = ops[0].value.id, amp.id
            out = []
            for st_v, vv, kv in reaching(vn, at):
                for st_a, av, ka in reaching(an, at):
                    if st_v is st_a and vv is not None and av is not None:
                        out.append((list(vv.elts) if isinstance(vv, (ast.List, ast.Tuple)) else None, av))
            return out or [(None, None)]
        if isinstance(amp, ast.Name) and amp.id in b:
            defs_ = [v for s_, v, k in reaching(amp.id, at) if k == "assign" and v is not None]
            ap = [x for x in ast.walk(loop) if isinstance(x, ast.Call) and A.callee_attr(x) == "append" and A.text(x.func.value) == amp.id]
            if len(defs_) == 1 and isinstance(defs_[0], ast.List) and len(defs_[0].elts) == 1 and A.neg_const(defs_[0].elts[0]) == 1 and len(ap) == 1:
                il = par[par[ap[0]]]
                if isinstance(il, ast.For):
                    comp = ast.ListComp(elt=ap[0].args[0], generators=[ast.comprehension(target=il.target, iter=il.iter, ifs=[], is_async=0)])
                    return [(ops, ast.BinOp(left=defs_[0], op=ast.Add(), right=comp))]
            return [(ops, v) for v in defs_] or [(ops, None)]
        return [(ops, amp)]
    for st in adds:
        c = st.value
        for ops, amp in alternatives(c, st):
            if ops is None or amp is None:
                chk.bad("X1", (f, st), st, "expand_krylov_space: operands / amplitudes of the orthogonalisation are not recognisable")
                continue
            if len(ops) == 1 and isinstance(ops[0], ast.Starred) and A.text(ops[0].value) == Vn:
                ok = all_basis_amplitudes(amp)
                chk.verdict("X1", (f, st), f"{A.short(st, 50)} with amplitudes {A.short(amp, 50)}", True if ok else False,
                            f"expand_krylov_space (Arnoldi): the amplitudes must be [1] followed by -H[i, {j}] for i = 0..{j}, matching the operands ({w}, *{Vn})")
            elif isinstance(amp, ast.List):
                ok = bool(amp.elts) and A.neg_const(amp.elts[0]) == 1 and len(amp.elts) == len(ops) + 1
                for e, o in zip(amp.elts[1:], ops):
                    good = isinstance(e, ast.UnaryOp) and isinstance(e.op, ast.USub) and isinstance(e.operand, ast.Subscript) and A.text(e.operand.value) == Hn \
                        and isinstance(e.operand.slice, ast.Tuple) and isinstance(o, ast.Subscript) and A.text(o.value) == Vn \
                        and A.text(e.operand.slice.elts[0]) == A.text(o.slice) and A.text(e.operand.slice.elts[1]) == j
                    ok = ok and good
                chk.verdict("X1", (f, st), f"{A.short(st, 50)} with {[A.text(o) for o in ops]} / {A.short(amp, 50)}", True if ok else False,
                            f"expand_krylov_space: `{A.short(st, 70)}`: each basis vector V[a] must be subtracted with amplitude -H[a, {j}] (the overlap just recorded)")
            else:
                chk.bad("X1", (f, st), st, "expand_krylov_space: amplitudes of the orthogonalisation are not recognisable")
    # Lanczos: H[j-1, j] = H[j, j-1]
    sym = [n for n in stores if _sub_text(n.targets[0]) == f"{Hn}[{j}-1,{j}]"]
    chk.verdict("X1", (f, sym[0] if sym else loop), sym[0] if sym else f"{Hn}[{j}-1,{j}]", True if sym and _sub_text(sym[0].value) == f"{Hn}[{j},{j}-1]" else False,
                "expand_krylov_space (Lanczos): the super-diagonal must reuse the norm stored at H[j, j-1] in the previous step")
    # normalisation and breakdown.  `H[j+1, j]`, and a temporary holding the same value, are interchangeable: everything is compared
    # after replacing both by the expression that was recorded
    inl = A.Inliner(fn)
    nst = [n for n in loop.body if isinstance(n, ast.Assign) and _sub_text(n.targets[0]) == f"{Hn}[{j}+1,{j}]"]
    rec = inl.expand(nst[0].value) if nst else None
    ok = rec is not None and isinstance(rec, ast.Call) and A.callee_attr(rec) == "norm" and A.text(rec.func.value) == w
    chk.verdict("X1", (f, nst[0] if nst else loop), nst[0] if nst else "H[j+1, j]", True if ok else False,
                f"expand_krylov_space: H[{j}+1, {j}] is not the norm of the orthogonalised vector")

    def is_recorded_norm(e):
        return rec is not None and (_sub_text(e) == f"{Hn}[{j}+1,{j}]" or A.text(inl.expand(e)) == A.text(rec))
    ap = apps[0]
    e = ap.args[0]
    ok = isinstance(e, ast.BinOp) and isinstance(e.op, ast.Div) and A.text(e.left) == w and is_recorded_norm(e.right)
    chk.verdict("X1", (f, ap), ap, True if ok else False, "expand_krylov_space: the new basis vector is not w divided by the norm recorded in H[j+1, j]")
    brk = [n for n in loop.body if isinstance(n, ast.If) and isinstance(n.test, ast.Compare) and len(n.test.ops) == 1
           and isinstance(n.test.ops[0], (ast.Lt, ast.LtE)) and is_recorded_norm(n.test.left)]
    ok = bool(brk) and any(isinstance(x, ast.Break) for x in brk[0].body) and \
        any(isinstance(x, ast.Expr) and isinstance(x.value, ast.Call) and A.callee_attr(x.value) == "pop" for x in brk[0].body) and \
        brk[0].lineno < par[ap].lineno and any(isinstance(x, ast.Assign) and isinstance(x.value, ast.Constant) and x.value.value is True for x in brk[0].body)
    chk.verdict("X1", (f, brk[0] if brk else loop), brk[0].test if brk else "breakdown test", True if ok else False,
                "expand_krylov_space: on breakdown (norm below tol) the loop must flag `happy`, remove H[j+1, j] and leave before dividing by the tiny norm")


def _start_rule(chk, f, start, basis_stmt_pred, zero_must_raise):
    """X2: the norm of the start vector is taken, a zero norm is handled before the division"""
    fn = f.node
    b = A.local_bindings(fn)
    cfg = CFG(fn)
    par = A.enclosing_map(fn)
    norms = [(st, v) for nm in b for st, v, k in b[nm] if k == "assign" and isinstance(v, ast.Call) and A.callee_attr(v) == "norm"
             and isinstance(v.func, ast.Attribute) and A.text(v.func.value) == start]
    if not norms:
        # no local holds the norm: the division may still be by `start.norm()` itself, but then nothing tests it for zero
        inline = [n for n in ast.walk(fn) if isinstance(n, ast.BinOp) and isinstance(n.op, ast.Div) and A.text(n.left) == start
                  and isinstance(n.right, ast.Call) and A.callee_attr(n.right) == "norm" and A.text(n.right.func.value) == start]
        if inline:
            chk.ok("X2", (f, inline[0]), f"{f.short}: `{A.short(inline[0], 40)}`")
            chk.bad("X2", (f, inline[0]), f"{f.short}: zero start vector handled before the division",
                    f"{f.short}: the start vector `{start}` is divided by `{start}.norm()` without a test of that norm: a zero start vector "
                    f"(for lin_solver: an initial guess that already solves the system) reaches the division")
        else:
            chk.bad("X2", f, f"{f.short}: `{start}` / its norm", f"{f.short}: the start vector `{start}` is not divided by its own norm: amplitudes of "
                    f"the projected problem refer to a unit first basis vector")
        return None
    nst, _ = norms[0]
    nv = A.text(nst.targets[0])
    divs = [n for n in ast.walk(fn) if isinstance(n, ast.BinOp) and isinstance(n.op, ast.Div) and A.text(n.left) == start and A.text(n.right) == nv]
    chk.verdict("X2", (f, divs[0] if divs else nst), f"{f.short}: `{start} / {nv}` with {nv} = {start}.norm()", True if divs else False,
                f"{f.short}: the start vector is not divided by its own norm: amplitudes of the projected problem refer to a unit first basis vector")
    guards = [n for n in ast.walk(fn) if isinstance(n, ast.If) and _sub_text(n.test) in (f"{nv}==0", f"not{nv}", f"{nv}==0.0", f"{nv}<=0")]
    ok = False
    if guards and divs:
        g = guards[0]
        dst = A.stmt_of(divs[0], par)
        if zero_must_raise:
            ok = any(isinstance(x, ast.Raise) for x in g.body) and cfg.must_pass([dst], [cfg.node_of[g]])
        else:
            # division sits in the else branch of the zero test
            ok = dst in list(ast.walk(ast.Module(body=g.orelse, type_ignores=[])))
    chk.verdict("X2", (f, guards[0] if guards else nst), f"{f.short}: zero start vector handled before the division", True if ok else False,
                f"{f.short}: a zero start vector reaches the division by its norm")


def run_X2(chk):
    prog = chk.prog
    eg = prog.func(KRY, "eigs")
    _start_rule(chk, eg, eg.params[1], None, True)
    ls = prog.func(KRY, "lin_solver")
    fpar, bpar, v0 = ls.params[0], ls.params[1], ls.params[2]
    # lin_solver: the Krylov space starts from the residual b - f(v0) of the initial guess
    q0 = [n for n in ast.walk(ls.node) if isinstance(n, ast.Assign) and isinstance(n.targets[0], ast.Name)
          and _sub_text(n.value) in (f"{bpar}-{fpar}({v0})",)]
    chk.verdict("X2", (ls, q0[0] if q0 else ls.node), q0[0] if q0 else "start residual", True if q0 else False,
                "lin_solver: the Krylov space must start from the residual b - f(v0) of the initial guess")
    if not q0:
        raise AnalysisError("lin_solver: start residual not found")
    _start_rule(chk, ls, q0[0].targets[0].id, None, True)
    # the projected least-squares problem min |T y - beta e1| has beta = |b - f(v0)|, the norm of the vector the basis starts from
    res = q0[0].targets[0].id
    inl = A.Inliner(ls.node)
    rhs = [n for n in ast.walk(ls.node) if isinstance(n, ast.BinOp) and isinstance(n.op, ast.Add) and isinstance(n.left, ast.List) and len(n.left.elts) == 1
           and isinstance(n.right, ast.BinOp) and isinstance(n.right.op, ast.Mult) and isinstance(n.right.left, ast.List)
           and len(n.right.left.elts) == 1 and A.neg_const(n.right.left.elts[0]) == 0]
    if rhs:
        beta = inl.expand(rhs[0].left.elts[0])
        ok = isinstance(beta, ast.Call) and A.callee_attr(beta) == "norm" and A.text(inl.expand(beta.func.value)) in (res, A.text(inl.expand(q0[0].value)))
        chk.verdict("X2", (ls, rhs[0]), f"lin_solver: right-hand side of the projected problem is |{res}| e1 (`{A.short(rhs[0], 40)}`)", True if ok else False,
                    f"lin_solver: the right-hand side of the projected least-squares problem is `{A.short(beta, 40)}` e1, but the Krylov basis starts from "
                    f"`{res}` = b - f(v0) divided by its own norm, so the coefficient must be |{res}|: with a non-zero initial guess the correction is "
                    f"scaled by |b|/|b - f(v0)| (invisible for v0 = 0, where the two coincide)")
    else:
        chk.note("lin_solver: right-hand side `[beta] + [0] * m` of the projected problem not recognised")
    ex = prog.func(KRY, "expmv")
    vpar = ex.params[1]
    _start_rule(chk, ex, vpar, None, False)
    # expmv: zero vector raises when normalisation is requested, otherwise no time is propagated
    b = A.local_bindings(ex.node)
    nvs = [nm for nm, ds in b.items() for st, v, k in ds if k == "assign" and isinstance(v, ast.Call) and A.callee_attr(v) == "norm"
           and isinstance(v.func, ast.Attribute) and A.text(v.func.value) == vpar]
    nv = nvs[0] if nvs else "?"
    g = [n for n in ast.walk(ex.node) if isinstance(n, ast.If) and _sub_text(n.test) in (f"{nv}==0", f"not{nv}", f"{nv}==0.0")]
    ok = False
    if g:
        inner = [x for x in g[0].body if isinstance(x, ast.If) and A.text(x.test) == "normalize" and any(isinstance(y, ast.Raise) for y in x.body)]
        zero_t = [x for x in g[0].body if isinstance(x, ast.Assign) and A.neg_const(x.value) == 0]
        whiles = [x for x in ast.walk(ex.node) if isinstance(x, ast.While)]
        ok = bool(inner) and bool(zero_t) and bool(whiles) and A.text(zero_t[0].targets[0]) in {x.id for x in ast.walk(whiles[0].test) if isinstance(x, ast.Name)}
    if not ok and nvs:
        # other spellings of the same decision (guard clauses, merged tests): decided on the CFG specialised on "norm is 0"
        from ..core.cfg import CFG as _CFG
        cfg_ = _CFG(ex.node)
        s0 = [st for st, v, k in b[nv] if st in cfg_.node_of and isinstance(v, ast.Call) and A.callee_attr(v) == "norm"][:1]
        stmts_ = [n_.ast for n_ in cfg_.nodes if isinstance(n_.ast, ast.stmt)]
        divs = [st for st in stmts_ if any(isinstance(x, ast.BinOp) and isinstance(x.op, ast.Div) and isinstance(x.right, ast.Name) and x.right.id == nv for x in ast.walk(st))
                and not isinstance(st, (ast.If, ast.While, ast.For))]
        whiles = [x for x in ast.walk(ex.node) if isinstance(x, ast.While)]
        if s0 and whiles:
            g1 = cfg_.specialised({nv: 0, "normalize": True})
            live1 = g1.reach_from(cfg_.ids(s0))
            rets1 = [r for r in A.returns_of(ex.node) if r in cfg_.node_of and cfg_.node_of[r].id in live1]
            raises1 = [st for st in stmts_ if isinstance(st, ast.Raise) and cfg_.node_of[st].id in live1]
            g2 = cfg_.specialised({nv: 0, "normalize": False})
            live2 = g2.reach_from(cfg_.ids(s0))
            div2 = [d for d in divs if cfg_.node_of[d].id in live2]
            wnames = {x.id for x in ast.walk(whiles[0].test) if isinstance(x, ast.Name)}
            zero_t = [st for st in stmts_ if isinstance(st, ast.Assign) and A.neg_const(st.value) == 0 and A.text(st.targets[0]) in wnames
                      and cfg_.node_of[st].id in live2]
            wnode = whiles[0].test if whiles[0].test in cfg_.node_of else whiles[0]
            passes = bool(zero_t) and wnode in cfg_.node_of and not g2.path_exists(s0[0], wnode, avoiding=zero_t)
            ok = not rets1 and bool(raises1) and not div2 and passes
    chk.verdict("X2", (ex, g[0] if g else ex.node), "expmv: zero vector -> raise if normalize else nothing to propagate", True if ok else False,
                "expmv: a zero start vector must raise when it is to be normalised and otherwise skip the propagation loop")


def run_X3(chk):
    prog = chk.prog
    e7.check_krylov_combination(chk, "X3", prog.func(KRY, "eigs"))
    e7.check_krylov_combination(chk, "X3", prog.func(KRY, "expmv"))
    ls = prog.func(KRY, "lin_solver")
    adds = [c for c in ast.walk(ls.node) if isinstance(c, ast.Call) and A.callee_attr(c) == "add" and A.kwarg(c, "amplitudes") is not None]
    chk.require(len(adds) == 1, "lin_solver: assembly of the solution not found")
    c = adds[0]
    amp = A.kwarg(c, "amplitudes")
    basis = {A.text(n.targets[0].elts[0]) for n in ast.walk(ls.node) if isinstance(n, ast.Assign) and isinstance(n.value, ast.Call)
             and A.callee_attr(n.value) == "expand_krylov_space" and isinstance(n.targets[0], ast.Tuple)}
    ok = A.text(c.func.value) == ls.params[2] and len(c.args) == 1 and isinstance(c.args[0], ast.Starred) and A.text(c.args[0].value) in basis \
        and isinstance(amp, ast.List) and len(amp.elts) == 2 and A.neg_const(amp.elts[0]) == 1 and isinstance(amp.elts[1], ast.Starred)
    chk.verdict("X3", (ls, c), c, True if ok else False,
                "lin_solver: the solution must be the initial guess (amplitude 1) plus a combination of the orthonormal Krylov vectors")
    # all result vectors are produced by Tensor.add, which rejects operands of different total charge (sector preservation)
    pa = prog.func("yastn.tensor._algebra", "_pre_addition")
    g = [n for n in ast.walk(pa.node) if isinstance(n, ast.If) and "struct.n" in A.text(n.test) and any(isinstance(x, ast.Raise) for x in n.body)]
    chk.verdict("X3", (pa, g[0] if g else pa.node), g[0].test if g else "charge guard", True if g else False,
                "Tensor.add no longer rejects operands of different total charge: Krylov results may leave the symmetry sector of the start vector")
    addf = prog.func("yastn.tensor._algebra", "add")
    ok = any(A.call_name(c_) == "_pre_addition" for c_ in A.calls(addf.node))
    chk.verdict("X3", addf, "Tensor.add runs _pre_addition", True if ok else False, "Tensor.add does not test its operands")


def run_X4(chk):
    """expmv: true norm multiplied back iff normalize is False"""
    prog = chk.prog
    f = prog.func(KRY, "expmv")
    fn = f.node
    cfg = CFG(fn)
    b = A.local_bindings(fn)
    # accumulator of the norm: normv = v.norm(); normv = normv * normF with normF = norm of the small propagator column; F = F / normF
    vpar = f.params[1]
    nvs = [nm for nm, ds in b.items() for st, v, k in ds if k == "assign" and isinstance(v, ast.Call) and A.callee_attr(v) == "norm"
           and isinstance(v.func, ast.Attribute) and A.text(v.func.value) == vpar]
    chk.require(nvs, "expmv: norm of the start vector not found")
    normv = nvs[0]
    acc = [n for n in ast.walk(fn) if isinstance(n, ast.Assign) and A.text(n.targets[0]) == normv and isinstance(n.value, ast.BinOp) and isinstance(n.value.op, ast.Mult)]
    if not acc:
        chk.bad("X4", f, "normv = normv * <norm of the sub-step amplitudes>", "expmv: the running norm is never multiplied by the norm of the sub-step "
                "amplitudes: the returned vector has the wrong norm when normalize=False")
        return
    other = acc[0].value.right if A.text(acc[0].value.left) == normv else acc[0].value.left
    nf = A.text(other)
    nfdef = [v for s_, v, k in b.get(nf, []) if k == "assign"]
    fdiv = [n for n in ast.walk(fn) if isinstance(n, ast.Assign) and isinstance(n.value, ast.BinOp) and isinstance(n.value.op, ast.Div)
            and A.text(n.value.right) == nf and A.text(n.value.left) == A.text(n.targets[0])]
    ok = len(nfdef) == 1 and isinstance(nfdef[0], ast.Call) and A.callee_attr(nfdef[0]) in ("norm_matrix", "norm") and bool(fdiv) and \
        A.text(nfdef[0].args[0] if nfdef[0].args else nfdef[0].func.value) == A.text(fdiv[0].targets[0])
    chk.verdict("X4", (f, acc[0]), acc[0], True if ok else False,
                "expmv: the amplitudes of each sub-step are divided by their norm, which must be the norm of those very amplitudes and multiply the running norm")
    # the combination uses the normalised amplitudes (after the division)
    comb = [n for n in ast.walk(fn) if isinstance(n, ast.Assign) and isinstance(n.value, ast.Call) and A.callee_attr(n.value) == "add"
            and A.kwarg(n.value, "amplitudes") is not None]
    ok = bool(comb) and bool(fdiv) and A.text(A.kwarg(comb[0].value, "amplitudes")) == A.text(fdiv[0].targets[0]) and \
        cfg.must_pass([comb[0]], [fdiv[0]]) and cfg.must_pass([comb[0]], [acc[0]])
    chk.verdict("X4", (f, comb[0] if comb else fn), comb[0] if comb else "v = V[0].add(...)", True if ok else False,
                "expmv: the new vector must be assembled from the normalised amplitudes after the running norm was updated")
    # final: v = normv * v exactly when normalize is False
    fin = [n for n in ast.walk(fn) if isinstance(n, ast.Assign) and A.text(n.targets[0]) == vpar and isinstance(n.value, ast.BinOp)
           and isinstance(n.value.op, ast.Mult) and {A.text(n.value.left), A.text(n.value.right)} == {normv, vpar}]
    if not fin:
        chk.bad("X4", f, "final rescaling by the accumulated norm", "expmv: the result is never multiplied by the accumulated norm: with normalize=False "
                "the unit-norm vector is returned instead of the vector with its true norm")
        return
    off = cfg.specialised({"normalize": False})
    on = cfg.specialised({"normalize": True})
    ok_off = off.always_followed(off.entry.id, fin, strict=True)
    ok_on = cfg.node_of[fin[0]].id not in on.reach_from({on.entry.id})
    chk.verdict("X4", (f, fin[0]), "normalize=False: every return passes `v = normv * v`", True if ok_off else False,
                "expmv: with normalize=False some path returns the unit-norm vector instead of the vector with its true norm")
    chk.verdict("X4", (f, fin[0]), "normalize=True: `v = normv * v` is unreachable", True if ok_on else False,
                "expmv: with normalize=True the result is rescaled by the accumulated norm")


def run_X5(chk):
    prog = chk.prog
    ls = prog.func(KRY, "lin_solver")
    fpar, bpar = ls.params[0], ls.params[1]
    rets = [r for r in A.returns_of(ls.node) if r.value is not None]
    chk.require(len(rets) == 1 and isinstance(rets[0].value, ast.Tuple) and len(rets[0].value.elts) == 2, "lin_solver: return (vector, residual) not found")
    vec, res = rets[0].value.elts
    inl = A.Inliner(ls.node, stop={A.text(vec)})
    rexp = inl.expand(res)
    t = _sub_text(rexp)
    v = A.text(vec)
    ok = t in (f"({fpar}({v})-{bpar}).norm()", f"({bpar}-{fpar}({v})).norm()")
    chk.verdict("X5", (ls, rets[0]), f"residual = |{fpar}({v}) - {bpar}| of the returned `{v}`", True if ok else False,
                f"lin_solver: the second return value `{A.short(rexp, 60)}` is not the norm of f(x) - b evaluated at the returned vector x: the "
                f"reported residual is an estimate from the projected problem (or of another vector), not the true residual")


def run(chk):
    chk.explanation = (
        "Structural analysis of the three Krylov solvers and of the basis construction they share: Gram-Schmidt bookkeeping "
        "(what is recorded in H is what is subtracted, for the same basis vector, with the basis vector as bra), normalisation by "
        "the recorded norm with the breakdown exit before the division, start vectors divided by their own norm with zero handled "
        "first, results assembled by Tensor.add from the orthonormal basis (Tensor.add rejects other charges, so results stay in "
        "the sector), the norm bookkeeping of expmv decided separately for normalize=True/False on the CFG specialised on that "
        "parameter, and the true residual of lin_solver. Accuracy/tolerance clauses are numerical and not decided.")
    chk.trusted_base = ["python ast parser", "CFG builder with boolean-knob specialisation"]
    chk.assumptions = ["the adaptive controller of expmv (step size / Krylov dimension) and all tolerance statements are not decided"]
    chk.rule("X1", "Gram-Schmidt bookkeeping: recorded overlaps are the subtracted ones, bra = basis vector; new vector = w / recorded norm; breakdown leaves before dividing", floor=10)
    chk.rule("X2", "start vectors are divided by their own norm; zero start vectors are handled before the division", floor=7)
    chk.rule("X3", "results are combinations (Tensor.add, which rejects other charges) of the orthonormal Krylov basis / initial guess", floor=7)
    chk.rule("X4", "expmv multiplies the accumulated norm back exactly when normalize is False", floor=4)
    chk.rule("X5", "lin_solver reports the norm of f(x) - b recomputed from the returned x", floor=1)
    run_X1(chk)
    run_X2(chk)
    run_X3(chk)
    run_X4(chk)
    run_X5(chk)
    # X6: the dimension of the Krylov space is limited by the caller's ncv, constants and breakdown only.  `vector.size` is the number
    # of *stored* elements of a block-sparse tensor, not the dimension of the symmetry sector it lives in: a start vector that stores few
    # blocks (product state, set_block) would clamp the space although f leads out of the stored blocks.
    chk.rule("X6", "no Krylov dimension is derived from the number of stored elements (`.size`) of a vector", floor=4)
    prog = chk.prog
    for mod, name in ((KRY, "expmv"), (KRY, "eigs"), (KRY, "lin_solver"), (TKR, "expand_krylov_space")):
        f = prog.func(mod, name)
        vecs = set(f.params) | set(A.local_bindings(f.node))
        uses = [x for x in ast.walk(f.node) if isinstance(x, ast.Attribute) and x.attr == "size" and isinstance(x.value, ast.Name) and x.value.id in vecs
                and isinstance(x.ctx, ast.Load)]
        if not uses:
            chk.ok("X6", f, f"{f.short}: no `.size` of a vector", sample=False)
        for u in uses:
            chk.bad("X6", (f, u), u, f"{f.short}(): `{A.text(u)}` (number of stored block elements) enters the control of the Krylov iteration: for a "
                    f"block-deficient start vector the space is clamped below the dimension of the reachable sector (eigs/lin_solver stop being "
                    f"exact; expmv degenerates to a one-dimensional space and its step-size controller diverges)")

    run_X7(chk)
    run_X9(chk)
    run_X10(chk)
    from . import e10
    e10.run_U(chk, ("yastn.krylov", "yastn.tensor._krylov"), floor1=5, floor2=1)


def run_X10(chk):
    """X10: sibling agreement on what expand_krylov_space returns.  With `happy` the space is invariant and *all* returned vectors are
    genuine basis vectors; otherwise the last one is the next, not yet orthogonalised-against, candidate.  Each solver sizes its
    projected problem accordingly: m = len(basis) if happy else len(basis) - 1 -- decided per value of `happy` with reaching
    definitions on the specialised CFG (if/else, conditional expression or two statements alike)."""
    from ..core.knob import KnobEval
    prog = chk.prog
    chk.rule("X10", "the projected problem has dimension len(basis) on happy breakdown and len(basis) - 1 otherwise (all three solvers)", floor=4)
    for name in ("expmv", "eigs", "lin_solver"):
        f = prog.func(KRY, name)
        fn = f.node
        calls = [n for n in ast.walk(fn) if isinstance(n, ast.Assign) and isinstance(n.value, ast.Call) and A.callee_attr(n.value) == "expand_krylov_space"
                 and isinstance(n.targets[0], ast.Tuple) and len(n.targets[0].elts) == 3]
        chk.require(calls, f"{name}: `basis, H, happy = ..expand_krylov_space(..)` not found")
        basis, _h, hp = [A.text(e) for e in calls[0].targets[0].elts]
        # the dimension handed to square_matrix_from_dict(H, <m> (+1), ..)
        sq = [c for c in ast.walk(fn) if isinstance(c, ast.Call) and A.callee_attr(c) == "square_matrix_from_dict" and len(c.args) >= 2]
        chk.require(sq, f"{name}: square_matrix_from_dict(H, m, ..) not found")
        dim = sq[0].args[1]
        mnames = [x.id for x in ast.walk(dim) if isinstance(x, ast.Name)]
        chk.require(len(mnames) == 1, f"{name}: dimension argument `{A.text(dim)}` is not built from one local")
        mname = mnames[0]
        par = A.enclosing_map(fn)
        at = A.stmt_of(sq[0], par)
        for val, want in ((True, f"len({basis})"), (False, f"len({basis})-1")):
            ke = KnobEval(fn, {hp: val})
            vals = [v for v in ke.values(mname, at)]
            got = {_sub_text(v) if v is not None else None for v in vals}
            chk.verdict("X10", (f, at), f"{name}: {mname} = {sorted(str(g) for g in got)} when {hp} is {val}", True if got == {want} else False,
                        f"{name}(): with {hp}={val} the dimension of the projected problem is {sorted(str(g) for g in got)}, the basis returned by "
                        f"expand_krylov_space has {want} genuine vectors in that case: on a happy breakdown the last basis vector is dropped (the "
                        f"solution is wrong although the space spans the whole sector) or, without breakdown, the un-orthogonalised candidate is used")


def run_X9(chk):
    """X9: expmv advances the time by accepted steps `t_now += tau` until t_now reaches t_out.  The result is exp(t F) v only if the
    steps add up to exactly |t|: every value the step `tau` can take inside the loop is bounded by the remaining time
    `t_out - t_now` (it is that difference, or a min(..) containing it), and the value it has on entry, `t_out`, is the remaining
    time because t_now starts at 0."""
    prog = chk.prog
    chk.rule("X9", "expmv: every step is bounded by the remaining time, so accepted steps add up to exactly |t|", floor=2)
    f = prog.func(KRY, "expmv")
    fn = f.node
    b = A.local_bindings(fn)
    par = A.enclosing_map(fn)
    loops = [n for n in ast.walk(fn) if isinstance(n, ast.While) and isinstance(n.test, ast.Compare) and len(n.test.ops) == 1
             and isinstance(n.test.ops[0], ast.Lt) and isinstance(n.test.left, ast.Name) and isinstance(n.test.comparators[0], ast.Name)]
    chk.require(loops, "expmv: propagation loop `while t_now < t_out` not found")
    loop = loops[0]
    now, out = loop.test.left.id, loop.test.comparators[0].id
    adv = [n.value for n in ast.walk(loop) if isinstance(n, ast.AugAssign) and isinstance(n.op, ast.Add) and isinstance(n.target, ast.Name) and n.target.id == now
           and isinstance(n.value, ast.Name)]
    # t_now = t_now + tau  /  t_now = tau + t_now
    for n in ast.walk(loop):
        if isinstance(n, ast.Assign) and len(n.targets) == 1 and isinstance(n.targets[0], ast.Name) and n.targets[0].id == now and isinstance(n.value, ast.BinOp) \
                and isinstance(n.value.op, ast.Add):
            l_, r_ = n.value.left, n.value.right
            if isinstance(l_, ast.Name) and isinstance(r_, ast.Name) and now in (l_.id, r_.id):
                adv.append(r_ if l_.id == now else l_)
    chk.require(adv, f"expmv: `{now} += <step>` not found")
    step = adv[0].id
    rem = f"{out}-{now}"

    def bounded(e, depth=0):
        if depth > 5:
            return False
        if _sub_text(e) == rem:
            return True
        if isinstance(e, ast.Call):
            nm = (A.call_name(e) or "").split(".")[-1]
            args = list(e.args)
            if len(args) == 1 and isinstance(args[0], (ast.List, ast.Tuple)):
                args = list(args[0].elts)
            if nm == "min":
                return any(bounded(a_, depth + 1) for a_ in args)
            if nm == "max":
                return bool(args) and all(bounded(a_, depth + 1) for a_ in args)
        if isinstance(e, ast.IfExp):
            return bounded(e.body, depth + 1) and bounded(e.orelse, depth + 1)
        return False
    inside = [(st, v) for st, v, k in b.get(step, []) if v is not None and any(st is x for x in ast.walk(loop))]
    before = [(st, v) for st, v, k in b.get(step, []) if v is not None and not any(st is x for x in ast.walk(loop))]
    chk.require(inside, f"expmv: no definition of `{step}` inside the loop")
    for st, v in inside:
        chk.verdict("X9", (f, st), f"expmv: `{A.short(st, 60)}` <= {out} - {now}", True if bounded(v) else False,
                    f"expmv(): `{A.short(st, 60)}` can exceed the remaining time `{out} - {now}`: when that step is accepted the evolution runs past |t| "
                    f"(the result is exp((t_now + {step}) F) v, not exp(t F) v) -- e.g. a happy breakdown after sub-steps were already accepted")
    now0 = [v for st, v, k in b.get(now, []) if v is not None and not any(st is x for x in ast.walk(loop))]
    ok0 = bool(before) and all(A.text(v) == out or _sub_text(v) == rem for st, v in before) and bool(now0) and all(A.neg_const(v) == 0 for v in now0)
    chk.verdict("X9", (f, before[0][0] if before else fn), f"expmv: on entry {step} = {out} and {now} = 0", True if ok0 else False,
                f"expmv(): the first step is not the whole interval with {now} = 0")


def run_X7(chk):
    """X7: the controller of expmv compares the dimension m of the space it got with `ncv_max` by equality (`m == ncv_max`: shrink the
    step instead of growing the space) and bounds the next request by `min(ncv_max, ..)`.  That is only coherent if *every* value of
    `ncv` handed to expand_krylov_space is <= ncv_max; a first request above it (the caller's ncv) yields m > ncv_max, the equality
    never holds, the next request is clamped below the size of the space already built, expand_krylov_space adds nothing and the loop
    repeats the same rejected step for ever (expmv(.., ncv=31) does not return)."""
    prog = chk.prog
    chk.rule("X7", "expmv: every value of the requested Krylov dimension is bounded by the maximal dimension the controller tests for", floor=2)
    f = prog.func(KRY, "expmv")
    b = A.local_bindings(f.node)
    eq = [c for c in ast.walk(f.node) if isinstance(c, ast.Compare) and len(c.ops) == 1 and isinstance(c.ops[0], ast.Eq)
          and isinstance(c.comparators[0], ast.Name) and isinstance(c.left, ast.Name) and "max" in c.comparators[0].id]
    if not eq:
        chk.note("X7: the controller no longer tests the dimension of the space against a maximal dimension by equality; rule not applicable")
        return
    bound = eq[0].comparators[0].id
    call = [c for c in ast.walk(f.node) if isinstance(c, ast.Call) and A.callee_attr(c) == "expand_krylov_space"]
    chk.require(call, "expmv: call of expand_krylov_space not found")
    names = f.node.args
    ek = prog.func(TKR, "expand_krylov_space")
    idx = ek.params.index("ncv") - 1 if "ncv" in ek.params else None
    req = A.kwarg(call[0], "ncv") or (call[0].args[idx] if idx is not None and idx < len(call[0].args) else None)
    chk.require(isinstance(req, ast.Name), "expmv: the requested dimension passed to expand_krylov_space is not a local name")
    var = req.id
    bconst = [v for st, v, k in b.get(bound, []) if isinstance(v, ast.Constant) and isinstance(v.value, int)]
    bval = bconst[0].value if len(bconst) == len(b.get(bound, [])) == 1 else None

    def bounded(e, depth=0):
        if depth > 6:
            return False
        if isinstance(e, ast.Name):
            if e.id == bound:
                return True
            ds = [v for st, v, k in b.get(e.id, []) if k == "assign"]
            return bool(ds) and e.id != var and e.id not in f.params and all(v is not None and bounded(v, depth + 1) for v in ds)
        if isinstance(e, ast.Constant) and isinstance(e.value, (int, float)):
            return bval is not None and e.value <= bval
        if isinstance(e, ast.Call):
            nm = (A.call_name(e) or "").split(".")[-1]
            args = list(e.args)
            if len(args) == 1 and isinstance(args[0], (ast.List, ast.Tuple)):
                args = list(args[0].elts)
            if nm == "min":
                return any(bounded(a_, depth + 1) for a_ in args)
            if nm == "max":
                return bool(args) and all(bounded(a_, depth + 1) for a_ in args)
            if nm in ("int", "ceil", "floor", "round") and len(args) == 1:
                return bounded(args[0], depth + 1)
        return False
    defs = [(st, v) for st, v, k in b.get(var, []) if v is not None]
    chk.require(defs, f"expmv: no definition of `{var}` found")
    for st, v in defs:
        ok = bounded(v)
        chk.verdict("X7", (f, st), f"expmv: `{A.short(st, 60)}` <= {bound}", True if ok else False,
                    f"expmv(): `{A.short(st, 70)}` lets the requested dimension `{var}` exceed `{bound}`, while the controller recognises a full space only by "
                    f"`{A.text(eq[0])}` and clamps later requests by min({bound}, ..): for a caller's ncv above {bval if bval is not None else bound} the "
                    f"rejected step is repeated with a request smaller than the space already built -- the call never returns")

MUTANTS = [
    ('shared Hessenberg dictionary', 'yastn/tensor/_krylov.py', 'def expand_krylov_space(self, f, tol, ncv, hermitian, V, H=None, **kwargs):', 'def expand_krylov_space(self, f, tol, ncv, hermitian, V, H={}, **kwargs):', 'U6'),
    ('lin_solver drops the last basis vector on happy breakdown', 'yastn/krylov/_krylov.py', '    m = len(Q) if happy else len(Q) - 1\n    H[(m,m-1)] = H[(0,0)] * 0 + tol if happy else H[(m,m-1)]', '    m = len(Q) - 1\n    if happy:\n        H[(m,m-1)] = H[(0,0)] * 0 + tol', 'X10'),
    ('happy breakdown evolves the whole interval', 'yastn/krylov/_krylov.py', '        if happy:\n            tau = t_out - t_now\n', '        if happy:\n            tau = t_out\n', 'X9'),
    ('lin_solver rhs is |b|', 'yastn/krylov/_krylov.py', "    q0 = b - f(v0)\n    normv = q0.norm()\n    if normv == 0:\n        raise YastnError('Initial vector v0 of lin_solver should be nonzero.')\n    Q = [q0 / normv]", "    normv = b.norm()\n    if normv == 0:\n        raise YastnError('Initial vector v0 of lin_solver should be nonzero.')\n    q0 = b - f(v0)\n    Q = [q0 / q0.norm()]", 'X2'),
    ("Krylov space clamped by stored size", "yastn/krylov/_krylov.py", "    ncv_max = 30  # Krylov space parameters; its true maximal dimension shows up as happy breakdown", "    ncv_max = min([30, v.size])", "X6"),
    ("initial request not bounded by ncv_max", "yastn/krylov/_krylov.py", "    ncv = min(max(1, ncv), ncv_max)\n", "    ncv = max(1, ncv)\n", "X7"),
    ("Arnoldi: ket/bra swapped", "yastn/tensor/_krylov.py", "                H[(i, j)] = V[i].vdot(w)", "                H[(i, j)] = w.vdot(V[i])", "X1"),
    ("Lanczos: subtract previous with diagonal coefficient", "yastn/tensor/_krylov.py", "amplitudes=[1, -H[(j - 1, j)], -H[(j, j)]]", "amplitudes=[1, -H[(j, j)], -H[(j - 1, j)]]", "X1"),
    ("divide before breakdown test", "yastn/tensor/_krylov.py", "        if H[(j + 1, j)] < tol:\n            happy = True\n            H.pop((j + 1, j))\n            break\n        V.append(w / H[(j + 1, j)])",
     "        V.append(w / H[(j + 1, j)])\n        if H[(j + 1, j)] < tol:\n            happy = True\n            H.pop((j + 1, j))\n            break", "X1"),
    ("eigs start not normalised", "yastn/krylov/_krylov.py", "    V = [v0 / normv]\n    V, H, happy = v0.expand_krylov_space(f, 1e-13, ncv, hermitian, V, **kwargs)", "    V = [v0]\n    V, H, happy = v0.expand_krylov_space(f, 1e-13, ncv, hermitian, V, **kwargs)", "X2"),
    ("expmv always rescales", "yastn/krylov/_krylov.py", "    if not normalize:\n        v = normv * v", "    if normalize:\n        v = normv * v", "X4"),
    ("expmv forgets sub-step norm", "yastn/krylov/_krylov.py", "            normv = normv * normF\n", "", "X4"),
    ("lin_solver residual from projected problem", "yastn/krylov/_krylov.py", "    res = f(vf) - b\n    return vf, res.norm()", "    res = T @ y - be1\n    return vf, backend.norm_matrix(res)", "X5"),
    ("lin_solver combines without initial guess", "yastn/krylov/_krylov.py", "    vf = v0.add(*Q, amplitudes = [1,*y], **kwargs)", "    vf = Q[0].add(*Q[1:], amplitudes=[*y], **kwargs)", "X3"),
]
BENIGN = [
    ("residual with opposite sign", "yastn/krylov/_krylov.py", "    res = f(vf) - b\n", "    res = b - f(vf)\n"),
    ("norm guard as `not normv`", "yastn/krylov/_krylov.py", "    normv = v0.norm()\n    if normv == 0:\n        raise YastnError('Initial vector v0 of eigs should be nonzero.')", "    normv = v0.norm()\n    if not normv:\n        raise YastnError('Initial vector v0 of eigs should be nonzero.')"),
]
