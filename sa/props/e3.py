"""E3 rules over the tensor layer: L1 (index spaces), L4 (negative axes), I2 (reset permutation), L3 (parallel
construction of s / hfs / mfs).  Shared by C01, C02, C03, C14."""
from __future__ import annotations

import ast

from ..core import astutil as A
from ..core.cfg import CFG
from ..core.errors import AnalysisError
from ..core.legspace import LegSpace, Idx, Tup, META, LNAT, NAT, BOTH, USER

T = "yastn.tensor."
MODULES = [T + "_contractions", T + "_single", T + "_merging", T + "linalg", T + "_algebra", T + "_output", T + "_tests",
           T + "_initialize", "yastn.initialize"]


def M(t):
    return Idx(META, t)


def N(t):
    return Idx(NAT, t)


def Lg(t):
    return Idx(LNAT, t)


# parameter seeds: function -> {param: type}
SEEDS = {
    "tensordot": {"axes": Tup((M("a"), M("b")))},
    "_tensordot_diag": {"in_b": M("b")},
    "_tensordot_f2m": {"nout_a": N("a"), "nin_a": N("a"), "nin_b": N("b"), "nout_b": N("b")},
    "_tensordot_fc": {"nout_a": N("a"), "nin_a": N("a"), "nin_b": N("b"), "nout_b": N("b")},
    "_tensordot_nf": {"nout_a": N("a"), "nin_a": N("a"), "nin_b": N("b"), "nout_b": N("b")},
    "trace": {"axes": Tup((M("a"), M("a")))},
    "broadcast": {"axes": Idx(META, "*")},
    "apply_mask": {"axes": Idx(META, "*")},
    "_apply_mask_axes": {"naxes": N("a")},
    "swap_gate": {"axes": M("a")},
    "fuse_legs": {"axes": M("a")},
    "_fuse_legs_hard": {"axes": Lg("a"), "order": Lg("a")},
    "unfuse_legs": {"axes": M("a")},
    "flip_charges": {"axes": M("a")},
    "drop_leg_history": {"axes": M("a")},
    "transpose": {"axes": M("a")},
    "moveaxis": {"source": M("a"), "destination": M("a")},
    "add_leg": {"axis": M("a")},
    "remove_leg": {"axis": M("a")},
    "svd": {"axes": Tup((M("a"), M("a")))},
    "qr": {"axes": Tup((M("a"), M("a")))},
    "eigh": {"axes": Tup((M("a"), M("a")))},
    "eig": {"axes": Tup((M("a"), M("a")))},
    "_merge_to_matrix": {"axes": Tup((N("a"), N("a")))},
    "_mask_tensors_leg_intersection": {"axa": N("a"), "axb": N("b")},
    "_unpack_trans_test_axes_pair": {"axes": Tup((M("a"), M("b")))},
    "_test_axes_all": {},
    "_meta_trace": {"nin_0": N("struct"), "nin_1": N("struct"), "out": N("struct")},
    "_meta_broadcast": {"axis": N("b_struct")},
    "_meta_mask": {"axis": N("a_struct")},
    "_meta_swap_gate": {"axes": N("tset")},
    "_meta_swap_gate_charge": {"axes": N("tset")},
    "_meta_fuse_hard": {"axes": Tup(()), },
    "_meta_unfuse_hard": {"axes": N("struct")},
    "_leg_struct_trivial": {"axis": N("struct")},
    "get_legs": {"axes": Idx(USER, "a")},
    "get_shape": {"axes": Idx(USER, "a")},
    "get_signature": {},
}

# typed parameters of callees: name -> {arg position | keyword: (space, position of the tensor argument | '*')}
CALLEES = {
    "_meta_broadcast": {4: (NAT, "*")},
    "_meta_mask": {5: (NAT, "*")},
    "_meta_swap_gate": {4: (NAT, "*")},
    "_meta_swap_gate_charge": {5: (NAT, "*")},
    "_meta_trace": {2: (NAT, "*"), 3: (NAT, "*"), 4: (NAT, "*")},
    "_meta_unfuse_hard": {3: (NAT, "*")},
    "_merge_to_matrix": {1: (NAT, 0)},
    "_apply_mask_axes": {1: (NAT, 0)},
    "_mask_tensors_leg_intersection": {2: (NAT, 0), 3: (NAT, 1)},
    "_tensordot_f2m": {2: (NAT, 0), 3: (NAT, 0), 4: (NAT, 1), 5: (NAT, 1)},
    "_tensordot_fc": {2: (NAT, 0), 3: (NAT, 0), 4: (NAT, 1), 5: (NAT, 1)},
    "_tensordot_nf": {2: (NAT, 0), 3: (NAT, 0), 4: (NAT, 1), 5: (NAT, 1)},
    "_fuse_legs_hard": {1: (LNAT, 0), 2: (LNAT, 0)},
    "_common_inds": {2: (NAT, "*"), 3: (NAT, "*")},
    "_meta_fuse_hard": {3: (NAT, "*")},
    "_combine_hfs_prod": {4: (NAT, "*")},
    "_leg_struct_trivial": {},
    # public operations called internally with META axes
    "transpose": {"__method__": True, 1: (META, 0), "axes": (META, 0)},
    "moveaxis": {"__method__": True, 1: (META, 0), 2: (META, 0), "source": (META, 0), "destination": (META, 0)},
    "broadcast": {"__method__": True},
    "trace": {"__method__": True, 1: (META, 0), "axes": (META, 0)},
}


def functions(prog):
    out = []
    for mn in MODULES:
        m = prog.module(mn)
        for f in m.funcs.values():
            out.append(f)
    T_ = prog.cls("yastn.tensor", "Tensor")
    return out


def run_L1(chk, rule="L1", floor=100, only=None):
    """index-space typing of every per-leg lookup in the tensor layer (`only`: restrict to the named functions)"""
    prog = chk.prog
    chk.rule(rule, "every per-leg lookup uses an index of the right space (meta / logical-native / native)", floor=floor)
    n_sinks = n_def = 0
    undecided = 0
    for f in functions(prog):
        if only is not None and f.name not in only:
            continue
        seeds = SEEDS.get(f.name, {})
        src = A.text(f.node)
        if not any(k in src for k in (".trans", ".mfs", ".hfs", "struct.s", "nin_", "nout_", "_unpack_axes")):
            continue
        ls = LegSpace(f, seeds=dict(seeds), nat_params=CALLEES)
        try:
            ls.run()
        except RecursionError:
            raise AnalysisError(f"legspace: recursion in {f.qualname}")
        seen = set()
        for node, need, got, ok, what in ls.sinks:
            key = (getattr(node, "lineno", 0), getattr(node, "col_offset", 0), need, what)
            if key in seen:
                continue
            seen.add(key)
            n_sinks += 1
            if ok is True:
                n_def += 1
                chk.ok(rule, (f, node if isinstance(node, ast.AST) else f.node), f"{what}: {need}", {"found": repr(got)}, sample=n_def <= 4)
            elif ok is None:
                undecided += 1
        seenf = set()
        for fd in ls.findings:
            key = (getattr(fd.node, "lineno", 0), fd.msg)
            if key in seenf:
                continue
            seenf.add(key)
            chk.bad(rule, (f, fd.node if fd.node is not None else f.node), fd.node if fd.node is not None else fd.msg,
                    f"{f.short}(): {fd.msg}. The three index spaces coincide only for tensors without meta-fusion and without a "
                    f"pending (lazy) transposition — exactly the inputs the tests use; for all others the wrong leg is addressed",
                    fd.facts)
    chk.extra["index_sinks_total"] = n_sinks
    chk.extra["index_sinks_definite"] = n_def
    chk.extra["index_sinks_undecided"] = undecided


# ------------------------------------------------------------------------- L4
def run_L4(chk, rule="L4"):
    """a META parameter with a negative default is normalised before any positional use"""
    prog = chk.prog
    chk.rule(rule, "axis parameters that admit negative values are normalised (% ndim) before use in slices/arithmetic", floor=2)
    for f in functions(prog):
        a = f.node.args
        pos = a.posonlyargs + a.args
        defaults = dict(zip([x.arg for x in pos[len(pos) - len(a.defaults):]], a.defaults))
        for p, d in defaults.items():
            if p not in ("axis",) or A.neg_const(d) is None or A.neg_const(d) >= 0:
                continue
            cfg = CFG(f.node)
            norm = [n for n in A.walk_local(f.node, include_self=False) if isinstance(n, ast.Assign) and A.text(n.targets[0]) == p
                    and isinstance(n.value, ast.BinOp) and isinstance(n.value.op, ast.Mod) and A.text(n.value.left) == p]
            if not norm:
                chk.bad(rule, f, f"{f.short}: `{p}`", f"{f.short}(): parameter `{p}` (default {A.text(d)}) is never normalised by `% ndim`")
                continue
            uses = []
            parent = A.enclosing_map(f.node)
            for n in A.walk_local(f.node, include_self=False):
                if isinstance(n, ast.Name) and n.id == p and isinstance(n.ctx, ast.Load):
                    st = A.stmt_of(n, parent)
                    if st is norm[0]:
                        continue
                    uses.append((n, st))
            bad = []
            for n, st in uses:
                tgt = st
                node = cfg.node_of.get(tgt) or cfg.node_of.get(getattr(tgt, "test", None))
                if node is None:
                    # statement is a compound one: take its test
                    continue
                if not cfg.must_pass([node], [norm[0]]):
                    bad.append((n, st))
            if bad:
                n, st = bad[0]
                chk.bad(rule, (f, st), st, f"{f.short}(): `{p}` (default {A.text(d)}, may be negative) is used in `{A.short(st, 60)}` before it is "
                        f"normalised by `{A.short(norm[0], 40)}`: slices and offsets computed from a negative axis address the wrong legs")
            else:
                chk.ok(rule, (f, norm[0]), norm[0], {"uses_after_normalisation": len(uses)})


# ------------------------------------------------------------------------- I2
def _replace_calls(fn):
    return [c for c in A.calls(fn) if isinstance(c.func, ast.Attribute) and c.func.attr == "_replace"
            and any(k.arg in ("struct", "data", "hfs", "mfs", "trans", "slices") for k in c.keywords)]


_TRANS_READERS = {}


def trans_readers(prog):
    """names of tensor-layer functions whose return value depends on a read of `<tensor>.trans` (directly or through another such
    function): a call of one of them accounts for the pending permutation just like an explicit read"""
    key = id(prog)
    if key in _TRANS_READERS:
        return _TRANS_READERS[key]
    readers = {"consume_transpose"}
    fs = functions(prog)
    changed = True
    rounds = 0
    while changed and rounds < 4:
        changed = False
        rounds += 1
        for f in fs:
            if f.name in readers:
                continue
            b = A.local_bindings(f.node)
            tainted = set()

            def dep(node):
                for n in ast.walk(node):
                    if isinstance(n, ast.Attribute) and n.attr == "trans":
                        return True
                    if isinstance(n, ast.Call) and ((A.call_name(n) or "").split(".")[-1] in readers or A.callee_attr(n) in readers):
                        return True
                    if isinstance(n, ast.Name) and isinstance(n.ctx, ast.Load) and n.id in tainted:
                        return True
                return False
            ch2 = True
            while ch2:
                ch2 = False
                for nm, defs in b.items():
                    if nm not in tainted and any(v is not None and dep(v) for _, v, _ in defs):
                        tainted.add(nm)
                        ch2 = True
            rets = [r for r in A.returns_of(f.node) if r.value is not None]
            if rets and all(dep(r.value) for r in rets):
                readers.add(f.name)
                changed = True
    _TRANS_READERS[key] = readers
    return readers


def run_I2(chk, rule="I2"):
    """where the pending permutation is reset (trans=None / identity) struct and hfs are in native order *after*
    applying `trans`: they data- or control-depend on a read of X.trans (or come from a tensor whose permutation
    was consumed), and hfs is given explicitly."""
    prog = chk.prog
    chk.rule(rule, "results that reset the lazy permutation carry struct/hfs permuted through `trans`", floor=14)
    run_I2r(chk, rule)
    readers = trans_readers(prog)
    for f in functions(prog):
        calls = []
        b0 = A.local_bindings(f.node)
        for c in _replace_calls(f.node):
            tr = A.kwarg(c, "trans")
            if tr is None:
                # a result whose leg structure is rebuilt from scratch (mfs/hfs reset to the defaults, or a struct constructed by
                # _struct(...) with its own signature) has another number / numbering of native legs: the pending permutation of the
                # operand cannot be inherited
                kws0 = {k.arg: k.value for k in c.keywords}
                reset = [k for k in ("mfs", "hfs") if k in kws0 and isinstance(kws0[k], ast.Constant) and kws0[k].value is None]
                sv = kws0.get("struct")
                fresh = False
                def own_signature(v):
                    """_struct(...) whose signature is not simply that of an existing tensor's native legs"""
                    if not (isinstance(v, ast.Call) and A.call_name(v) == "_struct"):
                        return False
                    sk = A.kwarg(v, "s")
                    return not (sk is not None and A.text(sk).endswith(".struct.s"))
                if isinstance(sv, ast.Name):
                    dv = [v for st, v, k in b0.get(sv.id, []) if k == "assign" and v is not None]
                    fresh = bool(dv) and all(own_signature(v) for v in dv)
                elif sv is not None:
                    fresh = own_signature(sv)
                if reset or fresh:
                    chk.bad(rule, (f, c), c, f"{f.short}(): the result gets a leg structure built from scratch ({'reset ' + '/'.join(reset) if reset else 'struct from _struct(...)'}) "
                            f"but inherits `trans` of the operand: the permutation has one entry per native leg of the *operand*; with another number "
                            f"of legs (e.g. meta-fused legs merged by to_nonsymmetric(native=False)) the result is ill-formed and the next "
                            f"consume_transpose()/to_numpy() fails", {"reset": reset, "fresh_struct": fresh})
                continue
            if (isinstance(tr, ast.Constant) and tr.value is None) or A.text(tr) in ("no_trans",):
                calls.append((c, tr))
        if not calls:
            continue
        fn = f.node
        b = A.local_bindings(fn)
        parent = A.enclosing_map(fn)
        # taint: names depending on a read of `.trans` (data or control)
        tainted = set()

        def reads_trans(node):
            for n in ast.walk(node):
                if isinstance(n, ast.Attribute) and n.attr == "trans":
                    return True
                if isinstance(n, ast.Call) and ((A.call_name(n) or "").split(".")[-1] in readers or A.callee_attr(n) in readers):
                    return True
                if isinstance(n, ast.Name) and isinstance(n.ctx, ast.Load) and n.id in tainted:
                    return True
            return False
        # parameters that are native by contract (helpers receiving NAT axes)
        seeds = SEEDS.get(f.name, {})
        for p, t in seeds.items():
            if isinstance(t, Idx) and t.space in (NAT, LNAT) or isinstance(t, Tup) and any(isinstance(e, Idx) and e.space in (NAT, LNAT) for e in t.elts):
                tainted.add(p)
        # values appended/extended into local lists count as definitions of the list
        b = {k: list(v) for k, v in b.items()}
        for n in A.walk_local(fn, include_self=False):
            if isinstance(n, ast.Call) and isinstance(n.func, ast.Attribute) and n.func.attr in ("append", "extend", "insert") \
                    and isinstance(n.func.value, ast.Name) and n.args:
                b.setdefault(n.func.value.id, []).append((A.stmt_of(n, parent), n.args[-1], "append"))
        changed = True
        while changed:
            changed = False
            for name, defs in b.items():
                if name in tainted:
                    continue
                for st, val, kind in defs:
                    dep = val is not None and reads_trans(val)
                    # control dependence: assignment inside an `if` whose test reads trans
                    cur = st
                    while not dep and cur in parent:
                        cur = parent[cur]
                        if isinstance(cur, ast.If) and reads_trans(cur.test):
                            dep = True
                    if dep:
                        tainted.add(name)
                        changed = True
                        break
        for c, tr in calls:
            recv = A.text(c.func.value)
            kws = {k.arg: k.value for k in c.keywords}
            # diagonal / rank-0 results have no leg order to permute
            facts = {"receiver": recv, "trans": A.text(tr)}
            # hfs explicit
            if "hfs" not in kws:
                chk.bad(rule, (f, c), c, f"{f.short}(): the result resets the pending permutation (trans={A.text(tr)}) but inherits `hfs` of "
                        f"`{recv}` implicitly, i.e. in the order *before* the permutation: a lazily transposed operand yields legs whose "
                        f"fusion history belongs to other legs", facts)
                continue
            for fld in ("struct", "hfs"):
                if fld not in kws:
                    continue
                v = kws[fld]
                ok = reads_trans(v)
                if not ok and fld == "hfs" and isinstance(v, ast.Constant) and v.value is None:
                    ok = True          # default (trivial) fusion records for every leg of a rebuilt structure
                # fresh-leg constants only (S of svd: two new legs)
                if not ok:
                    names = {n.id for n in ast.walk(v) if isinstance(n, ast.Name) and isinstance(n.ctx, ast.Load)}
                    if fld == "hfs" and all(isinstance(e, ast.Call) and A.call_name(e) == "_Fusion" for e in (v.elts if isinstance(v, ast.Tuple) else [])) and isinstance(v, ast.Tuple):
                        ok = True
                    elif isinstance(v, ast.Name) and fld == "hfs" and any(
                            isinstance(val, ast.Tuple) and val.elts and all(isinstance(e_, ast.Call) and A.call_name(e_) == "_Fusion" for e_ in val.elts)
                            for st_, val, kind in b.get(v.id, [])):
                        ok = True      # legs created by this operation only (S of svd/eig/eigh)
                    elif isinstance(v, ast.Name):
                        # struct produced by a _meta_* call that received tainted (native) arguments
                        for st_, val, kind in b.get(v.id, []):
                            if isinstance(val, ast.Call) and reads_trans(val):
                                ok = True
                            if isinstance(val, ast.Call) and (A.call_name(val) or "").startswith(("_meta_", "_merge_to_matrix")):
                                # struct of a matrix built from a trans-mapped merge
                                if any(reads_trans(a_) for a_ in val.args):
                                    ok = True
                if ok:
                    chk.ok(rule, (f, c), f"{A.short(c, 60)}: {fld}", dict(facts, field=fld, depends_on_trans=True), sample=False)
                else:
                    chk.bad(rule, (f, c), f"{A.short(c, 70)}: {fld}", f"{f.short}(): the result resets the pending permutation (trans={A.text(tr)}) "
                            f"but its `{fld}` (`{A.short(v, 50)}`) does not depend on `{recv}.trans`: for a lazily transposed operand the "
                            f"native order of the result does not match its legs", dict(facts, field=fld))


def run_I2r(chk, rule="I2"):
    """the converse of I2: a result whose per-leg sequences (signature, fusion records) were *already reordered through* the pending
    permutation must reset it -- inheriting `trans` applies the permutation a second time."""
    prog = chk.prog
    n_pos = 0
    for f in functions(prog):
        fn = f.node
        if "_replace" not in A.text(fn) or "trans" not in A.text(fn):
            continue
        b = A.local_bindings(fn)
        parent = A.enclosing_map(fn)

        def reads_trans(node):
            return any(isinstance(n, ast.Attribute) and n.attr == "trans" for n in ast.walk(node))

        def reversing(node):
            return any(isinstance(n, ast.Subscript) and isinstance(n.slice, ast.Slice) and n.slice.step is not None and A.neg_const(n.slice.step) == -1
                       and n.slice.lower is None and n.slice.upper is None for n in ast.walk(node))

        def permuting(node):
            for n in ast.walk(node):
                if isinstance(n, (ast.GeneratorExp, ast.ListComp)) and len(n.generators) == 1 and reads_trans(n.generators[0].iter) \
                        and isinstance(n.generators[0].target, ast.Name):
                    v_ = n.generators[0].target.id
                    if any(isinstance(x, ast.Subscript) and isinstance(x.slice, ast.Name) and x.slice.id == v_
                           and any(A.text(x.value).endswith(sf) for sf in (".hfs", ".struct.s", "struct.s")) for x in ast.walk(n.elt)):
                        return True
            return False
        reordered = {}
        changed = True
        while changed:
            changed = False
            for name, defs in b.items():
                if name in reordered:
                    continue
                for st, val, kind in defs:
                    if val is None or kind not in ("assign", "unpack"):
                        continue
                    hit = None
                    if permuting(val):
                        hit = st
                    elif reversing(val):
                        if any(isinstance(x, ast.IfExp) and reads_trans(x.test) and (reversing(x.body) or reversing(x.orelse)) for x in ast.walk(val)):
                            hit = st
                        cur = st
                        while cur in parent:
                            cur = parent[cur]
                            if isinstance(cur, ast.If) and reads_trans(cur.test):
                                hit = st
                                break
                    elif any(isinstance(x, ast.Name) and isinstance(x.ctx, ast.Load) and x.id in reordered for x in ast.walk(val)) \
                            and isinstance(val, ast.Call) and isinstance(val.func, ast.Attribute) and val.func.attr == "_replace":
                        hit = st
                    if hit is not None:
                        reordered[name] = hit
                        changed = True
                        break
        if not reordered:
            continue
        for c in _replace_calls(fn):
            kws = {k.arg: k.value for k in c.keywords}
            used = [fld for fld in ("struct", "hfs") if fld in kws and any(isinstance(x, ast.Name) and x.id in reordered for x in ast.walk(kws[fld]))]
            if not used or "data" not in kws:
                continue        # `X.struct._replace(s=...)` builds a struct, not a tensor
            n_pos += 1
            if "trans" in kws:
                chk.ok(rule, (f, c), f"{A.short(c, 60)}: {'/'.join(used)} reordered through trans, trans reset", sample=n_pos <= 2)
            else:
                chk.bad(rule, (f, c), c, f"{f.short}(): `{'/'.join(used)}` of the result were already reordered according to the pending permutation "
                        f"(`{A.short(reordered[[x.id for x in ast.walk(kws[used[0]]) if isinstance(x, ast.Name) and x.id in reordered][0]], 50)}`), "
                        f"but the result inherits `trans` of the operand: the permutation is applied a second time and the legs of a lazily transposed "
                        f"operand come out with the un-transposed signature / fusion records")
    chk.extra["results_reordered_through_trans"] = n_pos
    if n_pos < 1:
        chk.note("I2 (converse): no result whose per-leg sequences are reordered through `trans` was recognised (one instance, diag, on the pinned tree)")


# ------------------------------------------------------------------------- L3
def _segments(node, inl):
    """normalise `tuple(X.f[i] for i in SEQ) + (lit,) + ...` to [(field, tensor, seq text) | ('lit', text)]"""
    node = inl.expand(node) if inl is not None else node
    out = []

    def flat(n):
        if isinstance(n, ast.BinOp) and isinstance(n.op, ast.Add):
            flat(n.left)
            flat(n.right)
        elif isinstance(n, ast.Call) and A.call_name(n) == "tuple" and len(n.args) == 1 and isinstance(n.args[0], ast.Call) \
                and (A.call_name(n.args[0]) or "").split(".")[-1] == "chain" and n.args[0].args and not n.args[0].keywords:
            # tuple(chain(g1, g2, ..)) == tuple(g1) + tuple(g2) + ..
            for g_ in n.args[0].args:
                if isinstance(g_, (ast.GeneratorExp, ast.ListComp)):
                    flat(ast.Call(func=ast.Name(id="tuple", ctx=ast.Load()), args=[g_], keywords=[]))
                else:
                    flat(g_)
        elif isinstance(n, ast.Tuple) and n.elts and all(isinstance(e, ast.Starred) for e in n.elts):
            # (*g1, *g2) likewise
            for e in n.elts:
                v_ = e.value
                flat(ast.Call(func=ast.Name(id="tuple", ctx=ast.Load()), args=[v_], keywords=[]) if isinstance(v_, (ast.GeneratorExp, ast.ListComp)) else v_)
        else:
            out.append(n)
    flat(node)
    segs = []
    for n in out:
        g = None
        if isinstance(n, ast.Call) and A.call_name(n) == "tuple" and len(n.args) == 1 and isinstance(n.args[0], (ast.GeneratorExp, ast.ListComp)):
            g = n.args[0]
        if g is not None and len(g.generators) == 1:
            elt = g.elt
            gen = g.generators[0]
            if isinstance(elt, ast.Subscript) and A.text(elt.slice) == A.text(gen.target):
                base = A.text(elt.value)
                for fld in (".struct.s", ".hfs", ".mfs"):
                    if base.endswith(fld):
                        conds = " if ".join(A.text(c) for c in gen.ifs)
                        segs.append((fld.strip("."), base[: -len(fld)], A.text(gen.iter) + ((" if " + conds) if conds else "")))
                        break
                else:
                    segs.append(("?", A.text(n)))
                continue
        if isinstance(n, ast.Tuple):
            segs.append(("lit", len(n.elts), A.text(n)))
        else:
            segs.append(("?", A.text(n)))
    return segs



def _native_provenance(fn, prog=None, module=None, depth=2):
    """native leg sequence name -> meta leg sequence name it was unpacked from (through private helpers of the module as well)"""
    prov = {}
    for n in A.walk_local(fn, include_self=False):
        if not (isinstance(n, ast.Assign) and isinstance(n.value, ast.Call)):
            continue
        cn = A.call_name(n.value)
        tg = n.targets[0]
        if prog is not None and depth > 0 and isinstance(n.value.func, ast.Name) and cn not in ("_unpack_axes", "_unpack_trans_test_axes_pair") \
                and isinstance(tg, (ast.Tuple, ast.List)):
            g = prog.resolve(module, cn) if module is not None else None
            if hasattr(g, "node") and hasattr(g, "params"):
                gp = _native_provenance(g.node, prog, g.module, depth - 1)
                rets = [r for r in A.returns_of(g.node) if r.value is not None and isinstance(r.value, ast.Tuple)]
                if len(rets) == 1 and len(rets[0].value.elts) == len(tg.elts):
                    for t, e in zip(tg.elts, rets[0].value.elts):
                        src = gp.get(A.text(e))
                        if isinstance(t, ast.Name) and src in g.params:
                            i = g.params.index(src)
                            if i < len(n.value.args):
                                prov[t.id] = A.text(n.value.args[i])
            continue
        if cn == "_unpack_axes" and isinstance(tg, (ast.Tuple, ast.List)):
            metas = n.value.args[1:]
            for t, m in zip(tg.elts, metas):
                if isinstance(t, ast.Name):
                    prov[t.id] = A.text(m)
        elif cn == "_unpack_trans_test_axes_pair" and isinstance(tg, ast.Tuple) and len(tg.elts) == 2 and isinstance(tg.elts[1], ast.Tuple):
            ax = A.kwarg(n.value, "axes")
            if isinstance(ax, ast.Tuple):
                for t, m in zip(tg.elts[1].elts, ax.elts):
                    if isinstance(t, ast.Name):
                        prov[t.id] = A.text(m)
    return prov


def _excl(seq):
    import re
    m = re.match(r"^(?:range\(\w+\.ndim\)|\w+\.trans) if (\w+) not in (\w+)$", seq)
    return m.group(2) if m else seq


def _seq_corresponds(mseq, nseq, prov):
    import re
    if re.fullmatch(r"\w+", mseq) and re.fullmatch(r"\w+", nseq):
        return prov.get(nseq) == mseq if nseq in prov else None
    mm = re.match(r"^range\((\w+)\.ndim\) if (\w+) not in (\w+)$", mseq)
    nn = re.match(r"^(\w+)\.trans if (\w+) not in (\w+)$", nseq)
    if mm and nn:
        if mm.group(1) != nn.group(1):
            return False
        return prov.get(nn.group(3)) == mm.group(3) if nn.group(3) in prov else None
    return None

def discover_triples(f):
    """(signature name, hfs name, mfs name) of every result `X._replace(struct=ST, hfs=H, mfs=M, ..)` of function f, the signature being
    the local that enumerates `.struct.s` and was handed to the call that produced ST; [] when nothing is recognised"""
    b = A.local_bindings(f.node)
    sig_cands = {nm for nm, ds in b.items() if any(k == "assign" and v is not None and any(sg[0] == "struct.s" for sg in _segments(v, None)) for st_, v, k in ds)}
    found = []
    n_repl = sum(1 for c in A.calls(f.node) if isinstance(c.func, ast.Attribute) and c.func.attr == "_replace"
                 and any(k.arg == "hfs" and isinstance(k.value, ast.Name) for k in c.keywords) and any(k.arg == "mfs" and isinstance(k.value, ast.Name) for k in c.keywords))
    for c in A.calls(f.node):
        if not (isinstance(c.func, ast.Attribute) and c.func.attr == "_replace"):
            continue
        kw = {k.arg: k.value for k in c.keywords if k.arg}
        if not (isinstance(kw.get("hfs"), ast.Name) and isinstance(kw.get("mfs"), ast.Name) and isinstance(kw.get("struct"), ast.Name)):
            continue
        sname = None
        for st_, v, k in b.get(kw["struct"].id, []):
            if isinstance(v, ast.Call):
                hit = [a_.id for a_ in list(v.args) + [k_.value for k_ in v.keywords] if isinstance(a_, ast.Name) and a_.id in sig_cands]
                if hit:
                    sname = hit[-1]
        if sname is None and n_repl == 1:
            others = [nm for nm in sig_cands]
            sname = others[0] if len(others) == 1 else None
        if sname is not None and (sname, kw["hfs"].id, kw["mfs"].id) not in found:
            found.append((sname, kw["hfs"].id, kw["mfs"].id))
    return found


def run_L3(chk, rule="L3"):
    """signature, hard-fusion history and meta-fusion of a result are assembled from the same leg sequence"""
    prog = chk.prog
    chk.rule(rule, "s, hfs (native) and mfs (meta) of each result are built from the same leg sequences in the same order", floor=8)
    sites = [("yastn.tensor._contractions", "tensordot", [("s_c", "hfs_c", "mfs_c")]),
             ("yastn.tensor.linalg", "svd", [("Us", "Uhfs", "Umfs"), ("Vs", "Vhfs", "Vmfs")]),
             ("yastn.tensor.linalg", "qr", [("Qs", "Qhfs", "Qmfs"), ("Rs", "Rhfs", "Rmfs")]),
             ("yastn.tensor.linalg", "eigh", [("Us", "Uhfs", "Umfs")]),
             ("yastn.tensor.linalg", "eig", [("Us", "Uhfs", "Umfs"), ("Vs", "Vhfs", "Vmfs")]),
             ]
    # trace: the fusion histories of the result are taken over the very sequence `out` that _meta_trace receives for the signature
    tr = prog.func("yastn.tensor._contractions", "trace")
    hdef = [n for n in A.walk_local(tr.node) if isinstance(n, ast.Assign) and A.text(n.targets[0]) == "hfs"]
    mt = [c for c in A.calls(tr.node) if A.call_name(c) == "_meta_trace"]
    if not hdef or not mt:
        raise AnalysisError("trace: hfs / _meta_trace not found")
    seg = _segments(hdef[0].value, None)
    out_arg = A.text(mt[0].args[-1])
    ok = len(seg) == 1 and seg[0][0] == "hfs" and seg[0][2] == out_arg
    chk.verdict(rule, (tr, hdef[0]), f"trace: hfs over `{seg[0][2] if seg and len(seg[0]) > 2 else '?'}` ~ _meta_trace(.., {out_arg})", True if ok else False,
                f"trace(): the fusion histories of the remaining legs are collected over `{seg[0][2] if seg and len(seg[0]) > 2 else A.short(hdef[0].value, 40)}` "
                f"but the signature/charges of the result follow `{out_arg}` (the order passed to _meta_trace): legs get the history of other legs")
    for mod, name, triples in sites:
        f = prog.func(mod, name)
        b = A.local_bindings(f.node)
        # the (signature, hfs, mfs) triples are read off the results: `X._replace(struct=ST, hfs=H, mfs=M, ..)` with names H and M, and the
        # signature sequence S that was handed to the call that produced ST (a local whose definition enumerates `.struct.s`)
        sig_cands = {nm for nm, ds in b.items() if any(k == "assign" and v is not None and any(sg[0] == "struct.s" for sg in _segments(v, None)) for st_, v, k in ds)}
        found = []
        n_repl = sum(1 for c in A.calls(f.node) if isinstance(c.func, ast.Attribute) and c.func.attr == "_replace"
                     and any(k.arg == "hfs" and isinstance(k.value, ast.Name) for k in c.keywords) and any(k.arg == "mfs" and isinstance(k.value, ast.Name) for k in c.keywords))
        for c in A.calls(f.node):
            if not (isinstance(c.func, ast.Attribute) and c.func.attr == "_replace"):
                continue
            kw = {k.arg: k.value for k in c.keywords if k.arg}
            if not (isinstance(kw.get("hfs"), ast.Name) and isinstance(kw.get("mfs"), ast.Name) and isinstance(kw.get("struct"), ast.Name)):
                continue
            sname = None
            for st_, v, k in b.get(kw["struct"].id, []):
                if isinstance(v, ast.Call):
                    hit = [a_.id for a_ in list(v.args) + [k_.value for k_ in v.keywords] if isinstance(a_, ast.Name) and a_.id in sig_cands]
                    if hit:
                        sname = hit[-1]
            if sname is None and n_repl == 1:
                # struct produced by a kernel that received the signature further up (tensordot): the unique candidate of the function
                others = [nm for nm in sig_cands]
                sname = others[0] if len(others) == 1 else None
            if sname is not None:
                found.append((sname, kw["hfs"].id, kw["mfs"].id))
        if found:
            seen_t = set()
            triples = [t_ for t_ in found if not (t_ in seen_t or seen_t.add(t_))]
        for sname, hname, mname in triples:
            def val(nm):
                vs = [v for st, v, k in b.get(nm, []) if v is not None and k == "assign"]
                aug = [v for st, v, k in b.get(nm, []) if k == "aug"]
                if not vs:
                    return None
                node = vs[0]
                for a_ in aug:
                    node = ast.BinOp(left=node, op=ast.Add(), right=a_)
                return node
            sv, hv, mv = val(sname), val(hname), val(mname)
            if sv is None or hv is None:
                if name in ("eigh", "eig"):
                    continue
                raise AnalysisError(f"{name}: construction of {sname}/{hname} not found")
            ss, hs = _segments(sv, None), _segments(hv, None)
            ok = len(ss) == len(hs)
            why = ""
            if ok:
                for a_, b_ in zip(ss, hs):
                    if a_[0] == "lit" and b_[0] == "lit":
                        if a_[1] != b_[1]:
                            ok, why = False, f"literal segments of different length: `{a_[2]}` vs `{b_[2]}`"
                    elif a_[0] == "struct.s" and b_[0] == "hfs":
                        if a_[1:] != b_[1:]:
                            ok, why = False, f"signature taken from `{a_[1]}` over `{a_[2]}` but fusion history from `{b_[1]}` over `{b_[2]}`"
                    else:
                        ok, why = False, f"segment kinds differ: {a_[0]} vs {b_[0]}"
            else:
                why = f"{len(ss)} segments in {sname} vs {len(hs)} in {hname}"
            chk.verdict(rule, (f, sv), f"{name}: {sname} ~ {hname}", True if ok else False,
                        f"{name}(): signature `{sname}` and fusion history `{hname}` of the result are assembled from different leg "
                        f"sequences ({why}): legs of the result carry the history of other legs", {"s": str(ss), "hfs": str(hs)})
            # literal segments agree in content: (sU,) <-> _Fusion(s=(sU,))
            for a_, b_ in zip(ss, hs):
                if a_[0] == "lit" and b_[0] == "lit":
                    st, ht = a_[2], b_[2]
                    import re
                    sig = re.findall(r"[-\w]+", st)
                    fus = re.findall(r"_Fusion\(s=\(([-\w]+),\)\)", ht)
                    ok2 = fus and sig and fus == sig
                    chk.verdict(rule, (f, hv), f"{name}: new leg `{st}` ~ `{ht}`", True if ok2 else False,
                                f"{name}(): the new leg has signature {sig} in struct but {fus} in its fusion record")
            if mv is not None:
                ms = _segments(mv, None)
                ok3 = len(ms) == len(ss) and all((m_[0] == "lit") == (s_[0] == "lit") for m_, s_ in zip(ms, ss)) and \
                    all(m_[1] == s_[1] for m_, s_ in zip(ms, ss) if m_[0] == "mfs")
                chk.verdict(rule, (f, mv), f"{name}: {mname} ~ {sname}", True if ok3 else False,
                            f"{name}(): meta-fusion `{mname}` is not assembled in the same tensor/segment order as `{sname}`",
                            {"mfs": str(ms), "s": str(ss)})
                # each meta segment runs over the meta-leg sequence from which the native sequence of the matching
                # signature segment was unpacked (provenance through _unpack_axes / _unpack_trans_test_axes_pair)
                if ok3:
                    prov = _native_provenance(f.node, prog, f.module)
                    for m_, s_ in zip(ms, ss):
                        if m_[0] != "mfs":
                            continue
                        nseq = s_[2]
                        if nseq not in prov and nseq in b:
                            dv = [v for st_, v, k in b[nseq] if k == "assign" and v is not None]
                            if len(dv) == 1 and isinstance(dv[0], ast.Call) and A.call_name(dv[0]) == "tuple" and dv[0].args \
                                    and isinstance(dv[0].args[0], ast.GeneratorExp) and A.text(dv[0].args[0].elt) == A.text(dv[0].args[0].generators[0].target):
                                g0 = dv[0].args[0].generators[0]
                                nseq = A.text(g0.iter) + (" if " + " if ".join(A.text(c) for c in g0.ifs) if g0.ifs else "")
                        r = _seq_corresponds(m_[2], nseq, prov)
                        if r is None:
                            raise AnalysisError(f"{name}: cannot relate the meta sequence `{m_[2]}` of {mname} to the native sequence `{s_[2]}` of {sname}")
                        chk.verdict(rule, (f, mv), f"{name}: {mname} over `{m_[2]}` <-> {sname} over `{s_[2]}`", True if r else False,
                                    f"{name}(): the meta-fusion trees in `{mname}` are collected over `{m_[2]}` but the native legs of that part of the "
                                    f"result (`{sname}`, fusion histories) over `{s_[2]}`, which was unpacked from `{prov.get(_excl(s_[2]), '?')}`: the factor "
                                    f"comes back with the meta-fusion structure of the other group of legs (wrong rank / grouping whenever the two "
                                    f"groups are meta-fused differently)", {"provenance": prov})


# ------------------------------------------------------------------------- L2
def run_L2(chk, rule="L2"):
    """_embed_tensor(a, legs, legs_new) uses the position of a leg in `legs` as a *native* axis and assigns hfs in
    that order: at every call site the tensor must have an identity permutation, i.e. derive from
    consume_transpose() on every path (directly or as an element of a collection built from consumed tensors)."""
    prog = chk.prog
    chk.rule(rule, "helpers that take leg positions as native axes receive tensors whose permutation was consumed", floor=3)
    sites = []
    for mn in ("yastn.tensor._algebra", "yastn.tensor._output", "yastn.initialize", "yastn.tensor._contractions", "yastn.tensor._merging",
               "yastn.tensor._single", "yastn.tensor.linalg"):
        m = prog.module(mn)
        for f in m.funcs.values():
            for c in A.calls(f.node):
                if A.call_name(c) == "_embed_tensor" and c.args:
                    sites.append((f, c))
    if not sites:
        raise AnalysisError("no call site of _embed_tensor found")
    for f, c in sites:
        fn = f.node
        parent = A.enclosing_map(fn)
        cfg = CFG(fn)
        arg = c.args[0]
        # root name: tensors[pa] -> tensors ; tensor (comprehension variable over zip(tensors, ...)) -> tensors
        root = arg
        while isinstance(root, ast.Subscript):
            root = root.value
        name = root.id if isinstance(root, ast.Name) else None
        # comprehension variable: find the generator binding it
        cur = c
        while name and cur in parent:
            cur = parent[cur]
            if isinstance(cur, (ast.ListComp, ast.GeneratorExp, ast.DictComp, ast.SetComp)):
                for g in cur.generators:
                    if name in A.assigned_names(g.target):
                        it = g.iter
                        if isinstance(it, ast.Call) and A.call_name(it) == "zip":
                            idx = None
                            if isinstance(g.target, ast.Tuple):
                                for i, e in enumerate(g.target.elts):
                                    if name in A.assigned_names(e):
                                        idx = i
                            it = it.args[idx] if idx is not None and idx < len(it.args) else it
                        if isinstance(it, ast.Call) and isinstance(it.func, ast.Attribute) and it.func.attr in ("items", "values"):
                            it = it.func.value
                        if isinstance(it, ast.Name):
                            name = it.id
        if name is None:
            chk.undecided(rule, (f, c), c, "tensor argument is not rooted at a local name")
            continue
        stmt = A.stmt_of(c, parent)
        consumed = []
        for st, val, kind in A.local_bindings(fn).get(name, []):
            if val is None:
                continue
            if any(isinstance(n, ast.Call) and A.callee_attr(n) == "consume_transpose" for n in ast.walk(val)):
                consumed.append(st)
        ok = bool(consumed) and stmt in cfg.node_of and all(s in cfg.node_of for s in consumed) and cfg.must_pass([stmt], consumed)
        # and no later rebinding of the collection from non-consumed sources between (other defs must themselves preserve: allow
        # fuse_meta_to_hard / _embed_tensor comprehensions over the same name)
        chk.verdict(rule, (f, c), c, True if ok else False,
                    f"{f.short}(): `_embed_tensor({A.text(arg)}, ...)` takes leg positions as native axes, but `{name}` does not come from "
                    f"consume_transpose() on every path to this call: for operands with a pending (lazy) permutation the masks are "
                    f"applied to the wrong native legs (crash or silently wrong embedding)")


# ------------------------------------------------------------------- backend rules
BINARY_KERNELS = {"add": ("datas",), "sub": ("Adata", "Bdata"), "vdot": ("Adata", "Bdata"), "dot": ("Adata", "Bdata"),
                  "transpose_dot_sum": ("Adata", "Bdata"), "dot_diag": ("Adata", "Bdata"), "merge_super_blocks": ("pos_tens",)}


def run_B(chk, rule_b1="B1", rule_b2="B2", backends=("yastn.backend.backend_np",)):
    """B1: binary kernels allocate their result with a dtype promoted from *all* data operands.
    B2: a variable that is a view of the output buffer is updated in place, never rebound from itself
        (`block = block + x` computes into a temporary and the buffer keeps its old content)."""
    prog = chk.prog
    chk.rule(rule_b1, "binary backend kernels promote the result dtype from all data operands", floor=7)
    chk.rule(rule_b2, "views of the output buffer are updated in place, not rebound", floor=3)
    for bm in backends:
        m = prog.module(bm)
        for name, ops in BINARY_KERNELS.items():
            f = m.funcs.get(name)
            if f is None:
                if bm.endswith("backend_np"):
                    raise AnalysisError(f"backend kernel {name} not found")
                continue
            dt = [n for n in A.walk_local(f.node) if isinstance(n, ast.Assign) and A.text(n.targets[0]) == "dtype"]
            ok = False
            why = "no `dtype = ...promote_types(...)` found"
            if dt:
                v = dt[0].value
                t = A.text(v)
                if "promote_types" in t:
                    missing = [o for o in ops if o not in t]
                    ok = not missing
                    why = f"the promoted dtype ignores operand(s) {missing}"
            alloc = [c for c in A.calls(f.node) if A.call_name(c) in ("np.zeros", "np.empty", "torch.zeros", "torch.empty") and A.kwarg(c, "dtype") is not None]
            uses = alloc and all(A.text(A.kwarg(c, "dtype")) == "dtype" for c in alloc)
            chk.verdict(rule_b1, (f, dt[0] if dt else f.node), dt[0] if dt else name, True if (ok and uses) else False,
                        f"backend {name}(): {why if not ok else 'the result is not allocated with the promoted dtype'}: e.g. a complex operand "
                        f"combined with a real one loses its imaginary part")
        for f in m.funcs.values():
            outs = [n for n in A.walk_local(f.node) if isinstance(n, ast.Assign) and isinstance(n.targets[0], ast.Name) and isinstance(n.value, ast.Call)
                    and A.call_name(n.value) in ("np.zeros", "np.empty", "np.zeros_like", "np.empty_like", "torch.zeros", "torch.empty")]
            if not outs:
                continue
            bufs = {n.targets[0].id for n in outs}
            views = {}
            for n in A.walk_local(f.node):
                if isinstance(n, ast.Assign) and isinstance(n.targets[0], ast.Name):
                    v = n.value
                    root = v
                    seen_sub = False
                    while isinstance(root, (ast.Subscript, ast.Call, ast.Attribute)):
                        if isinstance(root, ast.Subscript):
                            seen_sub = True
                            root = root.value
                        elif isinstance(root, ast.Call) and isinstance(root.func, ast.Attribute) and root.func.attr in ("reshape", "view", "transpose"):
                            root = root.func.value
                        elif isinstance(root, ast.Attribute):
                            root = root.value
                        else:
                            break
                    if isinstance(root, ast.Name) and root.id in bufs and seen_sub and n.targets[0].id not in bufs:
                        views[n.targets[0].id] = n
            for vname, vdef in views.items():
                rebinds = [n for n in A.walk_local(f.node) if isinstance(n, ast.Assign) and isinstance(n.targets[0], ast.Name)
                           and n.targets[0].id == vname and n is not vdef and any(isinstance(x, ast.Name) and x.id == vname for x in ast.walk(n.value))]
                inplace = [n for n in A.walk_local(f.node) if (isinstance(n, ast.AugAssign) and A.text(n.target).split("[")[0] == vname) or
                           (isinstance(n, ast.Assign) and isinstance(n.targets[0], ast.Subscript) and A.text(n.targets[0].value) == vname) or
                           (isinstance(n, ast.Call) and A.kwarg(n, "out") is not None and A.text(A.kwarg(n, "out")) == vname)]
                if rebinds:
                    chk.bad(rule_b2, (f, rebinds[0]), rebinds[0], f"backend {f.name}(): `{vname}` is a view of the output buffer "
                            f"(`{A.short(vdef, 50)}`) but `{A.short(rebinds[0], 50)}` rebinds the name to a temporary: the contribution never "
                            f"reaches the buffer that is returned (silently wrong result whenever a block receives more than one term)")
                elif inplace:
                    chk.ok(rule_b2, (f, vdef), f"{f.name}: view `{vname}` updated in place", {"updates": len(inplace)}, sample=False)


# ------------------------------------------------------------------------- V1
def run_V1(chk, rule="V1"):
    """N-ary operations (a *vararg of tensors) treat all operands alike: no element other than [0] (the reference) is
    singled out by a constant index."""
    prog = chk.prog
    chk.rule(rule, "N-ary tensor operations never single out operand k>=1 by a constant index", floor=2)
    for mn in ("yastn.tensor._algebra", "yastn.tn.mps._mps_obc", "yastn.initialize"):
        m = prog.module(mn)
        for f in m.funcs.values():
            va = f.node.args.vararg
            if va is None or va.arg not in ("tensors", "states"):
                continue
            bad = []
            for n in A.walk_local(f.node):
                if isinstance(n, ast.Subscript) and isinstance(n.value, ast.Name) and n.value.id == va.arg and \
                        isinstance(n.slice, ast.Constant) and isinstance(n.slice.value, int) and n.slice.value >= 1:
                    bad.append(n)
            if bad:
                chk.bad(rule, (f, bad[0]), bad[0], f"{f.short}(*{va.arg}): operand `{A.text(bad[0])}` is addressed by a constant index: a "
                        f"condition or normalisation that looks at the first operands only is wrong for three or more operands")
            else:
                chk.ok(rule, f, f"{f.short}(*{va.arg})")


# ------------------------------------------------------------------------- I3
USER_PER_LEG = {
    ("yastn.tensor._initialize", "set_block"): ["ts", "Ds"],
    ("yastn.tensor._initialize", "__setitem__"): ["key"],
    ("yastn.tensor._output", "__getitem__"): ["key"],
    ("yastn.tensor._output", "to_nonsymmetric"): ["legs"],
    # keys of output_unroll_info are positions in the *requested output order* of the contraction (tensor-leg order of `partial`)
    ("yastn.tensor.oe_blocksparse", "_expand_partial_output"): ["output_unroll_info"],
}


def run_I3(chk, rule="I3"):
    """Public functions that take per-leg data from the user (charges, dimensions, block keys — given in the order of the
    tensor's legs) and combine it with native per-leg fields must account for the pending permutation first: a read of
    `a.trans` / consume_transpose() dominates every statement that combines the two."""
    prog = chk.prog
    chk.rule(rule, "user-ordered per-leg data meets native fields only after the pending permutation was accounted for", floor=4)
    for (mod, name), params in USER_PER_LEG.items():
        f = prog.func(mod, name)
        fn = f.node
        cfg = CFG(fn)
        parent = A.enclosing_map(fn)
        b = A.local_bindings(fn)
        derived = set(params)
        changed = True
        while changed:
            changed = False
            for nm, defs in b.items():
                if nm in derived:
                    continue
                if any(v is not None and any(isinstance(x, ast.Name) and x.id in derived for x in ast.walk(v)) for _, v, _ in defs):
                    derived.add(nm)
                    changed = True
        me = f.params[0]

        def reads_trans(st):
            return any((isinstance(x, ast.Attribute) and x.attr in ("trans", "_trans") and A.text(x.value) == me) or
                       (isinstance(x, ast.Call) and A.callee_attr(x) == "consume_transpose") for x in ast.walk(st))
        stmts = [n.ast for n in cfg.nodes if n.ast is not None]
        tr = [s for s in stmts if reads_trans(s)]
        nat_fields = (f"{me}.struct.s", f"{me}.struct.t", f"{me}.struct.D", f"{me}.hfs", f"{me}.slices")
        # names that hold native per-leg data (elements of / values computed from the native fields)
        nat_derived = set()
        changed = True
        while changed:
            changed = False
            for nm, defs in b.items():
                if nm in nat_derived or nm in derived:
                    continue
                for _, v, k in defs:
                    if v is None:
                        continue
                    tv = A.text(v)
                    if any(kf in tv for kf in nat_fields) or any(isinstance(x, ast.Name) and x.id in nat_derived for x in ast.walk(v)):
                        nat_derived.add(nm)
                        changed = True
                        break
        uses = []
        for s in stmts:
            if isinstance(s, (ast.FunctionDef,)):
                continue
            hdr = s.iter if isinstance(s, (ast.For, ast.AsyncFor)) else (s.test if isinstance(s, (ast.While, ast.If)) else s)
            t = A.text(hdr)
            native = any(k in t for k in nat_fields) or any(isinstance(x, ast.Name) and x.id in nat_derived and isinstance(x.ctx, ast.Load) for x in ast.walk(hdr))
            user = any(isinstance(x, ast.Name) and x.id in derived and isinstance(x.ctx, ast.Load) for x in ast.walk(hdr))
            if native and user:
                uses.append(s)
        if not uses:
            raise AnalysisError(f"{name}: no statement combining user per-leg data {params} with native fields found")
        for s in uses:
            ok = reads_trans(s) or (tr and cfg.must_pass([s], tr))
            chk.verdict(rule, (f, s), s, True if ok else False,
                        f"{f.short}(): `{A.short(s, 70)}` combines the user's per-leg data ({', '.join(params)}; given in the order of the "
                        f"tensor's legs) with native per-leg fields, but no read of `{me}.trans` / consume_transpose() precedes it on "
                        f"every path: for a lazily transposed tensor the data is attributed to the wrong legs")


def run_I4(chk, rule="I4", floor=3):
    """enumeration order of per-leg sequences paired position by position (engine E3b `seqorder`)"""
    from ..core.seqorder import Engine
    prog = chk.prog
    chk.rule(rule, "sequences paired position by position (zip) are enumerated in the same leg order (tensor-leg order vs native storage order)",
             floor=floor)
    for mn in MODULES:
        prog.module(mn)
    eng = Engine(prog, MODULES)
    n = 0
    for f in functions(prog):
        src = A.text(f.node)
        if "zip(" not in src:
            continue
        fo = eng.fo(f)
        fo.check_zips()
        for fd in fo.findings:
            n += 1
            if fd.msg is None:
                chk.ok(rule, (f, fd.node), fd.node, fd.facts)
            else:
                chk.bad(rule, (f, fd.node), fd.node, f"{f.short}(): {fd.msg}", fd.facts)
    chk.extra["zip_sites_typed"] = n
    return n


def run_I5(chk, prefixes, rule="I5", floor=2):
    """reversal consistency of parallel sequences (engine E3c `seqrev`)"""
    from ..core.seqrev import RevOrder
    prog = chk.prog
    chk.rule(rule, "parallel sequences (sectors of a leg, sites of a sweep) zipped together are walked in the same direction", floor=floor)
    n = 0
    for f in prog.all_funcs():
        if not f.module.name.startswith(tuple(prefixes)) or "torch" in f.module.name:
            continue
        if "zip(" not in A.text(f.node):
            continue
        ro = RevOrder(f.node)
        ro.check()
        for node, msg, facts in ro.findings:
            n += 1
            if msg is None:
                chk.ok(rule, (f, node), node, facts, sample=n <= 4)
            else:
                chk.bad(rule, (f, node), node, f"{f.short}(): {msg}", facts)
    chk.extra["zip_sites_with_parallel_families"] = n
    return n


def run_I6(chk, prefixes, rule="I6", floor=25):
    """selection consistency of parallel sequences (engine E3d `seqsel`)"""
    from ..core.seqsel import SelOrder
    prog = chk.prog
    chk.rule(rule, "parallel per-block / per-sector sequences (struct.t, struct.D, slices; leg.t, leg.D) zipped together were narrowed by the same selection", floor=floor)
    n = 0
    for f in prog.all_funcs():
        if not f.module.name.startswith(tuple(prefixes)) or "torch" in f.module.name:
            continue
        if "zip(" not in A.text(f.node):
            continue
        so = SelOrder(f.node)
        so.check()
        for node, msg, facts in so.findings:
            n += 1
            if msg is None:
                chk.ok(rule, (f, node), node, facts, sample=n <= 4)
            else:
                chk.bad(rule, (f, node), node, f"{f.short}(): {msg}", facts)
    chk.extra["zip_sites_with_selectable_families"] = n
    return n


def run_I7(chk, rule="I7"):
    """I7: the fields that consume_transpose() permutes travel together.  Where a tensor takes over the state of its own consumed copy
    in place (`c = a.consume_transpose(); a.struct, .. , a._trans = c.struct, .., c._trans`), every permuted field -- struct, slices,
    hfs, data, trans -- is taken from the copy: a field left behind stays in the old native order while the others are permuted
    (e.g. fusion histories, which also record each leg's signature, no longer belong to their legs)."""
    prog = chk.prog
    chk.rule(rule, "in-place consumption of the pending permutation takes struct, slices, hfs, data and trans from the consumed copy together", floor=1)
    need = {"struct", "slices", "hfs", "_data", "_trans"}
    n = 0
    for f in functions(prog):
        if "consume_transpose" not in A.text(f.node):
            continue
        b = A.local_bindings(f.node)
        copies = {nm: v.func.value.id for nm, ds in b.items() for st, v, k in ds if k == "assign" and isinstance(v, ast.Call) and isinstance(v.func, ast.Attribute)
                  and v.func.attr == "consume_transpose" and isinstance(v.func.value, ast.Name)}
        for cname, owner in copies.items():
            if cname == owner:
                continue
            stores = {}
            for st in A.walk_local(f.node, include_self=False):
                if not isinstance(st, ast.Assign):
                    continue
                tg, vl = st.targets[0], st.value
                pairs = list(zip(tg.elts, vl.elts)) if isinstance(tg, ast.Tuple) and isinstance(vl, ast.Tuple) and len(tg.elts) == len(vl.elts) else [(tg, vl)]
                for t_, v_ in pairs:
                    if isinstance(t_, ast.Attribute) and isinstance(t_.value, ast.Name) and t_.value.id == owner and isinstance(v_, ast.Attribute) \
                            and isinstance(v_.value, ast.Name) and v_.value.id == cname:
                        stores[t_.attr] = (st, v_.attr)
            if not ({"_trans", "trans"} & set(stores)):
                continue
            n += 1
            got = {("_trans" if k == "trans" else "_data" if k == "data" else k) for k in stores}
            missing = sorted(need - got)
            site = next(iter(stores.values()))[0]
            chk.verdict(rule, (f, site), f"{f.short}: `{owner}` takes {sorted(got)} from its consumed copy `{cname}`", False if missing else True,
                        f"{f.short}(): `{owner}` takes over `{', '.join(sorted(got))}` of its consumed copy `{cname}` but not `{', '.join(missing)}`: consume_transpose() "
                        f"permutes struct, slices, hfs and data together and resets trans; the field left behind stays in the old native order -- "
                        f"is_consistent() fails and leg-based operations address the wrong leg (only for a lazily transposed tensor whose legs differ)")
    return n


# public Tensor methods that read per-leg struct fields of their receiver without looking at `trans`, confirmed by reading: (name) -> reason
I9_UNIFORM = {
    "conj": "negates every signature / charge uniformly and keeps `trans`: the operation commutes with any permutation of the legs",
    "flip_signature": "same: all legs alike, `trans` kept",
    "is_consistent": "checks the internal consistency of the native storage; leg order plays no role",
    "ndim_n": "only the number of native legs",
    "remove_zero_blocks": "filters whole blocks and keeps `trans`; no leg is addressed",
    "truncation_mask": "operates on the diagonal spectrum S (two identical legs; diagonal tensors carry no pending permutation that matters)",
    "apply_mask": "the receiver is the diagonal mask; the per-leg lookups on the *operand* go through its trans (rule L1)",
    "__str__": "debug string of the native storage",
    "print_properties": "debug print of the native storage",
    "print_blocks_shape": "debug print of the native storage",
}


def run_I9(chk, rule="I9"):
    """I9 (who must read): a public method of Tensor that answers a question about *legs in the order the user sees them* from the
    per-leg fields of the native storage (`struct.t`, `struct.D`, `struct.s` of its receiver) has to account for the pending
    permutation -- read `trans`, or go through a function that does (consume_transpose, get_legs, ...).  The methods that treat all
    legs alike are listed by name with the reason; every other such method that never looks at `trans` gives, for a lazily transposed
    tensor, the answer for another leg order than the one `__getitem__`, get_legs and to_numpy use."""
    prog = chk.prog
    chk.rule(rule, "public Tensor methods that read per-leg native fields account for the pending permutation (or treat all legs alike: named)", floor=20)
    readers = trans_readers(prog)
    T = prog.cls("yastn.tensor", "Tensor")
    for name, f in sorted(T.methods.items()):
        if (name.startswith("_") and not (name.startswith("__") and name.endswith("__"))) or not f.params:
            continue
        me = f.params[0]
        per_leg = [x for x in ast.walk(f.node) if isinstance(x, ast.Attribute) and x.attr in ("t", "D", "s") and A.text(x.value) == f"{me}.struct"]
        if not per_leg:
            continue
        reads = any(isinstance(n, ast.Attribute) and n.attr in ("trans", "_trans") and A.text(n.value) == me for n in ast.walk(f.node)) or \
            any(isinstance(n, ast.Call) and (((A.call_name(n) or "").split(".")[-1] in readers) or A.callee_attr(n) in readers) for n in ast.walk(f.node))
        if reads:
            chk.ok(rule, f, f"Tensor.{name}: per-leg fields {sorted({x.attr for x in per_leg})} read together with trans", sample=False)
        elif name in I9_UNIFORM:
            chk.ok(rule, f, f"Tensor.{name}: all legs alike ({I9_UNIFORM[name][:60]})", sample=False)
        else:
            chk.bad(rule, (f, per_leg[0]), f"Tensor.{name}: `{A.text(per_leg[0])}`", f"Tensor.{name}(): reads `{A.text(per_leg[0])}` (native leg order) and never looks at "
                    f"`{me}.trans`: for a lazily transposed tensor the answer refers to the legs in storage order, while __getitem__, get_legs, "
                    f"get_shape and to_numpy use the order the user sees -- e.g. `t in a` is False for a block that `a[t]` returns, "
                    f"`for t in a.get_blocks_charge(): a[t]` raises")



# ------------------------------------------------------------------ I10: no field read before `X = X.conj()` is used after it
I10_VARIANT = {
    "conj": {"n", "s", "s_n", "hfs", "struct", "get_legs", "get_signature", "get_tensor_charge"},
    "conj_blocks": set(),
    "flip_signature": {"n", "s", "s_n", "hfs", "struct", "get_legs", "get_signature", "get_tensor_charge"},
    # consume_transpose() changes the native layout only; the lazy transpose() changes the logical order only
    "consume_transpose": {"struct", "slices", "hfs", "trans", "_trans", "s_n", "_data", "data"},
    "transpose": {"trans", "_trans", "s", "mfs", "get_shape", "get_legs", "get_signature", "ndim"} - {"ndim"},
}
# fields of struct that conj() leaves alone (t, D, size, diag): reading them across the rebinding is harmless
I10_STRUCT_KEEP = {"conj": {"t", "D", "size", "diag"}, "flip_signature": {"D", "size", "diag"}, "consume_transpose": {"n", "size", "diag"}}


def run_I10(chk, prefixes, rule="I10", floor=2):
    """A tensor name that is rebound to its own transform (`if conj[1]: b = b.conj()`) denotes two different tensors in one function.  A
    value computed from a field the transform changes (total charge, signature, fusion records for conj; order-dependent fields for a
    transposition) before the rebinding and used after it belongs to the *old* tensor: e.g. the charge of the contraction computed from
    b.struct.n in front of `b = b.conj()` has the wrong sign for every operand with a non-zero charge."""
    from ..core.cfg import CFG
    prog = chk.prog
    chk.rule(rule, "no value read from a field that `X = X.conj()` (or a transposition) changes is carried across that rebinding", floor=floor)
    for f in prog.all_funcs():
        if not f.module.name.startswith(tuple(prefixes)) or "torch" in f.module.name:
            continue
        fn = f.node
        rebinds = []
        for n in A.walk_local(fn, include_self=False):
            if isinstance(n, ast.Assign) and len(n.targets) == 1 and isinstance(n.targets[0], ast.Name) and isinstance(n.value, ast.Call) \
                    and isinstance(n.value.func, ast.Attribute) and isinstance(n.value.func.value, ast.Name) \
                    and n.value.func.value.id == n.targets[0].id and n.value.func.attr in I10_VARIANT:
                rebinds.append((n, n.targets[0].id, n.value.func.attr))
        if not rebinds:
            continue
        cfg = CFG(fn)
        b = A.local_bindings(fn)
        for S, X, m in rebinds:
            if S not in cfg.node_of:
                continue
            variant = I10_VARIANT[m]
            keep = I10_STRUCT_KEEP.get(m, set())
            stale = []
            for Y, ds in b.items():
                if Y == X:
                    continue
                for D, v, k in ds:
                    if k != "assign" or v is None or D not in cfg.node_of or D is S:
                        continue
                    reads = []
                    for a_ in ast.walk(v):
                        if isinstance(a_, ast.Attribute) and isinstance(a_.value, ast.Name) and a_.value.id == X and a_.attr in variant:
                            reads.append(a_)
                    # X.struct.<kept field> is not changed by the transform
                    par = A.enclosing_map(v)
                    reads = [r for r in reads if not (r.attr == "struct" and isinstance(par.get(r), ast.Attribute) and par[r].attr in keep)]
                    if not reads or not cfg.path_exists(D, S):
                        continue
                    others = [d2 for d2, _, _ in ds if d2 is not D and d2 in cfg.node_of]
                    uses = [u for u in ast.walk(fn) if isinstance(u, ast.Name) and u.id == Y and isinstance(u.ctx, ast.Load)]
                    par_f = A.enclosing_map(fn)
                    for u in uses:
                        ust = A.stmt_of(u, par_f)
                        if ust in cfg.node_of and ust is not D and cfg.path_exists(S, ust, avoiding=others + [D]):
                            stale.append((D, Y, reads[0], ust))
                            break
            for D, Y, r, ust in stale:
                chk.bad(rule, (f, D), A.short(D, 70), f"{f.short}(): `{A.short(D, 70)}` reads `{A.text(r)}` of `{X}` before `{A.short(S, 30)}` and `{Y}` is used after it "
                        f"(`{A.short(ust, 50)}`): the value belongs to the tensor before {m}(), which changes that field -- e.g. the charge test of vdot sees the "
                        f"un-conjugated charge of the second operand and returns 0 for every pair of charged operands")
            if not stale:
                chk.ok(rule, (f, S), f"{f.short}: nothing read from `{X}` before `{A.short(S, 30)}` is used after it", sample=False)
