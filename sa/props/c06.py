"""C06 — MPS/MPO algebra agrees with the states it represents (partial; engine E8 `factorflow`).

Decided: every operand's norm `factor` reaches the result of the algebra / overlap functions (FF1), all concrete
effective Hamiltonians multiply by the operator's factor and Env_sum sums its members (FF2, sibling agreement),
the phase/modulus split of scalar multiplication is an algebraic identity (FF3).
Not decided: that sums/products/overlaps equal the dense objects (values).
"""
from __future__ import annotations

import ast

from ..core import astutil as A
from ..core.errors import AnalysisError
from . import e6, e8

OBC = "yastn.tn.mps._mps_obc"
PAR = "yastn.tn.mps._mps_parent"
ENV = "yastn.tn.mps._env"
COMP = "yastn.tn.mps._compression"


def run(chk):
    prog = chk.prog
    chk.explanation = (
        "Taint (data-dependence) analysis inside each MPS algebra/overlap function: the attribute read `<operand>.factor` "
        "must reach the returned value (or a field/element of the returned object); sibling comparison of all concrete "
        "Heff0/Heff1/Heff2 of the <bra|op|ket> environment family (each return multiplied by self.op.factor), of Env_sum (sum "
        "over members) and of the projection overlaps; exact rational identity for the phase/modulus split in __mul__. A "
        "forgotten factor is invisible to tests with unit-factor operands and wrong for all others."
        " zipper is analysed once per value of `normalize` on a CFG specialised on that parameter (the MPO's factor is multiplied in on every path, no store overwrites the factor, normalize=True resets it); sector charges read from a leg must be weighted by that leg's signature; conjugation typing of every contraction operand in the overlap recursions (bra conjugated, ket/operator not).")
    chk.trusted_base = ["python ast parser", "exact rational arithmetic sa/core/poly.py"]
    chk.rule("FF1", "the norm factor of every operand reaches the result", floor=18)
    chk.rule("FF2", "sibling agreement: every concrete Heff of the 3-layer family carries self.op.factor; Env_sum sums members", floor=15)
    chk.rule("FF6", "zipper: with normalize=False every path multiplies the factor by the MPO's factor and no store overwrites it; "
             "with normalize=True the factor is reset to 1", floor=6)
    chk.rule("FF7", "a sector charge read from a leg enters charge arithmetic weighted by that leg's signature", floor=2)
    chk.rule("FF8", "overlap recursions are sesquilinear: bra site tensors enter conjugated, ket and operator tensors un-conjugated", floor=25)
    chk.rule("FF3", "phase/modulus split of scalar multiplication: new factor * phase == number * factor", floor=4)
    P = prog.cls(PAR, "_MpsMpoParent")
    O = prog.cls(OBC, "MpsMpoOBC")
    # ---- FF1
    e8.check_flow(chk, "FF1", prog.func(OBC, "add"), ["states"], "amplitude of each summand", loop_over="states")
    e8.check_flow(chk, "FF1", prog.func(OBC, "multiply"), ["a", "b"], "phi.factor")
    e8.check_flow(chk, "FF1", P.methods["__mul__"], ["self"], "phi.factor")
    e8.check_flow(chk, "FF1", P.methods["shallow_copy"], ["self"], "phi.factor")
    e8.check_flow(chk, "FF1", O.methods["to_tensor"], ["self"], "dense tensor")
    e8.check_flow(chk, "FF1", prog.cls(OBC, "MpoPBC").methods["to_tensor"], ["self"], "dense tensor")
    nf = O.methods["norm"]
    def rooted_in_shallow_copy(v, me_):
        """`me.shallow_copy()` possibly followed by a chain of in-place method calls (which return the object they act on)"""
        while isinstance(v, ast.Call) and isinstance(v.func, ast.Attribute):
            if A.text(v.func) == f"{me_}.shallow_copy":
                return True
            if not (v.func.attr.endswith("_") and not v.func.attr.endswith("__")):
                return False
            v = v.func.value
        return False
    cps = [A.text(n.targets[0]) for n in A.walk_local(nf.node) if isinstance(n, ast.Assign) and rooted_in_shallow_copy(n.value, nf.params[0])]
    chk.require(cps, "MpsMpoOBC.norm: shallow copy of the receiver not found")
    e8.check_flow(chk, "FF1", nf, [cps[0]], "returned norm")
    # functions built on a shallow copy keep the factor: they must start from a copy and never overwrite .factor with
    # something that does not depend on the source's factor
    for name in ("conj", "transpose", "conjugate_transpose", "reverse_sites", "copy", "clone", "on_bra"):
        f = P.methods.get(name) or prog.lookup_method(O, name)
        if f is None:
            continue
        me = f.params[0]
        src = [n for n in ast.walk(f.node) if isinstance(n, ast.Call) and isinstance(n.func, ast.Attribute)
               and A.text(n.func.value) == me and n.func.attr in ("shallow_copy", "conj", "transpose")]
        direct_self = [r for r in A.returns_of(f.node) if r.value is not None and A.text(r.value) == me]
        stores = [n for n in ast.walk(f.node) if isinstance(n, ast.Assign) and isinstance(n.targets[0], ast.Attribute) and n.targets[0].attr == "factor"]
        bad = [s for s in stores if f"{me}.factor" not in A.text(s.value)]
        inherits = False
        if not (src or direct_self):
            # the result is a freshly constructed object (not a shallow copy): on *every* path to return its factor is taken from the operand
            from ..core.cfg import CFG
            cfg_ = CFG(f.node)
            takes = [s_ for s_ in stores if A.text(s_.value) == f"{me}.factor"]
            inherits = bool(takes) and cfg_.always_followed(cfg_.entry.id, takes, strict=True)
        ok = (bool(src) or bool(direct_self) or inherits) and not bad
        chk.verdict("FF1", f, f"{f.short}: built on a shallow copy, factor untouched", True if ok else False,
                    f"{f.short}(): the result is not derived from a shallow copy of the operand or overwrites `.factor` independently of it")
    # zipper: factor of the MPO enters when the norm is tracked (path-sensitive in `normalize`)
    z = prog.func(COMP, "zipper")
    e8.check_norm_switch(chk, "FF6", z, "psi", must_enter="a.factor")
    e8.check_norm_switch(chk, "FF6", prog.func(COMP, "_zipper_MpoOBC"), "psi", resets=True)
    e8.check_norm_switch(chk, "FF6", prog.func(COMP, "_zipper_MpoPBC"), "psi")
    psi_def = [n for n in ast.walk(z.node) if isinstance(n, ast.Assign) and A.text(n.targets[0]) == "psi"]
    chk.verdict("FF1", (z, psi_def[0]), psi_def[0], True if A.text(psi_def[0].value) == "b.shallow_copy()" else False,
                "zipper: the result is not started from a shallow copy of `b` (its factor and tensors)")
    # overlaps: factor() of environments and measure()
    e2 = prog.cls(ENV, "Env2")
    e3 = prog.cls(ENV, "EnvParent_3")
    e8.check_flow(chk, "FF1", e2.methods["factor"], ["self.bra", "self.ket"], "Env2.factor()")
    e8.check_flow(chk, "FF1", e3.methods["factor"], ["self.bra", "self.op", "self.ket"], "EnvParent_3.factor()")
    for ci in (e2, e3):
        m = ci.methods["measure"]
        rets = [r for r in A.returns_of(m.node) if r.value is not None]
        me_ = m.params[0]
        tn = e8.Taint(m.node, lambda n_: isinstance(n_, ast.Call) and A.text(n_.func) == f"{me_}.factor")
        ok = bool(rets) and all(tn.mentions(r.value) for r in rets)
        chk.verdict("FF1", (m, rets[0]), rets[0].value, True if ok else False,
                    f"{ci.name}.measure(): the overlap is not multiplied by self.factor() (product of the factors of bra, op, ket)")
    ep = prog.cls(ENV, "EnvParent")
    for name in ("project_ket_on_bra_1", "project_ket_on_bra_2"):
        e8.check_flow(chk, "FF1", ep.methods[name], ["self.ket"], "projected tensor")
    # ---- FF2 siblings
    chk.extra["Heff_siblings"] = e8.check_heff_factor(chk, "FF2")
    es = prog.cls(ENV, "Env_sum")
    for name in ("Heff0", "Heff1", "Heff2", "measure"):
        f = es.methods[name]
        t = A.text(f.node)
        # the member's method of the same name is called on the variable of a loop / comprehension over self.envs (any name)
        loopvars = {x.id for n_ in ast.walk(f.node) if isinstance(n_, (ast.For, ast.comprehension)) and "self.envs" in A.text(n_.iter)
                    for x in ast.walk(n_.target) if isinstance(x, ast.Name)}
        ok = "self.envs" in t and any(isinstance(c_, ast.Call) and A.callee_attr(c_) == name and isinstance(c_.func.value, ast.Name) and c_.func.value.id in loopvars
                                      for c_ in ast.walk(f.node))
        chk.verdict("FF2", f, f"Env_sum.{name} sums its members", True if ok else False, f"Env_sum.{name}() does not combine all member environments")
    # ---- FF7 boundary charges of the <bra|op|ket> environment
    e6.run_CK1(chk, "FF7", [ENV, "yastn.tn.mps._measure", COMP, "yastn.tn.mps._initialize", OBC, PAR], floor_sites=2)
    # ---- FF8 sesquilinearity of the overlap recursions
    from . import e7
    n8 = 0
    for ci in prog.module(ENV).classes.values():
        for name, f in ci.methods.items():
            if f.cls is ci and name in ("update_env_to_first", "update_env_to_last", "update_env_", "update_env_op_", "hole",
                                        "project_ket_on_bra_1", "project_ket_on_bra_2"):
                n8 += e7.check_conj_typing(chk, "FF8", f, [p for p in f.params[1:2] if p.startswith("vec")])
    chk.require(n8 >= 25, f"FF8: only {n8} typed contraction operands")
    # ---- FF3
    e8.mul_identity(chk, P.methods["__mul__"])
    e8.scalar_siblings(chk, P)
    run_FF9(chk)
    run_FF10(chk)

    from . import e3 as _e3
    _e3.run_I5(chk, ("yastn.tn.mps",), floor=1)
    from . import e10
    e10.run_U(chk, ("yastn.tn.mps._mps_obc", "yastn.tn.mps._mps_parent", "yastn.tn.mps._compression", "yastn.tn.mps._initialize", "yastn.tn.mps._measure", "yastn.tn.mps._env"), floor1=5, floor2=1)


def run_FF10(chk):
    """FF10: (i) a sum over the member environments counts every member exactly once: a method of Env_sum that starts its accumulator from
    member 0 (`tmp = self.envs[0].m(..)`) adds the members `self.envs[1:]`, one that starts from an empty accumulator adds all of them
    (sibling agreement of Heff0/1/2 and project_ket_on_bra_1/2).  (ii) `np.number * psi` arrives in __array_ufunc__ and is handed to
    __mul__ *unchanged*: a conversion on the way (float(), .real, abs()) silently drops the imaginary part of a complex scalar."""
    prog = chk.prog
    chk.rule("FF10", "sums over member environments count each member once; numpy scalars reach __mul__ unchanged", floor=5)
    es = prog.module(ENV).classes.get("Env_sum")
    chk.require(es is not None, "Env_sum not found")
    for name, f in es.methods.items():
        if f.cls is not es:
            continue
        me = f.params[0]
        loops = [n for n in ast.walk(f.node) if isinstance(n, ast.For) and A.text(n.iter).startswith(f"{me}.envs")]
        init0 = [n for n in ast.walk(f.node) if isinstance(n, ast.Assign) and isinstance(n.value, ast.Call) and A.text(n.value.func).startswith(f"{me}.envs[0].")]
        for lp in loops:
            adds = [n for n in ast.walk(lp) if isinstance(n, (ast.Assign, ast.AugAssign)) and any(isinstance(x, ast.Call) and isinstance(x.func, ast.Attribute)
                    and isinstance(x.func.value, ast.Name) and x.func.value.id == A.text(lp.target) for x in ast.walk(n))]
            acc = [n for n in adds if (isinstance(n, ast.AugAssign) and isinstance(n.op, ast.Add)) or (isinstance(n, ast.Assign) and isinstance(n.value, ast.BinOp)
                   and isinstance(n.value.op, ast.Add) and A.text(n.targets[0]) in (A.text(n.value.left), A.text(n.value.right)))]
            if not acc:
                continue
            accname = A.text(acc[0].targets[0] if isinstance(acc[0], ast.Assign) else acc[0].target)
            from0 = any(A.text(i_.targets[0]) == accname and A.callee_attr(i_.value) == (A.callee_attr([x for x in ast.walk(acc[0]) if isinstance(x, ast.Call)][0]))
                        for i_ in init0)
            it = A.text(lp.iter)
            ok = (it == f"{me}.envs[1:]") if from0 else (it == f"{me}.envs")
            chk.verdict("FF10", (f, lp), f"Env_sum.{name}: accumulator {'starts from member 0' if from0 else 'starts empty'}, loop over `{it}`", True if ok else False,
                        f"Env_sum.{name}(): the accumulator {'already holds the contribution of member 0' if from0 else 'starts empty'} but the loop runs over `{it}`: "
                        f"{'member 0 is counted twice' if from0 else 'member 0 is left out'} -- a sum of operators / states enters with wrong weights "
                        f"(its sibling methods loop over `{me}.envs[1:]`)")
    P = prog.cls(PAR, "_MpsMpoParent")
    au = P.methods.get("__array_ufunc__")
    if au is not None:
        muls = [c for c in A.calls(au.node) if A.callee_attr(c) == "__mul__" and len(c.args) == 1]
        b = A.local_bindings(au.node)
        for c in muls:
            a0 = c.args[0]
            unpacked = isinstance(a0, ast.Name) and any(k == "unpack" or (k == "assign") for st, v, k in b.get(a0.id, []))
            chk.verdict("FF10", (au, c), f"__array_ufunc__: `{A.short(c, 50)}` passes the numpy scalar unchanged", True if unpacked else False,
                        f"__array_ufunc__: the scalar is handed to __mul__ as `{A.text(a0)}`, not as received: a conversion such as float() keeps only "
                        f"the real part of a complex numpy scalar (`np.exp(1j*t) * psi` becomes `cos(t) * psi`)")

def run_FF9(chk):
    """FF9: where the virtual legs of a site tensor are created with add_leg, the leg that takes the *default* charge absorbs whatever
    total charge the tensor still has.  The convention of the package (overlaps, environments, +, @ all rely on it) is that this is
    the first virtual leg (axis=0, s=-1): the first default-charge add_leg executed on a tensor must be that one; a second one then
    finds charge zero.  With the order exchanged the charge sits on the last virtual leg and every overlap with a conventional
    MPS/MPO vanishes by symmetry."""
    prog = chk.prog
    chk.rule("FF9", "the virtual leg that absorbs the total charge of a site tensor (default charge of add_leg) is the first one (axis=0, s=-1)", floor=2)
    for f in prog.all_funcs():
        if not f.module.name.startswith("yastn.tn.mps") or "add_leg" not in A.text(f.node):
            continue
        par = A.enclosing_map(f.node)
        calls = []
        for c in A.walk_local(f.node, include_self=False):
            if isinstance(c, ast.Call) and isinstance(c.func, ast.Attribute) and c.func.attr == "add_leg" and A.kwarg(c, "t") is None and A.kwarg(c, "leg") is None:
                depth, root = 0, c.func.value
                while isinstance(root, ast.Call) and isinstance(root.func, ast.Attribute) and root.func.attr == "add_leg":
                    depth += 1
                    root = root.func.value
                st = A.stmt_of(c, par)
                calls.append(((st.lineno, depth), A.text(root), c))
        first = {}
        for key, root, c in sorted(calls, key=lambda x: x[0]):
            first.setdefault(root, c)
        for root, c in first.items():
            ax, sg = A.kwarg(c, "axis"), A.kwarg(c, "s")
            ok = ax is not None and A.neg_const(ax) == 0 and sg is not None and A.neg_const(sg) == -1
            chk.verdict("FF9", (f, c), f"{f.short}: first default-charge add_leg on `{root}` is `{A.short(c, 40)[-40:]}`", True if ok else False,
                        f"{f.short}(): the first add_leg executed on `{root}` without an explicit charge is `add_leg({', '.join(k.arg + '=' + A.text(k.value) for k in c.keywords)})`: it "
                        f"absorbs the total charge of the tensor, which by the convention of the package belongs on the first virtual leg (axis=0, s=-1); "
                        f"a charged state built this way has zero overlap with every conventional MPS/MPO")

MUTANTS = [
    ('first member counted twice', 'yastn/tn/mps/_env.py', '        tmp = self.envs[0].project_ket_on_bra_2(bd)\n        for env in self.envs[1:]:', '        tmp = self.envs[0].project_ket_on_bra_2(bd)\n        for env in self.envs:', 'FF10'),
    ('numpy scalar converted to float', 'yastn/tn/mps/_mps_parent.py', '            return rhs.__mul__(lhs)', '            return rhs.__mul__(float(lhs))', 'FF10'),
    ('truediv keeps the phase of the divisor', 'yastn/tn/mps/_mps_parent.py', '        return self.__mul__(1 / number)', '        phi = self.shallow_copy()\n        am = abs(number)\n        phi.factor = self.factor / am\n        phi.A[0] = phi.A[0] * (number / am)\n        return phi', 'FF3'),
    ('charge absorbed by the last virtual leg', 'yastn/tn/mps/_initialize.py', '    ten = ten.add_leg(axis=0, s=-1).add_leg(axis=-nr_phys, s=1)', '    ten = ten.add_leg(axis=-nr_phys, s=1).add_leg(axis=0, s=-1)', 'FF9'),
    ("Heff2 forgets factor", "yastn/tn/mps/_env.py", "        tmp = tensordot(self.F[n1 - 1, n1], tmp, axes=((0, 1), (3, 0)))\n        return tmp * self.op.factor\n\n    def hole(self, n):", "        tmp = tensordot(self.F[n1 - 1, n1], tmp, axes=((0, 1), (3, 0)))\n        return tmp\n\n    def hole(self, n):", "FF2"),
    ("mul keeps old factor", "yastn/tn/mps/_mps_parent.py", "            phi.factor = am * self.factor\n            phi.A[0] = phi.A[0] * (number / am)", "            phi.factor = self.factor\n            phi.A[0] = phi.A[0] * (number / am)", "FF3"),
    ("add ignores factors", "yastn/tn/mps/_mps_obc.py", "    amplitudes = [x * psi.factor for x, psi in zip(amplitudes, states)]", "    amplitudes = [x for x, psi in zip(amplitudes, states)]", "FF1"),
    ("multiply forgets b.factor", "yastn/tn/mps/_mps_obc.py", "    phi.factor = a.factor * b.factor", "    phi.factor = a.factor", "FF1"),
    ("measure without factor", "yastn/tn/mps/_env.py", "        return self.factor() * vdot(vecL, vecR, conj=(0, 0))", "        return vdot(vecL, vecR, conj=(0, 0))", "FF1"),
    ("zipper guard inverted", "yastn/tn/mps/_compression.py", "    if not normalize:\n        psi.factor = psi.factor * a.factor", "    if normalize:\n        psi.factor = psi.factor * a.factor", "FF6"),
    ("zipper overwrites factor", "yastn/tn/mps/_compression.py", "        psi.factor = psi.factor * nS\n\n    tmp = tmp.fuse_legs(axes=((0, 1), 2))", "        psi.factor = nS\n\n    tmp = tmp.fuse_legs(axes=((0, 1), 2))", "FF6"),
    ("boundary charge without signature", "yastn/tn/mps/_env.py", "        n_rt = ket.config.sym.add_charges(legv.t[0], signatures=(legv.s,), new_signature=-1)", "        n_rt = ket.config.sym.add_charges(legv.t[0], new_signature=-1)", "FF7"),
    ("ket conjugated in Env2", "yastn/tn/mps/_env.py", "        tmp = tensordot(self.ket.A[n], vecR, axes=(2, 0))\n        tmp = tmp.swap_gate(axes=1, charge=vecR.n)\n        axes = ((1, 2), (1, 2)) if self.nr_phys == 1 else ((1, 3, 2), (1, 2, 3))", "        tmp = tensordot(self.ket.A[n].conj(), vecR, axes=(2, 0))\n        tmp = tmp.swap_gate(axes=1, charge=vecR.n)\n        axes = ((1, 2), (1, 2)) if self.nr_phys == 1 else ((1, 3, 2), (1, 2, 3))", "FF8"),
    ("env factor forgets op", "yastn/tn/mps/_env.py", "        return self.bra.factor * self.op.factor * self.ket.factor", "        return self.bra.factor * self.ket.factor", "FF1"),
]
BENIGN = [
    ("zipper guard as if/else", "yastn/tn/mps/_compression.py", "    if not normalize:\n        psi.factor = psi.factor * a.factor", "    if normalize:\n        pass\n    else:\n        psi.factor = a.factor * psi.factor"),
    ("reorder product", "yastn/tn/mps/_mps_obc.py", "    phi.factor = a.factor * b.factor", "    phi.factor = b.factor * a.factor"),
]
