"""E9 — configuration knobs are performance switches only (C14 N1-N3) and fusion-compatibility discipline (C03 F1-F2)."""
from __future__ import annotations

import ast

from ..core import astutil as A
from ..core.cfg import CFG
from ..core.errors import AnalysisError

KNOBS = ("tensordot_policy", "default_fusion", "force_fusion")
CON = "yastn.tensor._contractions"
MRG = "yastn.tensor._merging"


def run_N1(chk):
    """who-may-read: the three knobs are read only by the two dispatch sites"""
    prog = chk.prog
    chk.rule("N1", "tensordot_policy/default_fusion/force_fusion are read only by tensordot and fuse_legs", floor=6)
    allowed = {("yastn.tensor._contractions", "tensordot"): {"tensordot_policy"},
               ("yastn.tensor._merging", "fuse_legs"): {"default_fusion", "force_fusion"}}
    n = 0
    for m in prog.modules.values():
        if "torch" in m.name:
            continue
        for f in list(m.funcs.values()) + [mm for c in m.classes.values() for mm in c.methods.values() if mm.cls is c]:
            for x in ast.walk(f.node):
                if isinstance(x, ast.Attribute) and x.attr in KNOBS and isinstance(x.ctx, ast.Load):
                    n += 1
                    ok = x.attr in allowed.get((m.name, f.name), set())
                    chk.verdict("N1", (f, x), f"{A.text(x)} in {f.short}", True if ok else False,
                                f"{f.short}() reads the performance knob `{x.attr}`: code outside the dispatch sites (tensordot, fuse_legs) "
                                f"must not let structure or data depend on it")
                if isinstance(x, ast.Call) and A.call_name(x) == "getattr" and len(x.args) >= 2 and isinstance(x.args[1], ast.Constant) \
                        and x.args[1].value in KNOBS and (m.name, f.name) not in allowed and f.name not in ("__init__", "make_config"):
                    chk.bad("N1", (f, x), x, f"{f.short}() reads the knob `{x.args[1].value}` through getattr")
    chk.extra["knob_reads"] = n


def _rename(node, ren):
    import copy

    class R(ast.NodeTransformer):
        def visit_Name(self, n):
            return ast.Name(id=ren[n.id], ctx=n.ctx) if n.id in ren else n
    return R().visit(copy.deepcopy(node))


def run_N23(chk):
    """N2/N3: the knob only selects among kernels that are handed the same operands and bind the same result triple;
    all bookkeeping of the result (n, mfs, hfs, masks, trans) is outside the dispatch.  Structural: local names are read off
    the code (dispatch targets, final _replace keywords), temporaries are inlined."""
    prog = chk.prog
    chk.rule("N2", "the policy only selects a kernel: branches bind the same results from the same operands; unknown values raise", floor=6)
    chk.rule("N3", "charge, fusion metadata and masking of a contraction are computed outside the policy dispatch", floor=6)
    f = prog.func(CON, "tensordot")
    fn = f.node
    inl = A.Inliner(fn)

    def reads_policy(e):
        return any(isinstance(x, ast.Attribute) and x.attr == "tensordot_policy" for x in ast.walk(inl.expand(e)))
    chain = [n for n in fn.body if isinstance(n, ast.If) and reads_policy(n.test)]
    chk.require(len(chain) == 1, "tensordot: policy dispatch chain not found")
    node = chain[0]
    inside = set(map(id, ast.walk(node)))
    branches = []
    cur = node
    while True:
        branches.append((cur.test, cur.body))
        if len(cur.orelse) == 1 and isinstance(cur.orelse[0], ast.If):
            cur = cur.orelse[0]
        else:
            tail = cur.orelse
            break
    policies = []
    targets = set()
    kernels = []
    for test, body in branches:
        t = inl.expand(test)
        ok_test = isinstance(t, ast.Compare) and len(t.ops) == 1 and isinstance(t.ops[0], ast.Eq) and (
            (A.text(t.left).endswith(".tensordot_policy") and isinstance(t.comparators[0], ast.Constant)) or
            (A.text(t.comparators[0]).endswith(".tensordot_policy") and isinstance(t.left, ast.Constant)))
        chk.verdict("N2", (f, test), test, True if ok_test else False, "tensordot: the dispatch test is not `config.tensordot_policy == <literal>`")
        if ok_test:
            policies.append(t.comparators[0].value if isinstance(t.comparators[0], ast.Constant) else t.left.value)
        ok_body = len(body) == 1 and isinstance(body[0], ast.Assign) and isinstance(body[0].value, ast.Call)
        chk.verdict("N2", (f, body[0]), body[0], True if ok_body else False,
                    "tensordot: a policy branch does more than bind the result of one kernel call")
        if ok_body:
            targets.add(A.text(body[0].targets[0]))
            kernels.append(body[0])
    chk.require(len(kernels) >= 2, "tensordot: fewer than two policy branches")
    same_t = len(targets) == 1 and isinstance(kernels[0].targets[0], ast.Tuple) and len(kernels[0].targets[0].elts) == 3
    chk.verdict("N2", (f, node), "all branches bind the same (data, struct, slices) triple", True if same_t else False,
                f"tensordot: policy branches bind different results {sorted(targets)}")
    chk.verdict("N2", (f, node), "unknown policy raises", True if tail and isinstance(tail[0], ast.Raise) else False,
                "tensordot: an unrecognised tensordot_policy does not raise")
    # same operands in the same roles: the first six arguments agree between all kernels and are the two operands followed by
    # their (outgoing, contracted) / (contracted, outgoing) native leg tuples
    sigs = [[A.text(a) for a in k.value.args[:6]] for k in kernels]
    same = all(s_ == sigs[0] for s_ in sigs) and len(sigs[0]) == 6 and sigs[0][:2] == f.params[:2]
    chk.verdict("N2", (f, node), f"kernels receive the same six operands {sigs[0]}: {[A.call_name(k.value) for k in kernels]}", True if same else False,
                f"tensordot: the kernels are not called with the same operands in the same roles: {sigs}")
    # N3: bookkeeping outside.  Every name that feeds the final _replace (other than the kernel's triple) is defined outside the dispatch
    me = f.params[0]
    ret = [r for r in A.returns_of(fn) if r.value is not None and isinstance(r.value, ast.Call) and A.text(r.value.func) == f"{me}._replace"]
    chk.require(ret, "tensordot: final _replace(...) not found")
    kws = {k.arg: k.value for k in ret[-1].value.keywords}
    triple = [A.text(e) for e in kernels[0].targets[0].elts] if same_t else []
    want_from_kernel = {"data": 0, "struct": 1, "slices": 2}
    ok = set(kws) == {"data", "struct", "slices", "mfs", "hfs", "trans"} and A.text(kws.get("trans")) == "None" and bool(triple) and \
        all(A.text(kws[k]) == triple[i] for k, i in want_from_kernel.items())
    chk.verdict("N3", (f, ret[-1]), ret[-1].value, True if ok else False,
                f"tensordot: the result is not assembled from the kernel's (data, struct, slices), policy-independent mfs/hfs and trans=None: "
                f"{ {k: A.text(v) for k, v in kws.items()} }")
    b = A.local_bindings(fn)

    def defs_outside(name, seen=()):
        """all definitions of `name` (and, transitively, of the locals they use) lie outside the dispatch"""
        if name in seen or name in f.params and name not in b:
            return True
        for st, v, k in b.get(name, []):
            if id(st) in inside:
                return False
            if v is not None:
                for x in ast.walk(v):
                    if isinstance(x, ast.Name) and isinstance(x.ctx, ast.Load) and x.id in b and x.id not in triple and x.id != name:
                        if not defs_outside(x.id, seen + (name,)):
                            return False
        return True
    for kw in ("mfs", "hfs"):
        v = kws.get(kw)
        nm = A.text(v) if v is not None else "?"
        okk = isinstance(v, ast.Name) and defs_outside(v.id)
        chk.verdict("N3", (f, ret[-1]), f"{kw}={nm} defined outside the dispatch", True if okk else False,
                    f"tensordot: `{nm}` ({kw} of the result) is computed inside a policy branch (or from something that is): the result's "
                    f"{kw} depends on the performance knob")
    # total charge: after the dispatch the kernel's struct gets n=<policy-independent charge of a and b>
    post = [n for n in fn.body if isinstance(n, ast.Assign) and triple and A.text(n.targets[0]) == triple[1] and n.lineno > node.lineno
            and isinstance(n.value, ast.Call) and A.text(n.value.func) == f"{triple[1]}._replace" and A.kwarg(n.value, "n") is not None]
    okc = False
    if post:
        nv = A.kwarg(post[0].value, "n")
        e = inl.expand(nv)
        okc = (not isinstance(nv, ast.Name) or defs_outside(nv.id)) and isinstance(e, ast.Call) and A.callee_attr(e) == "add_charges" \
            and {A.text(a_) for a_ in e.args} == {f"{f.params[0]}.struct.n", f"{f.params[1]}.struct.n"}
    chk.verdict("N3", (f, post[0] if post else fn), post[0] if post else "struct = struct._replace(n=...)", True if okc else False,
                "tensordot: the total charge is not set (after the dispatch) to the policy-independent sum of the operands' charges")
    # the kernel's signature argument (if any) is policy independent as well
    for k in kernels:
        for a_ in k.value.args[6:]:
            if isinstance(a_, ast.Name):
                chk.verdict("N3", (f, k), f"extra kernel argument `{a_.id}` defined outside the dispatch", True if defs_outside(a_.id) else False,
                            f"tensordot: `{a_.id}` handed to {A.call_name(k.value)} is computed inside the dispatch")
    # masking precedes the dispatch
    verdicts = set()
    for n in A.walk_local(fn):
        if isinstance(n, ast.Assign) and isinstance(n.value, ast.Call) and A.call_name(n.value) == "_unpack_trans_test_axes_pair" \
                and isinstance(n.targets[0], ast.Tuple) and isinstance(n.targets[0].elts[0], ast.Name):
            verdicts.add(n.targets[0].elts[0].id)
    mask_if = [n for n in fn.body if isinstance(n, ast.If) and isinstance(n.test, ast.Name) and n.test.id in verdicts]
    chk.verdict("N3", (f, mask_if[0] if mask_if else fn), "masking precedes the dispatch", True if mask_if and mask_if[0].lineno < node.lineno else False,
                "tensordot: the fusion-mismatch masking is not applied before (and independently of) the policy dispatch")
    # sibling agreement of the three kernels: the blocks to contract are selected by one call of _common_inds with the same arguments
    knames = [A.call_name(k.value) for k in kernels]
    kfs = [prog.func(CON, kn) for kn in knames]
    cis = []
    for k in kfs:
        ci = [c for c in A.calls(k.node) if A.call_name(c) == "_common_inds"]
        chk.verdict("N2", (k, ci[0] if ci else k.node), ci[0] if ci else k.name, True if len(ci) == 1 else False,
                    f"{k.name}: blocks to contract are not selected by one call of _common_inds like in its siblings")
        if len(ci) == 1:
            # arguments written in terms of parameter positions, so that kernels with differently named parameters still compare
            ren = {p_: f"P{i}" for i, p_ in enumerate(k.params)}
            cis.append([A.text(_rename(a_, ren)) for a_ in ci[0].args])
    chk.verdict("N2", (kfs[0], kfs[0].node), "all kernels call _common_inds with the same arguments", True if cis and all(c == cis[0] for c in cis) else False,
                f"the contraction kernels select the blocks to contract differently: {cis}")
    # operand orders: (outgoing, contracted) x (contracted, outgoing), by parameter position
    for k in kfs:
        p_ = k.params
        if len(p_) < 6:
            chk.bad("N2", k, k.name, f"{k.name}: fewer than six parameters")
            continue
        adds = {(A.text(n.left), A.text(n.right)) for n in ast.walk(k.node) if isinstance(n, ast.BinOp) and isinstance(n.op, ast.Add)}
        pairs = {(A.text(t.elts[0]), A.text(t.elts[1])) for t in ast.walk(k.node) if isinstance(t, ast.Tuple) and len(t.elts) == 2}
        ok = ((p_[2], p_[3]) in adds and (p_[4], p_[5]) in adds) or ((p_[2], p_[3]) in pairs and (p_[4], p_[5]) in pairs)
        chk.verdict("N2", k, f"{k.name}: operands arranged as ({p_[2]}, {p_[3]}) x ({p_[4]}, {p_[5]})", True if ok else False,
                    f"{k.name}: operands are not arranged as (outgoing, contracted) x (contracted, outgoing)")
    # fuse_legs: both modes validated before the split; unknown mode raises; mode only compared with literals
    g = prog.func(MRG, "fuse_legs")
    gn = g.node
    cfg = CFG(gn)
    mode = g.params[2]

    # Decided on the CFG specialised on the value of `mode` (after the defaults were applied): for 'meta' and 'hard' every computing
    # return is dominated by the mode-independent validation of axes; for any other value every path ends in `raise`.
    val = [n for n in A.walk_local(gn) if isinstance(n, ast.Expr) and isinstance(n.value, ast.Call) and A.call_name(n.value) == "_test_axes_all"]
    empt = [n for n in A.walk_local(gn) if isinstance(n, ast.If) and any(isinstance(x, ast.Raise) for x in n.body)
            and any(isinstance(x, ast.Call) and A.call_name(x) == "len" for x in ast.walk(n.test))]
    chk.require(val and empt, "fuse_legs: validation of axes (_test_axes_all, empty-group guard) not found")
    # statements that may rebind `mode` (defaults from the config) come first; the specialisation applies to the tests after them
    rets = [n_.ast for n_ in cfg.nodes if isinstance(n_.ast, ast.Return) and n_.ast.value is not None]
    for lit in ("meta", "hard"):
        g_ = cfg.specialised({mode: lit})
        live = g_.reach_from({g_.entry.id})
        lr = [r for r in rets if cfg.node_of[r].id in live]
        ok = bool(lr) and all(g_.must_pass([r], [val[0]]) and g_.must_pass([r], [empt[0].test]) for r in lr)
        chk.verdict("N3", (g, lr[0] if lr else gn), f"mode == '{lit}': results are computed after the mode-independent validation of axes", True if ok else False,
                    f"fuse_legs: with mode='{lit}' a result is reachable without the mode-independent validation of axes")
    g_ = cfg.specialised({mode: "<anything else>"})
    live = g_.reach_from({g_.entry.id})
    # `mode is None` / force_fusion branches rebind mode; they are not decided by the assumption and keep both edges, so a return that is
    # live here would be live for an unknown mode
    lr = [r for r in rets if cfg.node_of[r].id in live]
    chk.verdict("N2", (g, lr[0] if lr else gn), "unknown mode raises", True if not lr else False,
                "fuse_legs: an unrecognised fusion mode does not raise")
    parent = A.enclosing_map(gn)
    uses = [n for n in ast.walk(gn) if isinstance(n, ast.Name) and n.id == mode and isinstance(n.ctx, ast.Load)]
    ok = all(isinstance(parent.get(u), ast.Compare) for u in uses)
    chk.verdict("N2", g, "the fusion mode is only compared, never used as a value", True if ok else False,
                "fuse_legs: the fusion mode flows into something other than the dispatch tests")
# -------------------------------------------------------------------- F1 / F2 (C03)
def run_F(chk):
    prog = chk.prog
    chk.rule("F1", "binary/unary leg operations pass the fusion-compatibility test before computing; fused legs are rejected where unsupported", floor=10)
    chk.rule("F2", "the `mask_needed` verdict is consumed: it guards masking/embedding and the histories are replaced", floor=6)
    # --- F1: test dominates every computing return
    for mod, name, needs in ((CON, "tensordot", ("_unpack_trans_test_axes_pair",)), (CON, "vdot", ("_unpack_trans_test_axes_pair", "_test_can_be_combined")),
                             (CON, "trace", ("_unpack_trans_test_axes_pair",)),
                             ("yastn.tensor._algebra", "_pre_addition", ("_unpack_trans_test_axes_pair", "_test_can_be_combined"))):
        f = prog.func(mod, name)
        cfg = CFG(f.node)
        stmts = [n.ast for n in cfg.nodes if n.ast is not None]
        rets = [s for s in stmts if isinstance(s, ast.Return) and s.value is not None and not (isinstance(s.value, ast.Name) and s.value.id == "a")
                and not (isinstance(s.value, ast.Call) and A.call_name(s.value) in ("_tensordot_diag",)) and "SpecialTensor" not in A.text(s)
                and not (isinstance(s.value, ast.Call) and isinstance(s.value.func, ast.Attribute) and A.text(s.value.func).endswith(".tensordot"))]
        for need in needs:
            calls = [s for s in stmts if any(isinstance(c, ast.Call) and A.call_name(c) == need for c in ast.walk(s))]
            if not calls:
                chk.bad("F1", f, f"{name}: {need}", f"{name}(): the compatibility test {need}() is no longer called")
                continue
            for r in rets:
                ok = cfg.must_pass([r], calls)
                chk.verdict("F1", (f, r), f"{name}: {need} dominates `{A.short(r, 50)}`", True if ok else False,
                            f"{name}(): a result is computed on a path that skips {need}(): operands with incompatible fusion "
                            f"structure, signatures or configuration are combined instead of being rejected")
    # tensordot: _test_can_be_combined dominates the non-diagonal computation
    f = prog.func(CON, "tensordot")
    cfg = CFG(f.node)
    stmts = [n.ast for n in cfg.nodes if n.ast is not None]
    comb = [s for s in stmts if any(isinstance(c, ast.Call) and A.call_name(c) == "_test_can_be_combined" for c in ast.walk(s))]
    final = [s for s in stmts if isinstance(s, ast.Return) and isinstance(s.value, ast.Call) and A.text(s.value.func) == "a._replace"]
    chk.verdict("F1", (f, final[-1]), "tensordot: _test_can_be_combined dominates the contraction", True if comb and final and cfg.must_pass([final[-1]], comb) else False,
                "tensordot(): tensors with different symmetry/statistics/backend are contracted instead of being rejected")
    # rejection of fused legs where unsupported
    for mod, name, frag in ((CON, "broadcast", ["b.mfs[ax] != (1,)", "b.hfs[ax].tree != (1,)"]), (CON, "apply_mask", ["b.mfs[ax] != (1,)", "b.hfs[ax].tree != (1,)"]),
                            ("yastn.tensor._single", "flip_charges", ["hfs[ax].is_fused()"]),
                            ("yastn.tensor._single", "diag", ["mf != (1,)", "hf.tree != (1,)"])):
        f = prog.func(mod, name)
        ifs = [n for n in A.walk_local(f.node) if isinstance(n, ast.If) and any(isinstance(b_, ast.Raise) for b_ in n.body)]
        import re as _re
        for fr in frag:
            # the index variable may be named differently (e.g. after a helper was inlined): `b.mfs[ax] != (1,)` matches `b.mfs[<name>] != (1,)`
            pat = _re.escape(fr).replace(r"\[ax\]", r"\[\w+\]")
            hit = [n for n in ifs if _re.search(pat, A.text(n.test))]
            chk.verdict("F1", (f, hit[0] if hit else f.node), f"{name}: rejects `{fr}`", True if hit else False,
                        f"{name}(): legs that are fused (`{fr}`) are no longer rejected although the operation does not support them")
    uf = prog.func(MRG, "unfuse_legs")
    t = A.text(uf.node)
    chk.verdict("F1", uf, "unfuse_legs: block()-ed legs raise", True if "a.hfs[hi].op[0] == 'p'" in t and "Cannot unfuse a leg obtained as a result of yastn.block()" in t else False,
                "unfuse_legs(): a leg created by block() (direct sum) is no longer rejected")
    # --- F2: verdict consumed
    for mod, name, helpers, replaces in ((CON, "tensordot", ("_mask_tensors_leg_intersection", "_apply_mask_axes"), True),
                                         (CON, "vdot", ("_mask_tensors_leg_intersection", "_apply_mask_axes"), True),
                                         (CON, "trace", ("_mask_tensors_leg_intersection", "_apply_mask_axes"), True),
                                         ("yastn.tensor._algebra", "_pre_addition", ("legs_union", "_embed_tensor"), False)):
        f = prog.func(mod, name)
        calls = [n for n in A.walk_local(f.node) if isinstance(n, ast.Assign) and isinstance(n.value, ast.Call)
                 and A.call_name(n.value) == "_unpack_trans_test_axes_pair"]
        chk.require(calls, f"{name}: call of _unpack_trans_test_axes_pair not found")
        for c in calls:
            tgt = c.targets[0]
            first = tgt.elts[0] if isinstance(tgt, ast.Tuple) and tgt.elts else None
            verdict = first.id if isinstance(first, ast.Name) else None
            if verdict is None or verdict == "_":
                chk.bad("F2", (f, c), c, f"{name}(): the verdict `mask_needed` returned by the fusion test is discarded: legs fused from different "
                        f"charge-sector content are combined block by block without masking/embedding (silently wrong values)")
                continue
            # the verdict (possibly or-accumulated) guards an `if` whose body calls the helpers
            names = {verdict}
            for n in A.walk_local(f.node):
                if isinstance(n, ast.Assign) and isinstance(n.targets[0], ast.Name) and any(isinstance(x, ast.Name) and x.id in names for x in ast.walk(n.value)):
                    names.add(n.targets[0].id)
                if isinstance(n, ast.AugAssign) and isinstance(n.target, ast.Name) and any(isinstance(x, ast.Name) and x.id in names for x in ast.walk(n.value)):
                    names.add(n.target.id)
                # control dependence: `if verdict: flag = True`
                if isinstance(n, ast.If) and isinstance(n.test, ast.Name) and n.test.id in names and not n.orelse:
                    for b_ in n.body:
                        if isinstance(b_, ast.Assign) and isinstance(b_.targets[0], ast.Name) and isinstance(b_.value, ast.Constant) and b_.value.value is True:
                            names.add(b_.targets[0].id)
            guard = [n for n in A.walk_local(f.node) if isinstance(n, ast.If) and isinstance(n.test, ast.Name) and n.test.id in names
                     and not (len(n.body) == 1 and isinstance(n.body[0], ast.Assign) and isinstance(n.body[0].value, ast.Constant))]
            ok = False
            for g in guard:
                # calls made in the guarded block, including those of private helpers of the same module it calls (two levels)
                nodes = [x for b_ in g.body for x in ast.walk(b_)]
                frontier = list(nodes)
                for _lvl in range(2):
                    nxt = []
                    for x in frontier:
                        if isinstance(x, ast.Call) and isinstance(x.func, ast.Name):
                            tgt = prog.resolve(f.module, x.func.id)
                            if hasattr(tgt, "node") and hasattr(tgt, "params") and tgt.module is f.module and tgt.name not in helpers:
                                nxt += list(ast.walk(tgt.node))
                    nodes += nxt
                    frontier = nxt
                called = {A.call_name(x) for x in nodes if isinstance(x, ast.Call)}
                if all(h in called for h in helpers):
                    ok = True
                    if replaces:
                        rep = [x for x in nodes if isinstance(x, ast.Call) and isinstance(x.func, ast.Attribute)
                               and x.func.attr == "_replace" and any(k.arg == "hfs" for k in x.keywords)]
                        if not rep:
                            ok = False
            if not ok:
                # path form (early return `if not verdict: return ...` followed by the masking code, or any other control structure):
                # with the flag assumed true every path to a computing return passes a statement that (transitively) calls each
                # helper, with the flag assumed false no such statement is reachable
                cfgF = CFG(f.node)
                stmts_ = [n_.ast for n_ in cfgF.nodes if isinstance(n_.ast, ast.stmt)]

                def calls_of(st_):
                    nodes_ = list(ast.walk(st_)) if not isinstance(st_, (ast.If, ast.For, ast.While)) else list(ast.walk(st_.test if hasattr(st_, "test") else st_.iter))
                    front = list(nodes_)
                    for _lvl in range(2):
                        nx = []
                        for x in front:
                            if isinstance(x, ast.Call) and isinstance(x.func, ast.Name):
                                tg_ = prog.resolve(f.module, x.func.id)
                                if hasattr(tg_, "node") and hasattr(tg_, "params") and tg_.module is f.module and tg_.name not in helpers:
                                    nx += list(ast.walk(tg_.node))
                        nodes_ += nx
                        front = nx
                    return nodes_
                per_helper = {h: [st_ for st_ in stmts_ if any(isinstance(x, ast.Call) and A.call_name(x) == h for x in calls_of(st_))] for h in helpers}
                flagn = [nm for nm in names if any(isinstance(n_, ast.If) and nm in {x.id for x in ast.walk(n_.test) if isinstance(x, ast.Name)}
                                                   for n_ in A.walk_local(f.node))]
                rets_ = [st_ for st_ in stmts_ if isinstance(st_, ast.Return) and st_.value is not None]
                if all(per_helper.values()) and flagn and rets_:
                    for G_ in flagn:
                        gT = cfgF.specialised({G_: True})
                        gF = cfgF.specialised({G_: False})
                        liveT = gT.reach_from({gT.entry.id})
                        liveF = gF.reach_from({gF.entry.id})
                        final_ = [r_ for r_ in rets_ if cfgF.node_of[r_].id in liveT and any(cfgF.path_exists(hs_[0], r_) for hs_ in per_helper.values())]
                        okT = bool(final_) and all(gT.must_pass([r_], hs_) for r_ in final_ for hs_ in per_helper.values())
                        okF = all(cfgF.node_of[st_].id not in liveF for hs_ in per_helper.values() for st_ in hs_)
                        if okT and okF:
                            ok = True
                            if replaces:
                                allnodes = [x for hs_ in per_helper.values() for st_ in hs_ for x in calls_of(st_)]
                                between = [st_ for st_ in stmts_ if any(isinstance(x, ast.Call) and isinstance(x.func, ast.Attribute) and x.func.attr == "_replace"
                                                                          and any(k.arg == "hfs" for k in x.keywords) for x in calls_of(st_))]
                                ok = bool(between) and all(cfgF.node_of[st_].id not in liveF for st_ in between)
            # a verdict obtained pair by pair inside a loop must be accumulated (or-ed) into the flag that guards after the loop
            par = A.enclosing_map(f.node)
            loop = None
            cur = c
            while cur in par:
                cur = par[cur]
                if isinstance(cur, (ast.For, ast.While)):
                    loop = cur
                    break
            if loop is not None:
                for g in guard:
                    if g in list(ast.walk(loop)):
                        continue
                    G = g.test.id
                    inloop = [n for b_ in loop.body for n in ast.walk(b_) if isinstance(n, (ast.Assign, ast.AugAssign))
                              and G in A.assigned_names(n.targets[0] if isinstance(n, ast.Assign) else n.target)]
                    for n in inloop:
                        mono = False
                        if isinstance(n, ast.AugAssign) and isinstance(n.op, ast.BitOr):
                            mono = True
                        elif isinstance(n, ast.Assign):
                            v = n.value
                            if isinstance(v, ast.Constant) and v.value is True:
                                mono = True
                            elif isinstance(v, ast.BoolOp) and isinstance(v.op, ast.Or) and any(isinstance(x, ast.Name) and x.id == G for x in v.values):
                                mono = True
                            elif isinstance(v, ast.BinOp) and isinstance(v.op, ast.BitOr) and G in (A.text(v.left), A.text(v.right)):
                                mono = True
                        chk.verdict("F2", (f, n), f"{name}: `{G}` accumulates the pairwise verdicts (`{A.short(n, 50)}`)", True if mono else False,
                                    f"{name}(): the flag `{G}` that decides after the loop whether operands are embedded/masked is overwritten in "
                                    f"every iteration (`{A.short(n, 60)}`): only the last pair of operands decides; a mismatch between the first "
                                    f"operand and an earlier one is ignored whenever the last pair matches (3 or more operands)")
            chk.verdict("F2", (f, c), f"{name}: `{verdict}` guards {helpers}", True if ok else False,
                        f"{name}(): the verdict `{verdict}` of the fusion test does not guard the masking/embedding of mismatched legs "
                        f"({', '.join(helpers)}) followed by the replacement of the fusion histories")
    # --- F4: the mask test ranges over every leg for which a union was formed
    chk.rule("F4", "`any(_legs_mask_needed(..) for ..)` quantifies over an unfiltered enumeration of the legs (not over a selected subset)", floor=2)
    for mod, name in (("yastn.initialize", "block"), ("yastn.tensor._output", "to_nonsymmetric")):
        f = prog.func(mod, name)
        b = A.local_bindings(f.node)

        def domain(e, depth=0):
            """'full' | 'subset' | None for the iterable of the quantifier"""
            if depth > 4:
                return None
            if isinstance(e, ast.Call):
                nm = A.call_name(e) or ""
                if nm in ("enumerate", "range", "zip", "tuple", "list", "sorted", "reversed") :
                    subs = [domain(a_, depth + 1) for a_ in e.args if not isinstance(a_, ast.Constant)]
                    return "subset" if "subset" in subs else "full"
                if nm == "filter":
                    return "subset"
                if isinstance(e.func, ast.Attribute) and e.func.attr in ("items", "keys", "values"):
                    d_ = domain(e.func.value, depth + 1)
                    return d_ or "full"
                return "full"
            if isinstance(e, (ast.ListComp, ast.GeneratorExp, ast.SetComp, ast.DictComp)):
                if any(g.ifs for g in e.generators):
                    return "subset"
                return domain(e.generators[0].iter, depth + 1) or "full"
            if isinstance(e, ast.Subscript):
                return "subset" if isinstance(e.slice, ast.Slice) else "full"
            if isinstance(e, ast.Attribute):
                return "full"
            if isinstance(e, ast.Name):
                ds = [v for st, v, k in b.get(e.id, []) if v is not None and k == "assign"]
                if not ds:
                    return None
                got = [domain(v, depth + 1) for v in ds]
                return "subset" if "subset" in got else ("full" if all(g == "full" for g in got) else None)
            return None
        sites = [c for c in A.walk_local(f.node) if isinstance(c, ast.Call) and A.call_name(c) in ("any", "all") and c.args
                 and isinstance(c.args[0], (ast.GeneratorExp, ast.ListComp))
                 and any(isinstance(x, ast.Call) and A.call_name(x) == "_legs_mask_needed" for x in ast.walk(c.args[0].elt))]
        for c in sites:
            g = c.args[0]
            filt = any(gen.ifs for gen in g.generators)
            d = "subset" if filt else domain(g.generators[0].iter)
            chk.verdict("F4", (f, c), f"{name}: `{A.short(c, 70)}` ranges over {d or 'an unclassified domain'}", True if d == "full" else False if d == "subset" else None,
                        f"{name}(): the test that decides whether legs with different sector content have to be embedded is evaluated only for a "
                        f"selected subset of the legs (`{A.short(g.generators[0].iter, 40)}`), while leg unions are formed for every leg: a mismatch on a leg "
                        f"outside the subset is not embedded and blocks are combined at wrong offsets / with wrong shapes")
    # --- F5: parallel stacks of the fusion-tree parsers are consumed in lock-step
    chk.rule("F5", "fusion-tree parsers pop their parallel stacks (signatures, charges, dimensions, masks / histories) together, under the same conditions", floor=8)
    for f in prog.all_funcs({MRG}):
        fn = f.node
        if ".pop(" not in A.text(fn):
            continue
        par = A.enclosing_map(fn)
        groups = {}
        for st in A.walk_local(fn, include_self=False):
            if not isinstance(st, ast.Assign):
                continue
            pops = [c for c in ast.walk(st.value) if isinstance(c, ast.Call) and isinstance(c.func, ast.Attribute) and c.func.attr == "pop" and len(c.args) == 1
                    and isinstance(c.args[0], ast.Name)]
            counts = [g.iter for x in ast.walk(st.value) if isinstance(x, (ast.GeneratorExp, ast.ListComp)) for g in x.generators
                      if isinstance(g.iter, ast.Call) and A.call_name(g.iter) == "range" and isinstance(g.target, ast.Name) and g.target.id == "_"]
            if len(pops) != 1 or not counts:
                continue
            loop = st
            while loop in par and not isinstance(loop, (ast.For, ast.While)):
                loop = par[loop]
            if not isinstance(loop, (ast.For, ast.While)):
                continue
            groups.setdefault((id(loop), A.text(counts[0])), []).append((st, pops[0]))
        for (_lid, cnt), members in groups.items():
            if len(members) < 3:
                continue
            blocks = {}
            for st, pc in members:
                blk = A.block_of(st, par)
                blocks.setdefault(id(blk), []).append((st, pc))
            major = max(blocks.values(), key=len)
            for st, pc in members:
                ok = (st, pc) in major
                chk.verdict("F5", (f, st), f"{f.name}: `{A.short(st, 60)}` pops with its siblings ({len(major)} of {len(members)} in one block)", True if ok else False,
                            f"{f.name}(): `{A.short(st, 70)}` pops `{A.text(pc.func.value)}` under another condition than the parallel stacks "
                            f"({', '.join(A.text(p2.func.value) for s2, p2 in major)}): on the path that skips it the stack keeps the entries of a node that was already "
                            f"reduced, and every later node reads signatures / charges that belong to other leaves (wrong masks for nested fusions such as p(s(oo)o))")
    # --- F6: the compatibility test of two hard-fused legs looks at every field of the fusion record
    chk.rule("F6", "the fusion-compatibility test compares every field of the fusion records (tree, op, s, t, D) of the paired legs", floor=4)
    fus = prog.cls(MRG, "_Fusion")
    fields = [b_.target.id for b_ in fus.node.body if isinstance(b_, ast.AnnAssign) and isinstance(b_.target, ast.Name)]
    chk.require(len(fields) >= 4, "_Fusion: annotated fields not found")
    tp = prog.func("yastn.tensor._tests", "_unpack_trans_test_axes_pair")
    pa, pb = tp.params[0], tp.params[1]
    seen = {}
    # local names for one fusion record: `hfa, hfb = a.hfs[i1], b.hfs[i2]` / `hfa = a.hfs[i1]`
    rec = {}
    for n in ast.walk(tp.node):
        if isinstance(n, ast.Assign):
            tg, vl = n.targets[0], n.value
            pairs = list(zip(tg.elts, vl.elts)) if isinstance(tg, ast.Tuple) and isinstance(vl, ast.Tuple) and len(tg.elts) == len(vl.elts) else [(tg, vl)]
            for t_, v_ in pairs:
                if isinstance(t_, ast.Name) and isinstance(v_, ast.Subscript) and A.text(v_.value) in (f"{pa}.hfs", f"{pb}.hfs"):
                    rec[t_.id] = pa if A.text(v_.value) == f"{pa}.hfs" else pb
    for n in ast.walk(tp.node):
        if isinstance(n, ast.Attribute) and n.attr in fields and isinstance(n.value, ast.Subscript) and A.text(n.value.value) in (f"{pa}.hfs", f"{pb}.hfs"):
            seen.setdefault(n.attr, set()).add(A.text(n.value.value)[0:len(pa)] if A.text(n.value.value).startswith(pa + ".") else pb)
        elif isinstance(n, ast.Attribute) and n.attr in fields and isinstance(n.value, ast.Name) and n.value.id in rec:
            seen.setdefault(n.attr, set()).add(rec[n.value.id])
    for fld in fields:
        both = len(seen.get(fld, set())) == 2
        chk.verdict("F6", tp, f"_unpack_trans_test_axes_pair compares `{fld}` of both fusion records", True if both else False,
                    f"_unpack_trans_test_axes_pair(): the field `{fld}` of the fusion records of the paired hard-fused legs is not compared: legs fused from "
                    f"spaces that differ only in `{fld}` (e.g. the same charges with other dimensions of the constituent legs) pass as identical, no mask is "
                    f"computed and the 'do not match' errors behind it are never reached -- incompatible legs are combined block by block")
    # --- F7: splices at precomputed positions run back to front
    chk.rule("F7", "a loop that splices a list at positions taken from a precomputed sequence walks that sequence backwards", floor=1)
    for f in prog.all_funcs({MRG}):
        par_ = None
        for lp in A.walk_local(f.node, include_self=False):
            if not isinstance(lp, ast.For):
                continue
            tnames = set(A.assigned_names(lp.target))
            spl = None
            for st in lp.body:
                if isinstance(st, ast.Assign):
                    t_, v_ = st.targets[0], st.value
                    # L = L[:n] + X + L[n+1:]
                    if isinstance(t_, ast.Name) and isinstance(v_, ast.BinOp) and isinstance(v_.op, ast.Add):
                        parts = []

                        def flat(e):
                            if isinstance(e, ast.BinOp) and isinstance(e.op, ast.Add):
                                flat(e.left)
                                flat(e.right)
                            else:
                                parts.append(e)
                        flat(v_)
                        if len(parts) == 3 and all(isinstance(p_, ast.Subscript) and A.text(p_.value) == t_.id and isinstance(p_.slice, ast.Slice) for p_ in (parts[0], parts[2])) \
                                and parts[0].slice.lower is None and isinstance(parts[0].slice.upper, ast.Name) and parts[0].slice.upper.id in tnames:
                            spl = (st, t_.id, parts[0].slice.upper.id, parts[1])
                    # L[n:n+1] = X
                    if isinstance(t_, ast.Subscript) and isinstance(t_.slice, ast.Slice) and isinstance(t_.slice.lower, ast.Name) and t_.slice.lower.id in tnames \
                            and isinstance(t_.value, ast.Name):
                        spl = (st, t_.value.id, t_.slice.lower.id, v_)
            if spl is None:
                continue
            st, lname, pos, ins = spl
            # does the inserted piece have a length other than 1?  `[x] * k`, a comprehension, a name: possibly; a one-element display: no
            if isinstance(ins, (ast.List, ast.Tuple)) and len(ins.elts) == 1 and not isinstance(ins.elts[0], ast.Starred):
                continue
            it = lp.iter
            args = it.args if isinstance(it, ast.Call) and A.call_name(it) == "zip" else [it]

            def backwards(e):
                return (isinstance(e, ast.Subscript) and isinstance(e.slice, ast.Slice) and e.slice.step is not None and A.neg_const(e.slice.step) == -1) or \
                    (isinstance(e, ast.Call) and A.call_name(e) == "reversed")
            ok = all(backwards(a_) for a_ in args) or (isinstance(it, ast.Call) and A.call_name(it) == "reversed")
            chk.verdict("F7", (f, lp), f"{f.name}: `{A.short(st, 50)}` inside `for .. in {A.short(it, 40)}`", True if ok else False,
                        f"{f.name}(): the loop replaces one entry of `{lname}` at position `{pos}` by a piece of another length while walking the "
                        f"precomputed positions `{A.short(it, 40)}` front to back: every position after the first splice is stale (shifted by the "
                        f"entries inserted before it) -- the wrong legs are expanded when two or more entries are replaced and a multi-entry one "
                        f"sits in between; the sibling loop walks backwards")
    # sibling: fuse and unfuse derive the leg decomposition from the same table builder
    mf, mu = prog.func(MRG, "_meta_fuse_hard"), prog.func(MRG, "_meta_unfuse_hard")
    for f in (mf, mu):
        c = [x for x in A.calls(f.node) if A.call_name(x) == "_leg_structure_combine_charges_prod"]
        chk.verdict("F2", (f, c[0] if c else f.node), c[0] if c else f.name, True if c else False,
                    f"{f.name}: the fused-leg decomposition is no longer obtained from _leg_structure_combine_charges_prod (writer and "
                    f"reader of the fused layout must share one table builder)")
