"""C17 — serialisation round-trips every object (engine E4 `serial`): writer/reader *tables* agree.

Decided (necessary conditions of the round trip, for all objects at once):
  Z1  every state field of a serialisable class is written (or neutralised before writing, or named volatile)
  Z2  every key the reader needs is written by the writer of the same generation; written keys are consumed
  Z3  geometries: every constructor parameter is written by to_dict (reader = constructor(**dict))
  Z4  level>=1 conversions of Tensor.to_dict have their inverse on the same key in Tensor.from_dict
  Z5  registries are total: type name -> class, SYM_ID -> symmetry class, BACKEND_ID accepted by make_config
  Z6  rejection / conformance guards (config mismatch, type mismatch, meta conformance key lists)
  Z7  a writer that normalises a shallow copy (`psi = self.shallow_copy(); psi.absorb_central_()`) serialises
      the tensors of that copy, not of the original
Not decided: that *values* survive numpy/HDF5 I/O bit-for-bit.
"""
from __future__ import annotations

import ast

from ..core import astutil as A
from ..core.cfg import CFG
from ..core.errors import AnalysisError
from ..core.loader import ClassInfo, FuncInfo

META_KEYS = {"type", "dict_ver", "level", "class"}


# ------------------------------------------------------------------ extraction
def const_key(node):
    if isinstance(node, ast.Constant) and isinstance(node.value, str):
        return node.value
    return None


class Writer:
    """Keys written by a to_dict-like function."""

    def __init__(self, prog, f: FuncInfo, depth=0):
        self.prog, self.f = prog, f
        self.keys = {}          # key -> value node
        self.dynamic = []       # stores with non-constant key
        self.removed = set()
        self.spread = []        # **expr entries
        self.alt_returns = []   # returns that are not the dict (delegation)
        self.ok = self._extract(depth)

    def _dict_display(self, node, depth):
        for k, v in zip(node.keys, node.values):
            if k is None:
                self._spread(v, depth)
            else:
                ck = const_key(k)
                if ck is None:
                    self.dynamic.append(k)
                else:
                    self.keys[ck] = v

    def _spread(self, v, depth):
        """{**X}: X = super().to_dict() / self.geometry.to_dict() / a local dict"""
        self.spread.append(v)
        w = self._callee_writer(v, depth)
        if w is not None:
            self.keys.update(w.keys)
            self.dynamic += w.dynamic

    def _callee_writer(self, v, depth):
        if depth > 3 or not isinstance(v, ast.Call) or not isinstance(v.func, ast.Attribute):
            return None
        name = v.func.attr
        base = v.func.value
        if isinstance(base, ast.Call) and isinstance(base.func, ast.Name) and base.func.id == "super" and self.f.cls is not None:
            for c in self.prog.class_mro(self.f.cls)[1:]:
                if name in c.methods:
                    return Writer(self.prog, c.methods[name], depth + 1)
        if A.text(base).endswith(".geometry") and name == "to_dict":
            # union over all geometry classes is too coarse: use the keys common to all of them
            geo = [c for c in self.prog.all_classes() if c.module.name == "yastn.tn.fpeps._geometry" and "to_dict" in c.methods
                   and c.name.endswith(("Lattice", "Unitcell")) and c.name != "Lattice"]
            ws = [Writer(self.prog, c.methods["to_dict"], depth + 1) for c in geo]
            if ws:
                w = ws[0]
                common = set(w.keys)
                for x in ws[1:]:
                    common &= set(x.keys)
                w.keys = {k: w.keys[k] for k in common}
                w.maybe = set().union(*[set(x.keys) for x in ws]) - common
                return w
        return None

    def _extract(self, depth):
        fn = self.f.node
        rets = [r for r in A.returns_of(fn) if r.value is not None]
        if not rets:
            return False
        main = None
        for r in rets:
            if isinstance(r.value, ast.Dict):
                main = r.value
                self._dict_display(main, depth)
            elif isinstance(r.value, ast.Name):
                main = r.value
                var = r.value.id
                for st, val, kind in A.local_bindings(fn).get(var, []):
                    if isinstance(val, ast.Dict):
                        self._dict_display(val, depth)
                    elif isinstance(val, ast.Call):
                        w = self._callee_writer(val, depth)
                        if w is not None:
                            self.keys.update(w.keys)
                        elif A.call_name(val) == "dict":
                            for kw in val.keywords:
                                if kw.arg:
                                    self.keys[kw.arg] = kw.value
                for n in A.walk_local(fn, include_self=False):
                    if isinstance(n, ast.Assign):
                        for t in n.targets:
                            if isinstance(t, ast.Subscript) and isinstance(t.value, ast.Name) and t.value.id == var:
                                ck = const_key(t.slice)
                                if ck is None:
                                    self.dynamic.append(t.slice)
                                else:
                                    self.keys[ck] = n.value
                    elif isinstance(n, ast.Call) and isinstance(n.func, ast.Attribute) and isinstance(n.func.value, ast.Name) \
                            and n.func.value.id == var and n.func.attr == "pop" and n.args:
                        ck = const_key(n.args[0])
                        if ck:
                            self.removed.add(ck)
            else:
                self.alt_returns.append(r.value)
        for k in self.removed:
            self.keys.pop(k, None)
        return main is not None


class HdfWriter:
    """Keys written by file.create_dataset(path + '/key', ...) / create_group(path + '/key/' + ...)"""

    def __init__(self, f: FuncInfo):
        self.keys = {}
        inl = A.Inliner(f.node)
        for c in A.calls(f.node):
            if A.callee_attr(c) in ("create_dataset", "create_group") and c.args:
                # the name may have been put together in a temporary (`mfs_group = path + '/mfs/' + str(a.mfs)`)
                k = self._key(inl.expand(c.args[0]) if isinstance(c.args[0], ast.Name) else c.args[0])
                if k:
                    self.keys[k] = c

    @staticmethod
    def _key(node):
        # path + '/key' [+ ...]
        parts = []

        def flat(n):
            if isinstance(n, ast.BinOp) and isinstance(n.op, ast.Add):
                flat(n.left)
                flat(n.right)
            else:
                parts.append(n)
        flat(node)
        for p in parts:
            ck = const_key(p)
            if ck and ck.startswith("/"):
                return ck.strip("/").split("/")[0]
        return None


class Reader:
    """Keys read from parameter `dparam` (and aliases) by a from_dict-like function."""
    REGISTRY = []

    def __init__(self, prog, f: FuncInfo, dparam=None, body=None, hdf=False):
        self.prog, self.f = prog, f
        self.dparam = dparam or self._guess_param()
        self.required = {}      # key -> node (subscript load)
        self.optional = set()   # keys tested with `in` / .get
        self.splat = []         # Call nodes receiving **d
        self.tested = {}        # key -> node: presence tested with `in`
        self.valueread = set()  # keys whose stored value is read (subscript / .get / **d)
        Reader.REGISTRY.append(self)
        nodes = body if body is not None else [f.node]
        names = {self.dparam}
        for root in nodes:
            for n in ast.walk(root):
                if isinstance(n, ast.Assign) and len(n.targets) == 1 and isinstance(n.targets[0], ast.Name):
                    v = n.value
                    # d = d.copy() / d = {**d, ...}
                    if isinstance(v, ast.Call) and isinstance(v.func, ast.Attribute) and isinstance(v.func.value, ast.Name) \
                            and v.func.value.id in names and v.func.attr == "copy":
                        names.add(n.targets[0].id)
                    if isinstance(v, ast.Call) and A.callee_attr(v) == "get" and isinstance(v.func, ast.Attribute) and \
                            isinstance(v.func.value, ast.Name) and v.func.value.id == "file":
                        names.add(n.targets[0].id)        # g = file.get(path)
        # d[k] for k in ('a', 'b', ...): a loop / comprehension variable ranging over a literal table of keys reads each of them
        for root in nodes:
            for n in ast.walk(root):
                gens = n.generators if isinstance(n, (ast.DictComp, ast.ListComp, ast.GeneratorExp, ast.SetComp)) else ([n] if isinstance(n, ast.For) else [])
                for g in gens:
                    tgt, it = (g.target, g.iter)
                    if isinstance(tgt, ast.Name) and isinstance(it, (ast.Tuple, ast.List)) and it.elts \
                            and all(isinstance(e, ast.Constant) and isinstance(e.value, str) for e in it.elts):
                        for x in ast.walk(n):
                            if isinstance(x, ast.Subscript) and isinstance(x.ctx, ast.Load) and isinstance(x.value, ast.Name) and x.value.id in names \
                                    and isinstance(x.slice, ast.Name) and x.slice.id == tgt.id:
                                for e in it.elts:
                                    self.required.setdefault(e.value, x)
                                    self.valueread.add(e.value)
        for root in nodes:
            for n in ast.walk(root):
                if isinstance(n, ast.Subscript) and isinstance(n.ctx, ast.Load) and isinstance(n.value, ast.Name) \
                        and n.value.id in names:
                    ck = const_key(n.slice)
                    if ck:
                        self.required.setdefault(ck, n)
                        self.valueread.add(ck)
                elif isinstance(n, ast.Compare) and len(n.ops) == 1 and isinstance(n.ops[0], (ast.In, ast.NotIn)) \
                        and isinstance(n.comparators[0], ast.Name) and n.comparators[0].id in names:
                    ck = const_key(n.left)
                    if ck:
                        self.optional.add(ck)
                        self.tested.setdefault(ck, n)
                elif isinstance(n, ast.Call) and isinstance(n.func, ast.Attribute) and n.func.attr == "get" \
                        and isinstance(n.func.value, ast.Name) and n.func.value.id in names and n.args \
                        and const_key(n.args[0]) and "/" not in const_key(n.args[0]):
                    ck = const_key(n.args[0])
                    self.valueread.add(ck)
                    if len(n.args) > 1:
                        self.optional.add(ck)
                    else:
                        self.required.setdefault(ck, n)
                elif hdf and isinstance(n, ast.Call) and isinstance(n.func, ast.Attribute) and n.func.attr == "get" and n.args \
                        and const_key(n.args[0]) and "/" not in const_key(n.args[0]):
                    self.required.setdefault(const_key(n.args[0]), n)      # file[addr].get('key')
                elif hdf and isinstance(n, ast.Subscript) and HdfWriter._key(n.slice):
                    self.required.setdefault(HdfWriter._key(n.slice), n)   # file[addr + '/A']
                elif isinstance(n, ast.Call):
                    for kw in n.keywords:
                        if kw.arg is None and isinstance(kw.value, ast.Name) and kw.value.id in names:
                            self.splat.append(n)
                    # file.get(path + '/key')
                    if isinstance(n.func, ast.Attribute) and n.func.attr == "get" and n.args:
                        k = HdfWriter._key(n.args[0])
                        if k:
                            self.required.setdefault(k, n)

    def _guess_param(self):
        ps = [p for p in self.f.pos_params if p not in ("cls", "self", "config")]
        return ps[0] if ps else "d"

    @property
    def needed(self):
        return {k for k in self.required if k not in self.optional}

    @property
    def all(self):
        return set(self.required) | self.optional


def legacy_split(f: FuncInfo, dparam):
    """(legacy body statements, current statements) split on `if 'dict_ver' not in d:`"""
    legacy, current = [], []
    for st in A.strip_docstring(f.node.body):
        if isinstance(st, ast.If) and A.text(st.test).replace('"', "'") == f"'dict_ver' not in {dparam}":
            legacy += st.body
            current += st.orelse
        else:
            current.append(st)
    return legacy, current


def ctor_consumed(prog, ci: ClassInfo):
    """Keys consumed by `cls(**d)`: named parameters of __init__ plus keys it reads from its **kwargs."""
    init = prog.lookup_method(ci, "__init__")
    if init is None:
        return set(), False
    a = init.node.args
    named = {x.arg for x in a.posonlyargs + a.args + a.kwonlyargs} - {"self"}
    used_kw = set()
    if a.kwarg:
        r = Reader(prog, init, a.kwarg.arg)
        used_kw = r.all
    return named | used_kw, a.kwarg is not None


def init_state(prog, ci: ClassInfo):
    """Instance attributes assigned in __init__ along the MRO (the state of an instance)."""
    out = []
    for c in prog.class_mro(ci):
        f = c.methods.get("__init__")
        if f is None or not f.params:
            continue
        me = f.params[0]
        for n in ast.walk(f.node):
            if isinstance(n, ast.Attribute) and isinstance(n.ctx, ast.Store) and isinstance(n.value, ast.Name) and n.value.id == me:
                if n.attr not in out:
                    out.append(n.attr)
    return out


# --------------------------------------------------------------------- the tables
RENAME = {"_data": "data", "_trans": "trans", "_N": "N", "_nr_phys": "nr_phys", "_site_data": "site_data",
          "_env": "env", "_bra": "bra", "trans": "trans"}
# state fields that need not be written, with the reason (named, G-4)
VOLATILE = {
    "_MpsMpoParent": {"_first": "derived from N", "_last": "derived from N",
                      "flag": "documented: 'It is not saved/loaded' (on_bra docstring)"},
    "MpoPBC": {"_first": "derived from N", "_last": "derived from N"},
    "MpsMpoOBC": {"_first": "derived from N", "_last": "derived from N"},
    "Lattice": {"_patch": "transient overlay created by move_to_patch and folded back by apply_patch inside update algorithms"},
    "Peps": {"_patch": "as Lattice"},
    "Peps2Layers": {"geometry": "taken from ket by the constructor"},
    "DoublePepsTensor": {},
    "EnvCTM": {"geometry": "taken from psi by the constructor", "profiling_mode": "run-time option, not state"},
    "EnvCTM_c4v": {"geometry": "taken from psi by the constructor", "profiling_mode": "run-time option, not state"},
    "EnvBP": {"geometry": "taken from psi by the constructor", "tol_positive": "numerical option with a default"},
    "EnvBoundaryMPS": {"geometry": "taken from psi by the constructor", "offset": "derived from the lattice"},
}
DPT_RENAME = {"trans": "transpose"}


def run(chk):
    prog = chk.prog
    chk.explanation = (
        "Static agreement of writer and reader tables (no execution): the keys written by every to_dict/save_to_dict/"
        "save_to_hdf5 and the keys read by the matching from_dict/load_*/constructor are extracted from the AST "
        "(dict displays, d[k]= stores, super()/geometry spreads, `k in d`, .get, cls(**d) splats resolved against "
        "constructor signatures and **kwargs reads), together with each class's state fields (assigned in __init__, or "
        "Tensor._replace's own field tuple). Rules Z1-Z7 compare them and the registries (type names, SYM_IDs, backends). "
        "These are necessary conditions of the round trip for all objects at once; value fidelity of numpy/h5py is not decided.")
    chk.trusted_base = ["python ast parser", "numpy/h5py store values faithfully"]
    chk.assumptions = ["legacy (deprecated) save_to_dict formats are only checked for key agreement"]
    Reader.REGISTRY.clear()
    tensor_pairs(chk)
    mps_pairs(chk)
    peps_pairs(chk)
    geometry_pairs(chk)
    env_pairs(chk)
    registries(chk)
    guards(chk)
    dtype_table(chk)
    normalised_copy(chk)
    from . import e10
    e10.run_U5(chk, ("yastn",), rule="Z9")
    e10.run_U14(chk, ("yastn",), rule="Z12")
    mixed_keys(chk)
    # a key whose presence the reader tests is a key whose value the reader restores
    chk.rule("Z10", "every key a reader tests for presence (`k in d`) is also read by it (d[k] / d.get(k)): the stored value is restored, not merely detected", floor=5)
    seen = set()
    for r in Reader.REGISTRY:
        for k, node in sorted(r.tested.items()):
            key = (r.f.qualname, k)
            if key in seen or k in ("dict_ver",):
                continue
            seen.add(key)
            if k in r.valueread or r.splat:
                chk.ok("Z10", (r.f, node), f"{r.f.short}: '{k}' tested and read", sample=False)
            else:
                chk.bad("Z10", (r.f, node), f"{r.f.short}: '{k}'", f"{r.f.short}(): the reader tests `'{k}' in {r.dparam}` but never reads `{r.dparam}['{k}']`: "
                        f"whatever was stored under '{k}' is not what is restored (typically a copy-paste slip reading a sibling key instead)")


def mixed_keys(chk):
    """Z11: serialised containers may hold keys of different types -- the site tensors of an MPS are keyed by int, its central block by
    the tuple `pC` (`self.A[self.pC] = ...`) and to_dict copies the keys of `A` verbatim.  The generic traversals of such dictionaries
    (split_data_and_meta / combine_data_and_meta) therefore must not order the keys with a bare `sorted(d)`: comparing an int with a
    tuple raises TypeError, i.e. an MPS with a central block cannot be split at all."""
    prog = chk.prog
    chk.rule("Z11", "generic traversals of serialised dictionaries order keys in a way that is defined for keys of mixed types (int sites and tuple central block of an MPS)", floor=0)
    # evidence (re-validated on every run): a tuple-keyed entry next to int-keyed ones in MpsMpoOBC.A, and to_dict copying the keys
    obc = prog.module("yastn.tn.mps._mps_obc")
    central = [n for n in ast.walk(obc.tree) if isinstance(n, ast.Assign) and isinstance(n.targets[0], ast.Subscript)
               and A.text(n.targets[0].value).endswith(".A") and A.text(n.targets[0].slice).endswith(".pC")]
    wf = prog.func("yastn.tn.mps._mps_parent", "_MpsMpoParent.to_dict")
    copies = any(isinstance(n, ast.DictComp) and isinstance(n.key, ast.Name) and A.text(n.generators[0].iter).endswith(".A.items()")
                 and isinstance(n.generators[0].target, ast.Tuple) and A.text(n.generators[0].target.elts[0]) == n.key.id for n in ast.walk(wf.node))
    # the same copy spelled as a loop: `for k, v in psi.A.items(): tensors[k] = v.to_dict(..)`
    copies = copies or any(isinstance(n, ast.For) and A.text(n.iter).endswith(".A.items()") and isinstance(n.target, ast.Tuple)
                           and any(isinstance(x, ast.Subscript) and isinstance(x.ctx, ast.Store) and A.text(x.slice) == A.text(n.target.elts[0]) for x in ast.walk(n))
                           for n in ast.walk(wf.node))
    if not central or not copies:
        chk.note("Z11: no tuple-keyed central block copied verbatim by MPS to_dict on this tree: mixed key types not established, rule not applicable")
        return
    sc = prog.module("yastn._split_combine_dict")
    for f in sc.funcs.values():
        par = A.enclosing_map(f.node)
        for c in ast.walk(f.node):
            if not (isinstance(c, ast.Call) and A.call_name(c) == "sorted" and c.args and isinstance(c.args[0], ast.Name)):
                continue
            if c.args[0].id not in f.params:
                # sorted(<local>) -- follow one assignment `x = d.items()` / keys()
                continue
            has_key = any(k.arg == "key" for k in c.keywords)
            cur, guarded = c, False
            while cur in par:
                cur = par[cur]
                if isinstance(cur, ast.Try) and any(h.type is None or "TypeError" in A.text(h.type) or A.text(h.type) in ("Exception", "BaseException") for h in cur.handlers) \
                        and any(c in list(ast.walk(b_)) for b_ in cur.body):
                    guarded = True
            ok = has_key or guarded
            chk.verdict("Z11", (f, c), f"{f.name}: `{A.short(c, 50)}`", True if ok else False,
                        f"{f.name}(): `{A.short(c, 40)}` orders the keys of a serialised dictionary with the default comparison; the dictionary `A` "
                        f"written by MPS/MPO to_dict holds int keys (sites) and, for a state with a central block, the tuple key pC "
                        f"({obc.relpath}:{central[0].lineno}): `sorted` raises TypeError, so such an MPS cannot go through "
                        f"split_data_and_meta/combine_data_and_meta")


def _z1(chk, f, cls_name, state, written, rename=None, extra_ok=None):
    rename = dict(RENAME, **(rename or {}))
    vol = VOLATILE.get(cls_name, {})
    for fld in state:
        key = rename.get(fld, fld)
        if key in written or fld in written:
            chk.ok("Z1", f, f"{cls_name}.{fld} -> '{key}'", sample=False)
        elif fld in vol:
            chk.ok("Z1", f, f"{cls_name}.{fld} (volatile: {vol[fld]})", sample=False)
        elif extra_ok and fld in extra_ok:
            chk.ok("Z1", f, f"{cls_name}.{fld} ({extra_ok[fld]})", sample=False)
        else:
            chk.bad("Z1", f, f"{cls_name}.{fld}",
                    f"state field `{fld}` of {cls_name} is not written by {f.short}() (keys written: {sorted(written)}): "
                    f"it is lost in a to_dict/from_dict round trip")


def _z2(chk, wf, rf, written, reader_needed, reader_all, consumed=None, label=""):
    for k in sorted(reader_needed):
        if k in written:
            chk.ok("Z2", rf, f"{label}read '{k}'", sample=False)
        else:
            chk.bad("Z2", rf, f"{label}read '{k}'", f"{rf.short}() needs key '{k}' which {wf.short}() never writes "
                    f"(written: {sorted(written)})")
    for k in sorted(written):
        if k in META_KEYS:
            continue
        if k in reader_all or (consumed is not None and k in consumed):
            chk.ok("Z2", wf, f"{label}written '{k}' is consumed", sample=False)
        else:
            chk.bad("Z2", wf, f"{label}written '{k}'", f"key '{k}' written by {wf.short}() is never read by {rf.short}() "
                    f"(read: {sorted(reader_all)}): the information is dropped on load")


# ------------------------------------------------------------------------- tensor
def tensor_pairs(chk):
    prog = chk.prog
    chk.rule("Z1", "state fields of each serialisable class are written (or neutralised / named volatile)", floor=40)
    chk.rule("Z2", "keys needed by a reader are written by its writer; written keys are consumed", floor=80)
    T = prog.cls("yastn.tensor", "Tensor")
    # state = the class's own definition of its fields
    rep = T.methods.get("_replace")
    chk.require(rep is not None, "Tensor._replace not found")
    state = None
    for n in ast.walk(rep.node):
        if isinstance(n, ast.For):
            v = A.literal_seq(n.iter, rep.node, T.module.tree)
            if v and all(isinstance(x, str) for x in v):
                state = v
    chk.require(state and len(state) >= 7, "cannot read Tensor's field tuple from Tensor._replace")
    chk.extra["tensor_state_fields"] = state
    wf = prog.func("yastn.tensor._output", "to_dict")
    rf = T.methods["from_dict"]
    w = Writer(prog, wf)
    chk.require(w.ok and len(w.keys) >= 8, "cannot extract keys written by Tensor.to_dict")
    _z1(chk, wf, "Tensor", state, set(w.keys))
    legacy, current = legacy_split(rf, "d")
    chk.require(legacy and current, "Tensor.from_dict: legacy/current split on 'dict_ver' not found")
    r = Reader(prog, rf, "d", body=current)
    consumed, has_kw = ctor_consumed(prog, T)
    chk.require(r.splat, "Tensor.from_dict no longer ends in cls(**d)")
    _z2(chk, wf, rf, set(w.keys), r.needed, r.all, consumed, label="v2: ")
    # legacy dict
    wl = Writer(prog, prog.func("yastn.tensor._output", "save_to_dict"))
    rl = Reader(prog, rf, "d", body=legacy)
    chk.require(wl.ok, "cannot extract keys of Tensor.save_to_dict")
    _z2(chk, prog.func("yastn.tensor._output", "save_to_dict"), rf, set(wl.keys), rl.needed, rl.all, label="legacy: ")
    _neutralised(chk, prog.func("yastn.tensor._output", "save_to_dict"), set(wl.keys))
    # hdf5
    hw = HdfWriter(prog.func("yastn.tensor._output", "save_to_hdf5"))
    hrf = prog.func("yastn.initialize", "load_from_hdf5")
    hr = Reader(prog, hrf, "g", hdf=True)
    chk.require(len(hw.keys) >= 6, "cannot extract datasets written by Tensor.save_to_hdf5")
    _z2(chk, prog.func("yastn.tensor._output", "save_to_hdf5"), hrf, set(hw.keys), hr.needed, hr.all, label="hdf5: ")
    _neutralised(chk, prog.func("yastn.tensor._output", "save_to_hdf5"), set(hw.keys))
    # Z4 conversions
    conversions(chk, wf, rf, w)


def _neutralised(chk, f, written):
    """Legacy writers do not store 'trans': the pending permutation must be consumed before anything is read."""
    if "trans" in written:
        chk.ok("Z1", f, "trans written", sample=False)
        return
    body = A.strip_docstring(f.node.body)
    first_assign = None
    for st in body:
        if isinstance(st, ast.Assign) and isinstance(st.value, ast.Call) and A.callee_attr(st.value) == "consume_transpose" \
                and A.text(st.targets[0]) == f.params[0] and A.text(st.value.func) == f"{f.params[0]}.consume_transpose":
            first_assign = st
            break
        # nothing may read a.struct/a._data before
        if any(isinstance(n, ast.Attribute) and isinstance(n.value, ast.Name) and n.value.id == f.params[0]
               and n.attr in ("struct", "_data", "data", "hfs", "slices") for n in ast.walk(st)):
            break
    if first_assign is not None:
        chk.ok("Z1", (f, first_assign), "trans neutralised by consume_transpose() before any field is read")
    else:
        chk.bad("Z1", f, f"{f.short}: trans", f"{f.short}() neither writes the pending permutation `trans` nor materialises it "
                f"(`a = a.consume_transpose()`) before reading struct/data: a lazily transposed tensor is saved in the wrong layout")


def conversions(chk, wf, rf, w):
    chk.rule("Z4", "each conversion applied by Tensor.to_dict (level>=1) has its inverse on the same key in from_dict", floor=5)
    def sub_key(e, key):
        """`<dict>['key']`"""
        return isinstance(e, ast.Subscript) and const_key(e.slice) == key

    def comp_over(n, pred_iter, pred_elt):
        """a comprehension / generator over an iterable satisfying pred_iter whose element satisfies pred_elt(elt, loop variable)"""
        return isinstance(n, (ast.GeneratorExp, ast.ListComp)) and len(n.generators) == 1 and isinstance(n.generators[0].target, ast.Name) \
            and pred_iter(n.generators[0].iter) and pred_elt(n.elt, n.generators[0].target.id)

    def attr_call(e, attr, on=None):
        return isinstance(e, ast.Call) and isinstance(e.func, ast.Attribute) and e.func.attr == attr and (on is None or on(e.func.value))

    def is_name(e, v):
        return isinstance(e, ast.Name) and e.id == v

    def ends(e, suffix):
        return A.text(e).endswith(suffix)

    def splat_call(e, fname, star, arg_pred):
        """fname(*X) / fname(**X) with arg_pred(X)"""
        if not (isinstance(e, ast.Call) and (A.call_name(e) or "").split(".")[-1] == fname):
            return False
        if star == "**":
            return any(k.arg is None and arg_pred(k.value) for k in e.keywords)
        return any(isinstance(a_, ast.Starred) and arg_pred(a_.value) for a_ in e.args)

    def id_store(n, key, idattr):
        """config['sym'] = config['sym'].SYM_ID"""
        return isinstance(n, ast.Assign) and len(n.targets) == 1 and sub_key(n.targets[0], key) and isinstance(n.value, ast.Attribute) \
            and n.value.attr == idattr and sub_key(n.value.value, key) and A.text(n.value.value.value) == A.text(n.targets[0].value)
    _id_store0 = id_store

    def id_store(n, key, idattr):
        if _id_store0(n, key, idattr):
            return True
        # config.update(sym=<..>.SYM_ID) / config.update({'sym': <..>.SYM_ID})
        if isinstance(n, ast.Call) and isinstance(n.func, ast.Attribute) and n.func.attr == "update":
            for k in n.keywords:
                if k.arg == key and isinstance(k.value, ast.Attribute) and k.value.attr == idattr:
                    return True
            for a_ in n.args:
                if isinstance(a_, ast.Dict):
                    for kk, vv in zip(a_.keys, a_.values):
                        if const_key(kk) == key and isinstance(vv, ast.Attribute) and vv.attr == idattr:
                            return True
        return False
    W = list(ast.walk(wf.node))
    Rn = list(ast.walk(rf.node))
    table = [
        ("config", "<tensor>.config._asdict()", "make_config(**d['config'])", "config NamedTuple <-> dict",
         any(attr_call(n, "_asdict", lambda v: ends(v, ".config")) for n in W),
         any(splat_call(n, "make_config", "**", lambda x: sub_key(x, "config")) for n in Rn)),
        ("config.sym", "config['sym'] = config['sym'].SYM_ID", "make_config(**d['config'])", "symmetry class <-> SYM_ID (resolved by make_config)",
         any(id_store(n, "sym", "SYM_ID") for n in W),
         any(splat_call(n, "make_config", "**", lambda x: sub_key(x, "config")) for n in Rn)),
        ("config.backend", "config['backend'] = config['backend'].BACKEND_ID", "make_config(**d['config'])", "backend module <-> BACKEND_ID",
         any(id_store(n, "backend", "BACKEND_ID") for n in W),
         any(splat_call(n, "make_config", "**", lambda x: sub_key(x, "config")) for n in Rn)),
        ("hfs", "x._asdict() for x in <tensor>.hfs", "_Fusion(**x) for x in d['hfs']", "_Fusion <-> dict",
         any(comp_over(n, lambda it: ends(it, ".hfs"), lambda el, v: attr_call(el, "_asdict", lambda r: is_name(r, v))) for n in W),
         any(comp_over(n, lambda it: sub_key(it, "hfs"), lambda el, v: splat_call(el, "_Fusion", "**", lambda x: is_name(x, v))) for n in Rn)),
        ("struct", "<tensor>.struct._asdict()", "_struct(**d['struct'])", "_struct <-> dict",
         any(attr_call(n, "_asdict", lambda v: ends(v, ".struct")) for n in W),
         any(splat_call(n, "_struct", "**", lambda x: sub_key(x, "struct")) for n in Rn)),
        ("slices", "tuple(x) for x in <tensor>.slices", "_slc(*x) for x in d['slices']", "_slc <-> tuple",
         any(comp_over(n, lambda it: ends(it, ".slices"), lambda el, v: isinstance(el, ast.Call) and A.call_name(el) == "tuple" and len(el.args) == 1 and is_name(el.args[0], v))
             or (isinstance(n, ast.Call) and A.call_name(n) == "map" and len(n.args) == 2 and is_name(n.args[0], "tuple") and ends(n.args[1], ".slices")) for n in W),
         any(comp_over(n, lambda it: sub_key(it, "slices"), lambda el, v: splat_call(el, "_slc", "*", lambda x: is_name(x, v))) for n in Rn)),
        ("data", "backend.to_numpy(<tensor>.data)", "backend.to_tensor(d['data'], ...)", "backend array <-> numpy",
         any(attr_call(n, "to_numpy") and n.args and (ends(n.args[0], ".data") or ends(n.args[0], "._data")) for n in W),
         any(attr_call(n, "to_tensor") and n.args and sub_key(n.args[0], "data") for n in Rn)),
    ]
    for key, wpat, rpat, what, wi, ri in table:
        if wi and ri:
            chk.ok("Z4", wf, f"{key}: {what}", {"writer": wpat, "reader": rpat})
        elif wi and not ri:
            chk.bad("Z4", rf, f"{key}: {what}", f"Tensor.to_dict converts `{key}` ({wpat}) but from_dict has no inverse `{rpat}`")
        elif ri and not wi:
            chk.bad("Z4", wf, f"{key}: {what}", f"Tensor.from_dict applies `{rpat}` but to_dict no longer converts `{key}` ({wpat})")
        else:
            raise AnalysisError(f"Z4: conversion pair for `{key}` not found on either side (shape of to_dict/from_dict changed)")
    # the tuple <-> list round trip of level>=1 for the four tuple-valued fields
    need = {"struct", "slices", "hfs", "mfs"}
    lst = None
    for n in ast.walk(rf.node):
        if isinstance(n, ast.For) and isinstance(n.iter, (ast.List, ast.Tuple)) and any(
                isinstance(c, ast.Call) and A.call_name(c) == "_convert_lists_to_tuples" for c in ast.walk(n)):
            try:
                lst = set(ast.literal_eval(n.iter))
            except Exception:
                pass
    if lst is None:
        raise AnalysisError("Z4: list->tuple restoration loop of Tensor.from_dict not found")
    chk.verdict("Z4", rf, f"lists->tuples for {sorted(lst)}", True if need <= lst else False,
                f"from_dict restores tuples only for {sorted(lst)}; {sorted(need - lst)} would stay lists (unhashable, "
                f"breaks lru_cache keys and equality)")


# ---------------------------------------------------------------------------- mps
def mps_pairs(chk):
    prog = chk.prog
    P = prog.cls("yastn.tn.mps._mps_parent", "_MpsMpoParent")
    wf, rf = P.methods["to_dict"], P.methods["from_dict"]
    w = Writer(prog, wf)
    chk.require(w.ok, "cannot extract keys of _MpsMpoParent.to_dict")
    for cname, mod in (("MpsMpoOBC", "yastn.tn.mps._mps_obc"), ("MpoPBC", "yastn.tn.mps._mps_obc")):
        ci = prog.cls(mod, cname)
        wfc = prog.lookup_method(ci, "to_dict")
        wc = Writer(prog, wfc)
        _z1(chk, wfc, cname, init_state(prog, ci), set(wc.keys))
    legacy, current = legacy_split(rf, "d")
    chk.require(legacy and current, "_MpsMpoParent.from_dict: legacy/current split not found")
    r = Reader(prog, rf, "d", body=current)
    _z2(chk, wf, rf, set(w.keys), r.needed, r.all, label="v1: ")
    # every field restored: reader assigns psi.<field> for each written non-meta key
    assigned = set()
    for st in current:
        for n in ast.walk(st):
            if isinstance(n, ast.Attribute) and isinstance(n.ctx, ast.Store):
                assigned.add(n.attr)
            if isinstance(n, ast.Call) and A.text(n.func) == "cls":
                assigned |= {k.arg for k in n.keywords if k.arg}
    for k in sorted(set(w.keys) - META_KEYS):
        chk.verdict("Z2", rf, f"v1: '{k}' restored into the object", True if k in assigned else False,
                    f"_MpsMpoParent.from_dict reads '{k}' but does not store it in the new object")
    wl = Writer(prog, P.methods["save_to_dict"])
    rl = Reader(prog, rf, "d", body=legacy)
    _z2(chk, P.methods["save_to_dict"], rf, set(wl.keys), rl.needed, rl.all, label="legacy: ")
    hw = HdfWriter(P.methods["save_to_hdf5"])
    hrf = prog.func("yastn.tn.mps._initialize", "load_from_hdf5")
    hr = Reader(prog, hrf, "file", hdf=True)
    _z2(chk, P.methods["save_to_hdf5"], hrf, set(hw.keys), hr.needed, hr.all, label="hdf5: ")


# --------------------------------------------------------------------------- peps
def peps_pairs(chk):
    prog = chk.prog
    L = prog.cls("yastn.tn.fpeps._geometry", "Lattice")
    wf, rf = L.methods["to_dict"], L.methods["from_dict"]
    w = Writer(prog, wf)
    chk.require(w.ok, "cannot extract keys of Lattice.to_dict")
    state = init_state(prog, L)
    _z1(chk, wf, "Lattice", state, set(w.keys))
    legacy, current = legacy_split(rf, "d")
    r = Reader(prog, rf, "d", body=current)
    _z2(chk, wf, rf, set(w.keys), r.needed, r.all, label="v1: ")
    wl = Writer(prog, L.methods["save_to_dict"])
    rl = Reader(prog, rf, "d", body=legacy)
    wl_keys = set(wl.keys) | getattr(wl, "maybe", set())
    chk.verdict("Z2", rf, "legacy: read 'data'", True if "data" in wl.keys else False, "legacy Lattice dict lacks 'data'")
    # Peps2Layers
    P2 = prog.cls("yastn.tn.fpeps._peps", "Peps2Layers")
    w2 = Writer(prog, P2.methods["to_dict"])
    r2 = Reader(prog, P2.methods["from_dict"], "d")
    _z1(chk, P2.methods["to_dict"], "Peps2Layers", init_state(prog, P2), set(w2.keys))
    _z2(chk, P2.methods["to_dict"], P2.methods["from_dict"], set(w2.keys), r2.needed, r2.all, label="v1: ")
    # DoublePepsTensor
    D = prog.cls("yastn.tn.fpeps._doublePepsTensor", "DoublePepsTensor")
    wd = Writer(prog, D.methods["to_dict"])
    rd = Reader(prog, D.methods["from_dict"], "d")
    _z1(chk, D.methods["to_dict"], "DoublePepsTensor", init_state(prog, D), set(wd.keys), rename=DPT_RENAME)
    _z2(chk, D.methods["to_dict"], D.methods["from_dict"], set(wd.keys), rd.needed, rd.all, label="v1: ")
    # every key read reaches the constructor call
    call = None
    for n in ast.walk(D.methods["from_dict"].node):
        if isinstance(n, ast.Return) and isinstance(n.value, ast.Call) and A.call_name(n.value) == "DoublePepsTensor":
            call = n.value
    chk.require(call is not None, "DoublePepsTensor.from_dict does not return DoublePepsTensor(...)")
    got = {k.arg for k in call.keywords}
    params = set(prog.lookup_method(D, "__init__").params) - {"self"}
    chk.verdict("Z2", (D.methods["from_dict"], call), call, True if params <= got else False,
                f"constructor parameters {sorted(params - got)} are not restored by DoublePepsTensor.from_dict")
    # dataclasses
    DC = prog.cls("yastn.tn.fpeps.envs._env_dataclasses", "dataclasses_common")
    wdc = Writer(prog, DC.methods["to_dict"])
    t_w = A.text(DC.methods["to_dict"].node)
    t_r = A.text(DC.methods["from_dict"].node)
    ok = "for k in fields(self)" in t_w and "d[k.name] =" in t_w and "for k in fields(cls) if k.name in d" in t_r
    chk.verdict("Z2", DC.methods["to_dict"], "dataclass fields written and read by fields()", True if ok else False,
                "dataclasses_common.to_dict/from_dict no longer iterate the same dataclass fields()")


# ----------------------------------------------------------------------- geometry
def geometry_pairs(chk):
    prog = chk.prog
    chk.rule("Z3", "geometries: every constructor parameter is written by to_dict (reader is constructor(**dict))", floor=6)
    m = prog.module("yastn.tn.fpeps._geometry")
    reg = registry_dict(prog, "yastn.tn.fpeps._geometry", "LATTICE_CLASSES")
    for name, ci in sorted(reg.items()):
        wf = prog.lookup_method(ci, "to_dict")
        if wf is None:
            chk.bad("Z3", (m.relpath, name, ci.node.lineno), f"{name}.to_dict", f"geometry class {name} has no to_dict")
            continue
        w = Writer(prog, wf)
        if not w.ok:
            raise AnalysisError(f"cannot extract keys of {name}.to_dict")
        init = prog.lookup_method(ci, "__init__")
        a = init.node.args
        named = [x.arg for x in a.posonlyargs + a.args + a.kwonlyargs if x.arg != "self"]
        # does the constructor store/branch on the parameter? (a parameter it ignores need not be written)
        used = set()
        for n in ast.walk(init.node):
            if isinstance(n, ast.Name) and isinstance(n.ctx, ast.Load):
                used.add(n.id)
        for p in named:
            if p not in used:
                chk.ok("Z3", wf, f"{name}: parameter `{p}` unused by the constructor", sample=False)
            elif p in w.keys:
                chk.ok("Z3", wf, f"{name}: parameter `{p}` written")
            else:
                chk.bad("Z3", wf, f"{name}: parameter `{p}`",
                        f"{name}.__init__ depends on `{p}` but {wf.short}() does not write it (written: {sorted(w.keys)}): "
                        f"from_dict rebuilds the geometry with the default `{p}`")
        # written keys are accepted by the constructor (named or **kwargs)
        for k in sorted(set(w.keys) - META_KEYS):
            if k in named:
                chk.ok("Z3", wf, f"{name}: key '{k}' -> constructor parameter", sample=False)
            elif a.kwarg is not None:
                chk.note(f"{name}.to_dict writes '{k}', swallowed by **{a.kwarg.arg} of the constructor (informational)")
            else:
                chk.bad("Z3", wf, f"{name}: key '{k}'", f"{name}(**dict) raises TypeError: '{k}' is not a constructor parameter")
        if "type" in w.keys and a.kwarg is None and "type" not in named:
            chk.bad("Z3", wf, f"{name}: key 'type'", f"{name}(**dict) would raise TypeError on the 'type' key")
        chk.verdict("Z3", wf, f"{name}: 'type' is type(self).__name__", True if A.text(w.keys.get("type")) == "type(self).__name__" else False,
                    f"{name}.to_dict does not record its class name under 'type'")


# --------------------------------------------------------------------------- envs
def env_pairs(chk):
    prog = chk.prog
    for mod, cname in (("yastn.tn.fpeps.envs._env_ctm", "EnvCTM"), ("yastn.tn.fpeps.envs._env_bp", "EnvBP"),
                       ("yastn.tn.fpeps.envs._env_boundary_mps", "EnvBoundaryMPS")):
        ci = prog.cls(mod, cname)
        wf, rf = ci.methods["to_dict"], ci.methods["from_dict"]
        w = Writer(prog, wf)
        if not w.ok:
            raise AnalysisError(f"cannot extract keys of {cname}.to_dict")
        extra = {}
        if cname == "EnvBP":
            extra = {"_which": "written as 'which'"}
        _z1(chk, wf, cname, init_state(prog, ci), set(w.keys), extra_ok=extra)
        legacy, current = legacy_split(rf, "d")
        r = Reader(prog, rf, "d", body=current or None)
        needed, allr = r.needed, r.all
        if cname == "EnvBoundaryMPS":
            # reads after the if/elif chain belong to both generations
            r = Reader(prog, rf, "d")
            needed, allr = r.needed - {"dict_ver"} | {"dict_ver"} & set(w.keys), r.all
        _z2(chk, wf, rf, set(w.keys), needed, allr, label="v1: ")


# --------------------------------------------------------------------- registries
def registry_dict(prog, module, name):
    m = prog.module(module)
    vals = m.consts.get(name)
    if not vals or not isinstance(vals[0], ast.Dict):
        raise AnalysisError(f"registry {module}.{name} not found as a dict display")
    out = {}
    for k, v in zip(vals[0].keys, vals[0].values):
        ck = const_key(k)
        r = prog.resolve(m, v.id) if isinstance(v, ast.Name) else prog.resolve_attr_chain(m, v)
        if ck is None or not isinstance(r, ClassInfo):
            raise AnalysisError(f"registry {name}: entry {A.text(k)}: {A.text(v)} is not `name: class`")
        out[ck] = r
    return out


def registries(chk):
    prog = chk.prog
    chk.rule("Z5", "registries are total and map each name to the class of that name", floor=30)
    regs = {
        "types": ("yastn._from_dict", "types"),
        "TENSOR_CLASSES": ("yastn.tn.mps._mps_parent", "TENSOR_CLASSES"),
        "DATA_CLASSES": ("yastn.tn.fpeps.envs._env_dataclasses", "DATA_CLASSES"),
        "LATTICE_CLASSES": ("yastn.tn.fpeps._geometry", "LATTICE_CLASSES"),
        "PEPS_CLASSES": ("yastn.tn.fpeps._peps", "PEPS_CLASSES"),
    }
    loaded = {}
    for rname, (mod, var) in regs.items():
        reg = registry_dict(prog, mod, var)
        loaded[rname] = reg
        m = prog.module(mod)
        for k, ci in sorted(reg.items()):
            chk.verdict("Z5", (m.relpath, var, m.consts[var][0].lineno), f"{var}['{k}'] = {ci.name}", True if k == ci.name else False,
                        f"registry {var} maps the type name '{k}' to class {ci.name}: objects written as '{k}' are restored as {ci.name}")
    # (a) every exported class with to_dict + from_dict is in the general registry
    exported = set()
    for pk in ("yastn", "yastn.tn.mps", "yastn.tn.fpeps", "yastn.tensor"):
        m = prog.module(pk)
        for local in list(m.imports):
            r = prog.resolve(m, local)
            if isinstance(r, ClassInfo):
                exported.add(r.qualname)
    for ci in prog.all_classes():
        if ci.qualname not in exported and ci.name != "Tensor":
            continue
        td, fd = prog.lookup_method(ci, "to_dict"), prog.lookup_method(ci, "from_dict")
        if td is None or fd is None or "classmethod" not in fd.decorators:
            continue
        w = Writer(prog, td)
        if "type" not in w.keys:
            continue
        if ci.name in loaded["types"] and loaded["types"][ci.name] is ci:
            chk.ok("Z5", td, f"types has {ci.name}")
        else:
            chk.bad("Z5", td, f"types lacks {ci.name}", f"{ci.name} is exported, writes 'type': '{ci.name}' and has from_dict, but "
                    f"yastn.from_dict cannot restore it: `types` has no entry '{ci.name}'")
    # element registries: classes that can be stored in the container
    #   MPS/MPO sites: Tensor, DoublePepsTensor (transfer MPOs of PEPS) ; Lattice sites: DATA_CLASSES ; env psi: PEPS_CLASSES
    need = {"TENSOR_CLASSES": ["Tensor", "DoublePepsTensor"],
            "PEPS_CLASSES": ["Peps", "Peps2Layers"]}
    for rname, names in need.items():
        for n in names:
            chk.verdict("Z5", (prog.module(regs[rname][0]).relpath, rname, 1), f"{rname} has {n}", True if n in loaded[rname] else False,
                        f"{rname} lacks '{n}', which can be an element of the container it restores")
    # DATA_CLASSES: Tensor + every dataclass deriving from dataclasses_common in the module
    dc = prog.cls("yastn.tn.fpeps.envs._env_dataclasses", "dataclasses_common")
    for ci in prog.subclasses(dc):
        if ci.module.name != dc.module.name:
            continue
        chk.verdict("Z5", (ci.module.relpath, "DATA_CLASSES", ci.node.lineno), f"DATA_CLASSES has {ci.name}",
                    True if ci.name in loaded["DATA_CLASSES"] else False,
                    f"dataclass {ci.name} (serialisable through dataclasses_common.to_dict) is missing from DATA_CLASSES: a Lattice "
                    f"holding it cannot be restored")
    chk.verdict("Z5", (dc.module.relpath, "DATA_CLASSES", 1), "DATA_CLASSES has Tensor", True if "Tensor" in loaded["DATA_CLASSES"] else False,
                "DATA_CLASSES lacks Tensor")
    # (b) symmetries
    from .c19 import shipped_symmetries, class_const
    base, syms = shipped_symmetries(chk)
    ini = prog.module("yastn.tensor._initialize")
    vals = ini.consts.get("_syms")
    if not vals or not isinstance(vals[0], ast.Dict):
        raise AnalysisError("_initialize._syms not found")
    table = {}
    for k, v in zip(vals[0].keys, vals[0].values):
        r = prog.resolve(ini, v.id) if isinstance(v, ast.Name) else None
        table[const_key(k)] = r
    exported_syms = set()
    pkg = prog.module("yastn.sym")
    for local in pkg.imports:
        r = prog.resolve(pkg, local)
        if isinstance(r, ClassInfo):
            exported_syms.add(r.qualname)
    for ci in syms:
        if ci.qualname not in exported_syms:
            continue
        sid = class_const(ci, "SYM_ID")
        if sid in table and table[sid] is ci:
            chk.ok("Z5", (ini.relpath, "_syms", vals[0].lineno), f"_syms['{sid}'] = {ci.name}")
        elif sid in table:
            chk.bad("Z5", (ini.relpath, "_syms", vals[0].lineno), f"_syms['{sid}']",
                    f"_syms maps '{sid}' to {getattr(table[sid], 'name', '?')} instead of {ci.name}")
        else:
            chk.bad("Z5", (ini.relpath, "_syms", vals[0].lineno), f"_syms lacks '{sid}'",
                    f"symmetry {ci.name} (SYM_ID '{sid}') is shipped but missing from make_config's table `_syms`: a tensor "
                    f"serialised at level>=1 stores sym as '{sid}' and cannot be deserialised")
    # (c) backends: BACKEND_ID values accepted by make_config
    mk = prog.func("yastn.tensor._initialize", "make_config")
    txt = A.text(mk.node)
    for bmod in ("yastn.backend.backend_np", "yastn.backend.backend_torch"):
        if bmod not in prog.modules:
            continue
        b = prog.modules[bmod]
        bid = b.consts.get("BACKEND_ID")
        if not bid:
            continue
        val = ast.literal_eval(bid[0])
        chk.verdict("Z5", mk, f"make_config accepts backend '{val}'", True if f"'{val}'" in txt or f'"{val}"' in txt else False,
                    f"BACKEND_ID '{val}' (written by to_dict level>=1) is not recognised by make_config")


# ------------------------------------------------------------------------- guards
def guards(chk):
    prog = chk.prog
    chk.rule("Z6", "rejection guards: config/type mismatch raise; meta conformance covers every state field", floor=12)
    T = prog.cls("yastn.tensor", "Tensor")
    rf = T.methods["from_dict"]
    cfg = CFG(rf.node)
    # config guards in both generations
    ifs = [n for n in A.walk_local(rf.node) if isinstance(n, ast.If) and any(isinstance(b, ast.Raise) for b in n.body)]
    _inl = A.Inliner(rf.node)
    _par = A.enclosing_map(rf.node)

    def _ctx_text(n):
        """the test with single-definition temporaries written out, together with the tests of the enclosing ifs (a nested guard)"""
        class R(ast.NodeTransformer):
            def visit_Name(self, node):
                if isinstance(node.ctx, ast.Load):
                    e = _inl.expand(node)
                    if e is not node and not isinstance(e, ast.Name):
                        return e
                return node
        import copy as _copy
        parts = [A.text(R().visit(_copy.deepcopy(n.test)))]
        cur = n
        while cur in _par:
            cur = _par[cur]
            if isinstance(cur, ast.If):
                parts.append(A.text(cur.test))
        return " and ".join(parts)

    def has_guard(words):
        return [n for n in ifs if all(w in _ctx_text(n) for w in words)]
    g_sym = has_guard(["SYM_ID", "config.sym.SYM_ID"])
    g_fer = has_guard(["fermionic", "config.fermionic"])
    g_type = has_guard(["d['type']", "'Tensor'"])
    chk.verdict("Z6", rf, "symmetry of supplied config is compared with the stored one (both formats)",
                True if len(g_sym) >= 2 else False, "Tensor.from_dict lost a symmetry-mismatch guard")
    chk.verdict("Z6", rf, "fermionic flags of supplied config are compared (both formats)",
                True if len(g_fer) >= 2 else False, "Tensor.from_dict lost a fermionic-mismatch guard")
    chk.verdict("Z6", rf, "d['type'] must be 'Tensor'", True if g_type else False, "Tensor.from_dict lost the type guard")
    # the v2 guards dominate `d['config'] = config`
    stores = [n for n in A.walk_local(rf.node) if isinstance(n, ast.Assign) and A.text(n.targets[0]) == "d['config']"
              and A.text(n.value) == "config"]
    if stores and g_sym and g_fer:
        v2 = [g for g in g_sym + g_fer if g.lineno > stores[0].lineno - 8 and g.lineno < stores[0].lineno]
        ok = len(v2) >= 2 and all(cfg.must_pass([stores[0]], [g.test]) for g in v2)
        chk.verdict("Z6", (rf, stores[0]), stores[0], True if ok else False,
                    "the supplied config replaces the stored one without passing the symmetry/fermionic guards")
    # typed from_dicts compare cls.__name__ with d['type']
    for ci in prog.all_classes():
        fd = ci.methods.get("from_dict")
        if fd is None or ci.name == "Tensor" or "classmethod" not in fd.decorators:
            continue
        t = A.text(fd.node)
        if "d['type']" not in t and 'd["type"]' not in t:
            continue
        ok = "cls.__name__ != d['type']" in t or "d['type'] != cls.__name__" in t
        chk.verdict("Z6", fd, f"{ci.name}.from_dict type guard", True if ok else False,
                    f"{ci.name}.from_dict does not reject a dictionary of another type")
    # meta conformance: key lists
    wf = prog.func("yastn.tensor._output", "to_dict")
    rep = T.methods["_replace"]
    state = None
    for n in ast.walk(rep.node):
        if isinstance(n, ast.For):
            v = A.literal_seq(n.iter, rep.node, T.module.tree)
            if v and all(isinstance(x, str) for x in v):
                state = set(v)
    chk.require(state, "cannot read Tensor's field tuple from Tensor._replace")
    need = (state - {"data"}) | {"isdiag"}
    lists = []
    for n in ast.walk(wf.node):
        if isinstance(n, ast.Call) and A.call_name(n) == "all" and n.args and isinstance(n.args[0], ast.GeneratorExp):
            g = n.args[0]
            kv = A.text(g.generators[0].target)
            et = A.text(g.elt)
            if et in (f"meta[{kv}] == d[{kv}]", f"d[{kv}] == meta[{kv}]", f"not meta[{kv}] != d[{kv}]"):
                v = A.literal_seq(g.generators[0].iter, wf.node, wf.module.tree)
                if v is None:
                    raise AnalysisError("meta conformance key list is not a literal")
                lists.append((n, set(v)))
    chk.require(len(lists) >= 2, f"to_dict(meta=...): expected 2 conformance checks, found {len(lists)}")
    for n, keys in lists:
        miss = need - keys
        chk.verdict("Z6", (wf, n), n, True if not miss else False,
                    f"conformance check against `meta` does not compare {sorted(miss)}: a tensor differing from the meta in "
                    f"{sorted(miss)} is accepted and its data vector is interpreted in the wrong layout")
    # every return with meta is dominated by a conformance raise
    chk.verdict("Z6", wf, "second conformance check raises", True if any(
        isinstance(p, ast.If) and any(isinstance(b, ast.Raise) for b in p.body) and n in list(ast.walk(p.test))
        for n, _ in lists[1:] for p in ast.walk(wf.node) if isinstance(p, ast.If)) else False,
        "the final conformance check no longer raises")


# ---------------------------------------------------------------- normalised copy
def normalised_copy(chk):
    """Z7: `psi = self.shallow_copy(); psi.absorb_central_()` ... then data must be read from psi."""
    prog = chk.prog
    chk.rule("Z7", "writers that normalise a shallow copy serialise the tensors of that copy, not of the original", floor=2)
    for ci in prog.all_classes():
        for name in ("save_to_dict", "save_to_hdf5", "to_dict"):
            f = ci.methods.get(name)
            if f is None or f.cls is not ci or not f.params:
                continue
            me = f.params[0]
            body = A.strip_docstring(f.node.body)
            copyvar, norm_stmt = None, None
            for st in body:
                if isinstance(st, ast.Assign) and isinstance(st.value, ast.Call) and A.text(st.value.func) == f"{me}.shallow_copy" \
                        and isinstance(st.targets[0], ast.Name):
                    copyvar = st.targets[0].id
                if copyvar and isinstance(st, ast.Expr) and isinstance(st.value, ast.Call) and isinstance(st.value.func, ast.Attribute) \
                        and A.text(st.value.func.value) == copyvar and st.value.func.attr.endswith("_"):
                    norm_stmt = st
            if not (copyvar and norm_stmt):
                continue
            bad = []
            for st in body:
                if st.lineno <= norm_stmt.lineno:
                    continue
                for n in ast.walk(st):
                    # self[n] / self.A[...] / self.A.items()
                    if isinstance(n, ast.Subscript) and A.text(n.value) in (me, f"{me}.A"):
                        bad.append(n)
                    if isinstance(n, ast.Attribute) and A.text(n) == f"{me}.A" and not isinstance(getattr(n, "ctx", None), ast.Store):
                        bad.append(n)
            if bad:
                chk.bad("Z7", (f, bad[0]), bad[0], f"{f.short}() normalises the shallow copy `{copyvar}` ({A.text(norm_stmt)}) but then "
                        f"reads tensors from the original `{A.text(bad[0])}`: the un-normalised tensors are written")
            else:
                chk.ok("Z7", (f, norm_stmt), f"{f.short}: tensors read from `{copyvar}` after {A.text(norm_stmt)}")


MUTANTS = [
    ('from_dict compares the truthiness of the fermionic settings', 'yastn/tensor/__init__.py', "                if (d['config']['fermionic'] if isinstance(d['config'], dict) else d['config'].fermionic) != config.fermionic:", "                if bool(d['config']['fermionic'] if isinstance(d['config'], dict) else d['config'].fermionic) != bool(config.fermionic):", 'Z12'),
    ('resolve_ops delegation drops meta', 'yastn/tensor/_output.py', '        return a.consume_transpose().to_dict(level=level, meta=meta, resolve_ops=False)', '        return a.consume_transpose().to_dict(level=level)', 'Z9'),
    ('bra restored from the ket key', 'yastn/tn/fpeps/_peps.py', "            bra = Peps.from_dict(d['bra'], config=config) if ('bra' in d) else None", "            bra = Peps.from_dict(d['ket'], config=config) if ('bra' in d) else None", 'Z10'),
    ('bare sorted over mixed keys', 'yastn/_split_combine_dict.py', '    for k in _sorted_keys(d):', '    for k in sorted(d):', 'Z11'),
    ("reader forgets single-precision complex", "yastn/tensor/__init__.py", "for name in ('float32', 'float64', 'complex64', 'complex128', 'bool'):", "for name in ('float32', 'float64', 'complex128', 'bool'):", "Z8"),
    ("drop trans from to_dict", "yastn/tensor/_output.py", "         'trans': a.trans,\n", "", "Z1"),
    ("drop pC from MPS to_dict", "yastn/tn/mps/_mps_parent.py", "                'pC': psi.pC,\n", "", "Z1"),
    ("rename key on one side", "yastn/tn/fpeps/_doublePepsTensor.py", "trans=d['transpose']", "trans=d['trans']", "Z2"),
    ("registry forgets Peps2Layers", "yastn/_from_dict.py", '         "Peps2Layers": Peps2Layers,\n', "", "Z5"),
    ("registry forgets Z3", "yastn/tensor/_initialize.py", '         "Z3": sym_Z3,\n', "", "Z5"),
    ("drop SYM_ID guard", "yastn/tensor/__init__.py",
     "                if (d['config']['sym'] if isinstance(d['config'], dict) else d['config'].sym.SYM_ID)  != config.sym.SYM_ID:\n"
     "                    raise YastnError(\"Symmetry rule in config does not match the one in stored in d.\")\n", "", "Z6"),
    ("meta check without hfs", "yastn/tensor/_output.py",
     "            if not all(meta[k] == d[k] for k in ['type', 'dict_ver', 'config', 'struct', 'slices', 'trans', 'isdiag', 'hfs', 'mfs']):\n                raise",
     "            if not all(meta[k] == d[k] for k in ['type', 'dict_ver', 'config', 'struct', 'slices', 'trans', 'isdiag', 'mfs']):\n                raise", "Z6"),
    ("geometry forgets boundary", "yastn/tn/fpeps/_geometry.py", "                'dims': self.dims,\n                'boundary': self.boundary}",
     "                'dims': self.dims}", "Z3"),
    ("save_to_dict without consume_transpose", "yastn/tensor/_output.py",
     "    a = a.consume_transpose()\n    _d = a.config.backend.to_numpy(a._data).copy()", "    _d = a.config.backend.to_numpy(a._data).copy()", "Z1"),
    ("slices not restored", "yastn/tensor/__init__.py", "                d['slices'] = tuple(_slc(*x) for x in d['slices'])\n", "", "Z4"),
]
BENIGN = [
    ("reorder keys", "yastn/tn/mps/_mps_parent.py", "                'N': psi.N,\n                'pC': psi.pC,\n", "                'pC': psi.pC,\n                'N': psi.N,\n"),
    ("additional optional key", "yastn/tn/fpeps/_doublePepsTensor.py", "        op = Tensor.from_dict(d=d['op'], config=config) if 'op' in d else None",
     "        op = Tensor.from_dict(d=d['op'], config=config) if 'op' in d else None\n        _note = d.get('note', None)"),
]


def dtype_table(chk):
    """Z8: the reader recognises every data type the backends can hold.  Tensor.from_dict (and the legacy branch) choose the dtype
    handed to backend.to_tensor from the dtype of the stored data; a dtype that is not recognised falls back to the config's default and
    the data is *cast* (complex64 -> float64 drops the imaginary part).  The recognised names are collected from the tests
    `<name> in str(<data>.dtype)` (constants, or a loop variable over a literal tuple) or from `<data>.dtype.name`; they must
    cover the keys of the backend's DTYPE table."""
    prog = chk.prog
    chk.rule("Z8", "Tensor.from_dict keeps the dtype of the stored data for every dtype of the backend's DTYPE table", floor=4)
    bm = prog.module("yastn.backend.backend_np")
    tab = [n.value for n in bm.tree.body if isinstance(n, ast.Assign) and A.text(n.targets[0]) == "DTYPE" and isinstance(n.value, ast.Dict)]
    chk.require(tab, "backend_np.DTYPE table not found")
    need = [k.value for k in tab[0].keys if isinstance(k, ast.Constant)]
    chk.require(len(need) >= 4, "backend_np.DTYPE: literal keys not found")
    T = prog.cls("yastn.tensor", "Tensor")
    fd = T.methods["from_dict"]
    par = A.enclosing_map(fd.node)
    # the conversion of the (current-format) data: <backend>.to_tensor(d['data'], dtype=<name>, ...)
    convs = [c for c in A.calls(fd.node) if A.callee_attr(c) == "to_tensor" and c.args and "'data'" in A.text(c.args[0])]
    chk.require(convs, "Tensor.from_dict: conversion of d['data'] by backend.to_tensor not found")
    c = convs[0]
    dt = A.kwarg(c, "dtype")
    chk.require(isinstance(dt, ast.Name), "Tensor.from_dict: dtype passed to to_tensor is not a local name")
    recognised = set()
    generic = False
    inl_ = A.Inliner(fd.node)
    for n in ast.walk(fd.node):
        # dtype = <data>.dtype.name  : every dtype keeps its name
        if isinstance(n, ast.Assign) and A.text(n.targets[0]) == dt.id and "'data'" in A.text(inl_.expand(n.value)) and A.text(n.value).replace(" ", "").find(".dtype.name") >= 0:
            generic = True
        if isinstance(n, ast.Compare) and len(n.ops) == 1 and isinstance(n.ops[0], ast.In) and "'data'" in A.text(inl_.expand(n.comparators[0])) and ".dtype" in A.text(n.comparators[0]):
            # what is assigned to the dtype variable under this test?
            cur = n
            while cur in par and not isinstance(cur, ast.If):
                cur = par[cur]
            if not isinstance(cur, ast.If):
                continue
            assigned = [b.value for b in cur.body if isinstance(b, ast.Assign) and A.text(b.targets[0]) == dt.id]
            if not assigned:
                continue
            if isinstance(n.left, ast.Constant) and isinstance(assigned[0], ast.Constant) and assigned[0].value == n.left.value:
                recognised.add(n.left.value)
            elif isinstance(n.left, ast.Name) and isinstance(assigned[0], ast.Name) and assigned[0].id == n.left.id:
                loop = cur
                while loop in par and not (isinstance(loop, ast.For) and A.text(loop.target) == n.left.id):
                    loop = par[loop]
                if isinstance(loop, ast.For):
                    vals = A.literal_seq(loop.iter, fd.node, T.module.tree)
                    if vals:
                        recognised.update(v for v in vals if isinstance(v, str))
    for k in need:
        ok = generic or k in recognised
        chk.verdict("Z8", (fd, c), f"dtype '{k}' of stored data is kept", True if ok else False,
                    f"Tensor.from_dict: stored data of dtype '{k}' is not recognised (recognised: {sorted(recognised)}); it is converted to the config's "
                    f"default dtype — the restored tensor has another dtype and, for a complex type under a real default, loses its imaginary part")
