"""E12 `deadbind` — nothing the caller supplies is silently ignored.

U1  every parameter of a (non-abstract, non-trivial) function is read somewhere in its body
U2  every name bound by unpacking (tuple targets of assignments, for-loops and comprehensions) is read

Both are necessary conditions of any property that says the result depends on that argument ("with projection penalties …",
"normalised or with its true norm as requested", "all truncation option sets"): a parameter that is never read cannot
influence the result.  The realistic way to break them is a refactoring that drops one keyword from a forwarded call
(`expmv(..., normalize=normalize)` -> `expmv(...)`) or stops using one component of an unpacked pair.  The handful of
instances on the pinned tree were read one by one and are listed as named exceptions with the reason.
"""
from __future__ import annotations

import ast

from ..core import astutil as A

# (module relpath suffix, function short name, name) -> reason
EXCEPTIONS = {
    ("krylov/_krylov.py", "eigs", "maxiter"): "documented as reserved for restarts, which are not implemented; read by no code path",
    ("krylov/_krylov.py", "eigs", "tol"): "the Krylov space is always built to breakdown tolerance 1e-13; the parameter is accepted for API symmetry and ignored (noted in DESIGN)",
    ("krylov/_krylov.py", "svds", "v0"): "start vector is drawn internally by the block solver; parameter kept for scipy-like signature",
    ("krylov/_krylov.py", "svds", "rng"): "same as v0",
    ("krylov/_krylov.py", "svds", "res_meta"): "second component of combine_data_and_meta output pairs is intentionally dropped",
    ("tensor/_algebra.py", "Tensor.__array_ufunc__", "method"): "numpy protocol signature",
    ("tn/mps/_mps_parent.py", "_MpsMpoParent.__array_ufunc__", "method"): "numpy protocol signature",
    ("tensor/linalg.py", "_find_gaps", "tol"): "helper keeps the signature of truncation_mask_multiplets' options",
    ("tensor/linalg.py", "_find_gaps", "eps_multiplet"): "same",
    ("tn/mps/_mps_obc.py", "MpoPBC.__init__", "nr_phys"): "a periodic MPO always has two physical legs; the argument exists so that type(self)(N=, nr_phys=) works for all classes",
}


def _excepted(f, name):
    for (suffix, fn, nm), why in EXCEPTIONS.items():
        if f.module.relpath.endswith(suffix) and f.short == fn and nm == name:
            return why
    return None


def run_U(chk, prefixes, rule1="U1", rule2="U2", floor1=40, floor2=10):
    prog = chk.prog
    chk.rule(rule1, "every parameter is read by the function that declares it (nothing the caller supplies is silently ignored)", floor=floor1)
    chk.rule(rule2, "every name bound by unpacking a tuple is read", floor=floor2)
    for f in prog.all_funcs():
        if not f.module.name.startswith(tuple(prefixes)) or "torch" in f.module.name:
            continue
        fn = f.node
        body = A.strip_docstring(fn.body)
        if not body or any("abstractmethod" in d or "overload" in d for d in f.decorators):
            continue
        if len(body) == 1 and (isinstance(body[0], (ast.Pass, ast.Raise)) or (isinstance(body[0], ast.Expr) and isinstance(body[0].value, ast.Constant))):
            continue
        reads = {x.id for x in ast.walk(fn) if isinstance(x, ast.Name) and isinstance(x.ctx, ast.Load)}
        # names used through locals()/vars()/eval are out of reach: such functions are skipped
        if any(isinstance(x, ast.Call) and A.call_name(x) in ("locals", "vars", "eval", "exec") for x in ast.walk(fn)):
            continue
        a = fn.args
        for p in [x.arg for x in a.posonlyargs + a.args + a.kwonlyargs]:
            if p in ("self", "cls") or p.startswith("_"):
                continue
            if p in reads:
                chk.ok(rule1, f, f"{f.short}({p})", sample=False)
            else:
                why = _excepted(f, p)
                if why:
                    chk.note(f"{rule1} named exception {f.short}({p}): {why}")
                    continue
                chk.bad(rule1, f, f"{f.short}({p})", f"{f.short}(): the parameter `{p}` is never read: whatever the caller passes is ignored "
                        f"(typically a keyword that is no longer forwarded to the callee that implements it)")
        for x in ast.walk(fn):
            tg = None
            if isinstance(x, (ast.For, ast.comprehension)) and isinstance(x.target, (ast.Tuple, ast.List)):
                tg = x.target
            elif isinstance(x, ast.Assign) and isinstance(x.targets[0], (ast.Tuple, ast.List)):
                tg = x.targets[0]
            if tg is None:
                continue
            for nm in A.assigned_names(tg):
                if nm.startswith("_"):
                    continue
                if nm in reads:
                    chk.ok(rule2, (f, tg), f"{f.short}: {nm} of `{A.short(tg, 40)}`", sample=False)
                else:
                    why = _excepted(f, nm)
                    if why:
                        chk.note(f"{rule2} named exception {f.short}: {nm}: {why}")
                        continue
                    chk.bad(rule2, (f, tg), f"{f.short}: {nm} of `{A.short(tg, 40)}`",
                            f"{f.short}(): `{nm}`, unpacked in `{A.short(tg, 50)}`, is never read: that component of the caller's data is ignored")
