"""E12 `deadbind` — nothing the caller supplies is silently ignored.

U1  every parameter of a (non-abstract, non-trivial) function is read somewhere in its body
U2  every name bound by unpacking (tuple targets of assignments, for-loops and comprehensions) is read

Both are necessary conditions of any property that says the result depends on that argument ("with projection penalties …",
"normalised or with its true norm as requested", "all truncation option sets"): a parameter that is never read cannot
influence the result.  The realistic way to break them is a refactoring that drops one keyword from a forwarded call
(`expmv(..., normalize=normalize)` -> `expmv(...)`) or stops using one component of an unpacked pair.  The handful of
instances on the pinned tree were read one by one and are listed as named exceptions with the reason.
"""
from __future__ import annotations

import ast

from ..core import astutil as A
from ..core.errors import AnalysisError

# (module relpath suffix, function short name, name) -> reason
EXCEPTIONS = {
    ("krylov/_krylov.py", "eigs", "maxiter"): "documented as reserved for restarts, which are not implemented; read by no code path",
    ("krylov/_krylov.py", "eigs", "tol"): "the Krylov space is always built to breakdown tolerance 1e-13; the parameter is accepted for API symmetry and ignored (noted in DESIGN)",
    ("krylov/_krylov.py", "svds", "v0"): "start vector is drawn internally by the block solver; parameter kept for scipy-like signature",
    ("krylov/_krylov.py", "svds", "rng"): "same as v0",
    ("krylov/_krylov.py", "svds", "res_meta"): "second component of combine_data_and_meta output pairs is intentionally dropped",
    ("tensor/_algebra.py", "Tensor.__array_ufunc__", "method"): "numpy protocol signature",
    ("tn/mps/_mps_parent.py", "_MpsMpoParent.__array_ufunc__", "method"): "numpy protocol signature",
    ("tensor/linalg.py", "_find_gaps", "tol"): "helper keeps the signature of truncation_mask_multiplets' options",
    ("tensor/linalg.py", "_find_gaps", "eps_multiplet"): "same",
    ("tn/mps/_mps_obc.py", "MpoPBC.__init__", "nr_phys"): "a periodic MPO always has two physical legs; the argument exists so that type(self)(N=, nr_phys=) works for all classes",
}


def _excepted(f, name):
    for (suffix, fn, nm), why in EXCEPTIONS.items():
        if f.module.relpath.endswith(suffix) and f.short == fn and nm == name:
            return why
    return None


def run_U(chk, prefixes, rule1="U1", rule2="U2", floor1=40, floor2=10):
    prog = chk.prog
    run_U4(chk, prefixes, floor=max(1, floor1))
    run_U5(chk, prefixes)
    run_U6(chk, prefixes)
    run_U7(chk, prefixes)
    run_U8(chk, prefixes)
    run_U9(chk, prefixes)
    run_U10(chk, prefixes)
    run_U11(chk, prefixes)
    run_U12(chk, prefixes)
    run_U13(chk, prefixes)
    run_U14(chk, prefixes)
    run_U15(chk, prefixes)
    chk.rule(rule1, "every parameter is read by the function that declares it (nothing the caller supplies is silently ignored)", floor=floor1)
    chk.rule(rule2, "every name bound by unpacking a tuple is read", floor=floor2)
    for f in prog.all_funcs():
        if not f.module.name.startswith(tuple(prefixes)) or "torch" in f.module.name:
            continue
        fn = f.node
        body = A.strip_docstring(fn.body)
        if not body or any("abstractmethod" in d or "overload" in d for d in f.decorators):
            continue
        if len(body) == 1 and (isinstance(body[0], (ast.Pass, ast.Raise)) or (isinstance(body[0], ast.Expr) and isinstance(body[0].value, ast.Constant))):
            continue
        reads = {x.id for x in ast.walk(fn) if isinstance(x, ast.Name) and isinstance(x.ctx, ast.Load)}
        # names used through locals()/vars()/eval are out of reach: such functions are skipped
        if any(isinstance(x, ast.Call) and A.call_name(x) in ("locals", "vars", "eval", "exec") for x in ast.walk(fn)):
            continue
        a = fn.args
        for p in [x.arg for x in a.posonlyargs + a.args + a.kwonlyargs]:
            if p in ("self", "cls") or p.startswith("_"):
                continue
            if p in reads:
                chk.ok(rule1, f, f"{f.short}({p})", sample=False)
            else:
                why = _excepted(f, p)
                if why:
                    chk.note(f"{rule1} named exception {f.short}({p}): {why}")
                    continue
                chk.bad(rule1, f, f"{f.short}({p})", f"{f.short}(): the parameter `{p}` is never read: whatever the caller passes is ignored "
                        f"(typically a keyword that is no longer forwarded to the callee that implements it)")
        for x in ast.walk(fn):
            tg = None
            if isinstance(x, (ast.For, ast.comprehension)) and isinstance(x.target, (ast.Tuple, ast.List)):
                tg = x.target
            elif isinstance(x, ast.Assign) and isinstance(x.targets[0], (ast.Tuple, ast.List)):
                tg = x.targets[0]
            if tg is None:
                continue
            for nm in A.assigned_names(tg):
                if nm.startswith("_"):
                    continue
                if nm in reads:
                    chk.ok(rule2, (f, tg), f"{f.short}: {nm} of `{A.short(tg, 40)}`", sample=False)
                else:
                    why = _excepted(f, nm)
                    if why:
                        chk.note(f"{rule2} named exception {f.short}: {nm}: {why}")
                        continue
                    chk.bad(rule2, (f, tg), f"{f.short}: {nm} of `{A.short(tg, 40)}`",
                            f"{f.short}(): `{nm}`, unpacked in `{A.short(tg, 50)}`, is never read: that component of the caller's data is ignored")


# ------------------------------------------------------------------ U4 arguments out of order
# (caller module suffix, caller short name, callee name) -> reason
U4_EXCEPTIONS = {
    ("tensor/_contractions.py", "Tensor.tensordot", "_tensordot_diag"):
        "deliberate role swap: _tensordot_diag(diagonal operand, other operand, axes of the other) is called as (b, a, in_a) when b is the diagonal one",
}

_U4_FIXTURE = """
def callee(bra, ket, n):
    return bra, ket, n
def caller(bra, ket):
    return callee(ket, bra, 0)
"""


def _swapped_pairs(call, names):
    """positional/keyword arguments that are plain names equal to *each other's* parameter names"""
    if any(isinstance(x, ast.Starred) for x in call.args):
        return []
    given = {}
    for i, x in enumerate(call.args[:len(names)]):
        given[names[i]] = x.id if isinstance(x, ast.Name) else None
    for k in call.keywords:
        if k.arg in names:
            given[k.arg] = k.value.id if isinstance(k.value, ast.Name) else None
    out = []
    ks = sorted(given)
    for i, p in enumerate(ks):
        for q in ks[i + 1:]:
            if given[p] == q and given[q] == p:
                out.append((p, q))
    return out


def run_U4(chk, prefixes, floor=20):
    """A call that passes the caller's `x` for the callee's parameter `y` and its `y` for the callee's `x` has, with overwhelming likelihood,
    its arguments in the wrong order (bra/ket, a/b, left/right exchanged).  Callees: plain names resolved through the module's imports,
    methods called on self/cls, and attribute calls whose method name has one positional signature in the whole program."""
    prog = chk.prog
    chk.rule("U4", "no call passes two of the caller's names for each other's parameter (arguments out of order)", floor=floor)
    fx = ast.parse(_U4_FIXTURE)
    fxc = [c for c in ast.walk(fx) if isinstance(c, ast.Call)][0]
    if _swapped_pairs(fxc, ["bra", "ket", "n"]) != [("bra", "ket")]:
        raise AnalysisError("U4: the built-in positive fixture is not recognised (rule broken)")
    bysig = {}
    for g in prog.all_funcs():
        a = g.node.args
        names = [x.arg for x in a.posonlyargs + a.args]
        if g.cls is not None and names and not any("staticmethod" in d for d in g.decorators):
            names = names[1:]
        bysig.setdefault(g.name, set()).add(tuple(names))
    for f in prog.all_funcs():
        if not f.module.name.startswith(tuple(prefixes)) or "torch" in f.module.name:
            continue
        a0 = f.node.args
        recv = (a0.posonlyargs + a0.args)[0].arg if (a0.posonlyargs + a0.args) else None
        for c in ast.walk(f.node):
            if not isinstance(c, ast.Call):
                continue
            names = None
            cname = None
            if isinstance(c.func, ast.Name):
                t = prog.resolve(f.module, c.func.id)
                if hasattr(t, "node") and hasattr(t, "params"):
                    a = t.node.args
                    names = [x.arg for x in a.posonlyargs + a.args]
                    cname = t.name
            elif isinstance(c.func, ast.Attribute):
                sigs = bysig.get(c.func.attr)
                own = f.cls.methods.get(c.func.attr) if (f.cls is not None and isinstance(c.func.value, ast.Name) and c.func.value.id == recv) else None
                if own is not None:
                    a = own.node.args
                    names = [x.arg for x in a.posonlyargs + a.args][1:]
                    cname = own.name
                elif sigs and len(sigs) == 1:
                    names = list(next(iter(sigs)))
                    cname = c.func.attr
            if not names:
                continue
            sw = _swapped_pairs(c, names)
            if not sw:
                chk.ok("U4", (f, c), f"{f.short}: {A.short(c, 50)}", sample=False)
                continue
            why = next((w for (suf, fn, cal), w in U4_EXCEPTIONS.items() if f.module.relpath.endswith(suf) and f.short == fn and cal == cname), None)
            if why:
                chk.note(f"U4 named exception {f.short} -> {cname}: {why}")
                continue
            p, q = sw[0]
            chk.bad("U4", (f, c), f"{f.short}: {A.short(c, 60)}",
                    f"{f.short}(): `{A.short(c, 70)}` passes the caller's `{q}` for {cname}()'s parameter `{p}` and its `{p}` for `{q}`: the two "
                    f"arguments are exchanged (for a sesquilinear / non-commutative callee the result is the conjugate / transposed one)")


# ------------------------------------------------------------------ U6 mutable defaults that are written
U6_MUTATORS = {"append", "extend", "insert", "update", "setdefault", "pop", "popitem", "clear", "add", "discard", "remove", "sort", "reverse"}


def _mutable_default_writes(fn):
    """[(parameter, default node, first writing node)] for parameters whose default is a mutable display (`[]`, `{}`, `set()`, ...) and
    which the function writes in place: the default object is created once, so whatever one call stores is seen by the next call that
    relies on the default (state shared between unrelated calls)."""
    a = fn.args
    pos = a.posonlyargs + a.args
    pairs = list(zip([x.arg for x in pos[len(pos) - len(a.defaults):]], a.defaults)) + \
        [(x.arg, d) for x, d in zip(a.kwonlyargs, a.kw_defaults) if d is not None]
    out = []
    for p_, d in pairs:
        mutable = isinstance(d, (ast.List, ast.Dict, ast.Set, ast.ListComp, ast.DictComp, ast.SetComp)) or \
            (isinstance(d, ast.Call) and (A.call_name(d) or "") in ("list", "dict", "set", "defaultdict", "collections.defaultdict", "OrderedDict"))
        if not mutable:
            continue
        # the parameter is rebound to a fresh object before any write? (`H = dict(H)`): then later writes do not reach the default
        rebinds = [n for n in ast.walk(fn) if isinstance(n, ast.Assign) and any(isinstance(t, ast.Name) and t.id == p_ for t in n.targets)]
        cfg = None
        par = None
        for n in ast.walk(fn):
            w = None
            if isinstance(n, (ast.Subscript, ast.Attribute)) and isinstance(n.ctx, (ast.Store, ast.Del)) and isinstance(n.value, ast.Name) and n.value.id == p_:
                w = n
            elif isinstance(n, ast.Call) and isinstance(n.func, ast.Attribute) and isinstance(n.func.value, ast.Name) and n.func.value.id == p_ \
                    and n.func.attr in U6_MUTATORS:
                w = n
            elif isinstance(n, ast.AugAssign) and isinstance(n.target, ast.Name) and n.target.id == p_:
                w = n
            if w is not None:
                reaches = True
                if rebinds:
                    # the write reaches the default object unless every path from the entry passes a rebinding of the parameter first
                    from ..core.cfg import CFG
                    cfg = cfg or CFG(fn)
                    par = par or A.enclosing_map(fn)
                    st = A.stmt_of(w, par)
                    rb = [r for r in rebinds if r in cfg.node_of]
                    if st in cfg.node_of and rb:
                        reaches = not cfg.must_pass([st], rb)
                if reaches:
                    out.append((p_, d, w))
                    break
    return out


_U6_FIXTURE = """
def expand(v, H={}):
    H[(0, 0)] = v
    return H
"""


def run_U6(chk, prefixes, rule="U6"):
    prog = chk.prog
    chk.rule(rule, "no function writes into a parameter whose default is a mutable object created once (state shared between calls)", floor=0)
    fx = [n for n in ast.parse(_U6_FIXTURE).body if isinstance(n, ast.FunctionDef)][0]
    if [x[0] for x in _mutable_default_writes(fx)] != ["H"]:
        raise AnalysisError("U6: the built-in positive fixture is not recognised (rule broken)")
    for f in prog.all_funcs():
        if not f.module.name.startswith(tuple(prefixes)) or "torch" in f.module.name:
            continue
        if not (f.node.args.defaults or f.node.args.kw_defaults):
            continue
        hits = _mutable_default_writes(f.node)
        for p_, d, w in hits:
            chk.bad(rule, (f, w), f"{f.short}({p_}={A.text(d)})", f"{f.short}(): the parameter `{p_}` defaults to the mutable object `{A.text(d)}`, created once when the "
                    f"function is defined, and the function writes into it (`{A.short(w, 50)}`): every call that relies on the default shares one object, so "
                    f"entries stored by an earlier, unrelated call are still there (e.g. stale Hessenberg entries of a previous Krylov run)")
        if not hits:
            chk.ok(rule, f, f"{f.short}: defaults are not written", sample=False)


# ------------------------------------------------------------------ U7 optional transformation applied on every returning path
def run_U7(chk, prefixes, rule="U7"):
    """An optional argument P (default None) that is applied to the operands by `if P is not None: X = g(X, P)` must have been applied on
    every path that returns a result built from X when P is given: a shortcut `if <trivial case>: return X[0]` placed in front of the
    application returns the operand un-transformed exactly for the callers that pass P (add(a, amplitudes=[c]) returning a)."""
    from ..core.cfg import CFG, NOTNONE
    prog = chk.prog
    chk.rule(rule, "an optional argument that transforms the operands is applied on every path that returns them", floor=0)
    for f in prog.all_funcs():
        if not f.module.name.startswith(tuple(prefixes)) or "torch" in f.module.name:
            continue
        fn = f.node
        a = fn.args
        names = [x.arg for x in a.posonlyargs + a.args + a.kwonlyargs]
        dmap = dict(zip([x.arg for x in (a.posonlyargs + a.args)[len(a.posonlyargs + a.args) - len(a.defaults):]], a.defaults))
        dmap.update({x.arg: d for x, d in zip(a.kwonlyargs, a.kw_defaults) if d is not None})
        opt = [p_ for p_, d in dmap.items() if isinstance(d, ast.Constant) and d.value is None]
        operands = set(names) | ({a.vararg.arg} if a.vararg else set())
        if not opt:
            continue
        cfg = None
        for p_ in opt:
            apps = []
            for n in A.walk_local(fn, include_self=False):
                if isinstance(n, ast.If) and isinstance(n.test, ast.Compare) and len(n.test.ops) == 1 and isinstance(n.test.ops[0], ast.IsNot) \
                        and isinstance(n.test.left, ast.Name) and n.test.left.id == p_ and isinstance(n.test.comparators[0], ast.Constant) and n.test.comparators[0].value is None:
                    for st in ast.walk(ast.Module(body=n.body, type_ignores=[])):
                        if isinstance(st, ast.Assign) and isinstance(st.targets[0], ast.Name) and st.targets[0].id in operands and st.targets[0].id != p_ \
                                and any(isinstance(x, ast.Name) and x.id == p_ for x in ast.walk(st.value)) \
                                and any(isinstance(x, ast.Name) and x.id == st.targets[0].id for x in ast.walk(st.value)):
                            apps.append(st)
            if not apps:
                continue
            cfg = cfg or CFG(fn)
            g = cfg.specialised({p_: NOTNONE})
            live = g.reach_from({g.entry.id})
            X = apps[0].targets[0].id
            rets = [r for r in A.returns_of(fn) if r.value is not None and r in cfg.node_of and cfg.node_of[r].id in live
                    and any(isinstance(x, ast.Name) and x.id == X for x in ast.walk(r.value))]
            for r in rets:
                ok = g.must_pass([r], [s_ for s_ in apps if s_ in cfg.node_of])
                chk.verdict(rule, (f, r), f"{f.short}: `{A.short(r, 40)}` after `{p_}` was applied to `{X}`", True if ok else False,
                            f"{f.short}(): with `{p_}` given, `{A.short(r, 40)}` can be reached without `{A.short(apps[0], 60)}`: the operand is returned "
                            f"without the transformation the caller asked for (e.g. a one-term linear combination add(a, amplitudes=[c]) returns a, "
                            f"not c*a -- the Krylov solvers produce exactly this call when the Krylov space has dimension 1)")


# ------------------------------------------------------------------ U8 documented default == signature default
U8_EXCEPTIONS = {
    ("tn/mps/_initialize.py", "mps_from_tensor", "canonize"): "the docstring says 'first', the signature (and every caller and test) uses 'last': documentation slip of the pinned tree",
}
_U8_PATTERNS = (r"``([^`]+)``\s*\(the default\)", r"[Tt]he default is\s*``([^`]+)``", r"[Dd]efault is\s*``([^`]+)``", r"[Dd]efault:\s*``([^`]+)``")


def _doc_defaults(doc):
    """parameter -> literal text the numpydoc-style docstring states as its default (only the unambiguous double-backtick idioms)"""
    import re
    out = {}
    cur = None
    for line in doc.splitlines():
        m = re.match(r"^\s*(\w+)\s*:\s*\S.*$", line)
        if m and not line.strip().startswith(("..", ":")):
            cur = m.group(1)
            continue
        if cur is None or not line.strip():
            continue
        for pat in _U8_PATTERNS:
            mm = re.search(pat, line)
            if mm:
                out.setdefault(cur, mm.group(1))
                break
    return out


def run_U8(chk, prefixes, rule="U8"):
    """Stated belief vs code: where the docstring names the default of a parameter as a literal (``'last'`` (the default) / The default is
    ``True``), the signature has that default.  One of the two is wrong otherwise -- and since callers rely on the documented
    behaviour when they omit the argument, a changed default silently changes what they get (e.g. the sweep direction of truncate_)."""
    prog = chk.prog
    chk.rule(rule, "defaults named as literals in the docstring equal the defaults of the signature", floor=0)
    for f in prog.all_funcs():
        if not f.module.name.startswith(tuple(prefixes)) or "torch" in f.module.name:
            continue
        doc = ast.get_docstring(f.node)
        if not doc or "efault" not in doc:
            continue
        a = f.node.args
        pos = a.posonlyargs + a.args
        dmap = dict(zip([x.arg for x in pos[len(pos) - len(a.defaults):]], a.defaults))
        dmap.update({x.arg: d for x, d in zip(a.kwonlyargs, a.kw_defaults) if d is not None})
        for p_, txt in _doc_defaults(doc).items():
            if p_ not in dmap:
                continue
            try:
                dv = ast.literal_eval(dmap[p_])
                tv = ast.literal_eval(txt.strip())
            except Exception:  # noqa: BLE001
                continue
            if tv == dv and type(tv) is type(dv) or (tv == dv and isinstance(tv, (int, float)) and isinstance(dv, (int, float)) and not isinstance(tv, bool) and not isinstance(dv, bool)):
                chk.ok(rule, f, f"{f.short}({p_}={dv!r}) as documented", sample=False)
                continue
            why = next((w for (suf, fn_, nm), w in U8_EXCEPTIONS.items() if f.module.relpath.endswith(suf) and f.name == fn_ and nm == p_), None)
            if why:
                chk.note(f"{rule} named exception {f.short}({p_}): {why}")
                continue
            chk.bad(rule, f, f"{f.short}({p_}={dv!r})", f"{f.short}(): the docstring names ``{txt}`` as the default of `{p_}`, the signature has `{p_}={dv!r}`: callers who "
                    f"omit the argument, relying on the documentation, get the other behaviour (no error, no warning)")


# ------------------------------------------------------------------ U9 break that slipped out of its search loop
_U9_FIXTURE = """
def f(labels, tensors, info, out):
    for u in labels:
        if u in out:
            for k in range(len(tensors)):
                if (k, u) in info:
                    out[u] = info[(k, u)]
            break
"""


def _slipped_breaks(fn):
    """`break` placed directly after an inner loop that itself contains no break: the shape left behind when the `break` of a search loop
    (`for k ..: if found: store; break`) loses one level of indentation -- it now ends the *enclosing* loop after the first pass"""
    out = []
    for n in ast.walk(fn):
        for fld in ("body", "orelse"):
            blk = getattr(n, fld, None)
            if not (isinstance(blk, list) and blk and isinstance(blk[0], ast.stmt)):
                continue
            for prev, st in zip(blk, blk[1:]):
                if isinstance(st, ast.Break) and isinstance(prev, (ast.For, ast.While)) and not any(isinstance(x, ast.Break) for x in ast.walk(prev)) \
                        and any(isinstance(x, ast.If) for x in ast.walk(prev)):
                    out.append((prev, st))
    return out


def run_U9(chk, prefixes, rule="U9"):
    prog = chk.prog
    chk.rule(rule, "no `break` sits directly behind an inner search loop that has none (a break that slipped out of its loop ends the enclosing one)", floor=0)
    fx = [n for n in ast.parse(_U9_FIXTURE).body if isinstance(n, ast.FunctionDef)][0]
    if len(_slipped_breaks(fx)) != 1:
        raise AnalysisError("U9: the built-in positive fixture is not recognised (rule broken)")
    for f in prog.all_funcs():
        if not f.module.name.startswith(tuple(prefixes)) or "torch" in f.module.name:
            continue
        if "break" not in A.text(f.node):
            continue
        hits = _slipped_breaks(f.node)
        for lp, br in hits:
            chk.bad(rule, (f, br), f"{f.short}: break after `{A.short(lp, 40)}`", f"{f.short}(): a `break` follows directly on the inner loop `{A.short(lp, 50)}`, which "
                    f"searches (it tests and stores) but never breaks itself: the break ends the *enclosing* loop after its first pass, so only the first "
                    f"item is processed (e.g. only the first unrolled output index is recorded) -- the usual result of a break losing one level of indentation")
        if not hits:
            chk.ok(rule, f, f"{f.short}: breaks sit in their loops", sample=False)


# ------------------------------------------------------------------ U11 validation flag overwritten per iteration
_U11_FIXTURE = """
def f(items, first):
    same = True
    for k, v in items:
        same = first.setdefault(k, v) == v
    if not same:
        raise ValueError("inconsistent")
"""


def _overwritten_flags(fn):
    """[(flag, loop, store, guard)]: a name initialised with True/False in front of a loop, assigned inside the loop from an expression that
    does not mention it (and not under a test that mentions it), never tested inside the loop, and after the loop used only in the test of an
    `if` that raises: the guard was meant to hold for every iteration and sees the last one only."""
    out = []
    body_lists = [n.body for n in ast.walk(fn) if hasattr(n, "body") and isinstance(getattr(n, "body"), list)]
    body_lists += [n.orelse for n in ast.walk(fn) if getattr(n, "orelse", None) and isinstance(n.orelse, list)]
    body_lists += [n.finalbody for n in ast.walk(fn) if getattr(n, "finalbody", None)]
    for body in body_lists:
        for i, st in enumerate(body):
            # the loop may sit directly in this block or inside a try: that does (the flag's initialisation then sits in the try body too)
            if not isinstance(st, (ast.For, ast.While)):
                continue
            inits = {}
            for prev in body[:i]:
                if isinstance(prev, ast.Assign):
                    tg, vals = prev.targets[0], prev.value
                    pairs = list(zip(tg.elts, vals.elts)) if isinstance(tg, ast.Tuple) and isinstance(vals, ast.Tuple) and len(tg.elts) == len(vals.elts) \
                        else [(tg, vals)]
                    for t_, v_ in pairs:
                        if isinstance(t_, ast.Name) and isinstance(v_, ast.Constant) and isinstance(v_.value, bool):
                            inits[t_.id] = prev
            for flag in inits:
                stores = [n for n in ast.walk(st) if isinstance(n, ast.Assign) and any(isinstance(t_, ast.Name) and t_.id == flag for t_ in n.targets)]
                aug = [n for n in ast.walk(st) if isinstance(n, ast.AugAssign) and isinstance(n.target, ast.Name) and n.target.id == flag]
                if len(stores) != 1 or aug:
                    continue
                sto = stores[0]
                reads_in_loop = [n for n in ast.walk(st) if isinstance(n, ast.Name) and n.id == flag and isinstance(n.ctx, ast.Load)]
                if reads_in_loop:
                    continue        # accumulated (`f = f and c`), tested (`if not f: break`) or otherwise consumed per iteration
                if isinstance(sto.value, ast.Constant):
                    continue        # `if bad: flag = False` -- a latch
                if any(isinstance(n, (ast.Break, ast.Return)) for n in ast.walk(st)):
                    continue        # the loop can stop at the deciding iteration
                # after the loop: every read sits in the test of an `if` whose body raises
                rest_reads = [n for n in ast.walk(fn) if isinstance(n, ast.Name) and n.id == flag and isinstance(n.ctx, ast.Load)]
                guards = [g for g in ast.walk(fn) if isinstance(g, ast.If) and any(isinstance(b, ast.Raise) for b in g.body)
                          and any(n in rest_reads for n in ast.walk(g.test))]
                in_guards = [n for g in guards for n in ast.walk(g.test) if n in rest_reads]
                if guards and len(in_guards) == len(rest_reads) and all(g.lineno > st.lineno for g in guards):
                    out.append((flag, st, sto, guards[0]))
    return out


def run_U11(chk, prefixes, rule="U11"):
    prog = chk.prog
    chk.rule(rule, "a validation flag that guards a raise after a loop is accumulated over the iterations, not overwritten by each of them", floor=0)
    fx = [n for n in ast.parse(_U11_FIXTURE).body if isinstance(n, ast.FunctionDef)][0]
    if [x[0] for x in _overwritten_flags(fx)] != ["same"]:
        raise AnalysisError("U11: the built-in positive fixture is not recognised (rule broken)")
    for f in prog.all_funcs():
        if not f.module.name.startswith(tuple(prefixes)) or "torch" in f.module.name:
            continue
        if not any(isinstance(n, ast.Raise) for n in ast.walk(f.node)) or not any(isinstance(n, (ast.For, ast.While)) for n in ast.walk(f.node)):
            continue
        hits = _overwritten_flags(f.node)
        for flag, lp, sto, g in hits:
            chk.bad(rule, (f, sto), f"{f.short}: `{A.short(sto, 60)}`", f"{f.short}(): the flag `{flag}` is overwritten by every iteration of `{A.short(lp, 40)}` "
                    f"(`{A.short(sto, 60)}` does not involve its previous value) and is tested only after the loop by the guard `if {A.short(g.test, 40)}: raise`: "
                    f"only the last iteration decides, an inconsistency met earlier is forgotten (e.g. a pattern whose last site agrees is accepted)")
        if not hits:
            chk.ok(rule, f, f"{f.short}: no overwritten validation flag", sample=False)


# ------------------------------------------------------------------ U12 latch-and-break in a loop that also validates its items
_U12_FIXTURE = """
def f(pairs):
    need = False
    for x, y in pairs:
        if x.s != y.s:
            raise ValueError("mismatch")
        if x.t != y.t:
            need = True
            break
    return need
"""


def _latch_breaks(fn):
    """[(loop, break, raising if)]: a loop tests every item and raises for an invalid one; another branch of the same body only latches a
    flag (`need = True`) and then breaks.  The break is right for the flag (nothing more to learn) and wrong for the validation: the items
    behind the first latching one are never tested."""
    out = []

    def own(n):
        for c in ast.iter_child_nodes(n):
            if isinstance(c, (ast.For, ast.While, ast.FunctionDef, ast.AsyncFunctionDef, ast.Lambda, ast.ClassDef)):
                continue
            yield c
            yield from own(c)
    for lp in ast.walk(fn):
        if not isinstance(lp, (ast.For, ast.While)):
            continue
        nodes = list(own(lp))
        raising = [n for n in nodes if isinstance(n, ast.If) and any(isinstance(b, ast.Raise) for b in n.body)]
        if not raising:
            continue
        for n in nodes:
            if isinstance(n, ast.If) and n.body and isinstance(n.body[-1], ast.Break) and len(n.body) >= 2 \
                    and all(isinstance(b, ast.Assign) and isinstance(b.value, ast.Constant) and all(isinstance(t_, ast.Name) for t_ in b.targets)
                            for b in n.body[:-1]):
                later = [r for r in raising if r is not n]
                if later:
                    out.append((lp, n.body[-1], later[0]))
    return out


def run_U12(chk, prefixes, rule="U12"):
    prog = chk.prog
    chk.rule(rule, "a loop that validates every item (raises for an invalid one) is not left early by a branch that merely latches a flag", floor=0)
    fx = [n for n in ast.parse(_U12_FIXTURE).body if isinstance(n, ast.FunctionDef)][0]
    if len(_latch_breaks(fx)) != 1:
        raise AnalysisError("U12: the built-in positive fixture is not recognised (rule broken)")
    for f in prog.all_funcs():
        if not f.module.name.startswith(tuple(prefixes)) or "torch" in f.module.name:
            continue
        if "break" not in A.text(f.node) or "raise" not in A.text(f.node):
            continue
        hits = _latch_breaks(f.node)
        for lp, br, r in hits:
            chk.bad(rule, (f, br), f"{f.short}: break after a latch in `{A.short(lp, 40)}`", f"{f.short}(): the loop `{A.short(lp, 50)}` raises for an invalid item "
                    f"(`if {A.short(r.test, 50)}: raise`), but a branch that only sets a flag ends the loop with `break`: the items behind the first one that "
                    f"sets the flag are never validated (e.g. a later pair of hard-fused legs with mismatched signatures is contracted instead of rejected)")
        if not hits:
            chk.ok(rule, f, f"{f.short}: validation loops run to the end", sample=False)


# ------------------------------------------------------------------ U13 a variadic operation decides from its first two operands
def _first_two_only(fn):
    """[(compare)]: in a function taking `*operands`, a comparison between `operands[0]` and `operands[1]` (two constant positions) decides
    something for all of them, although the function accepts any number: a third operand that differs is not looked at."""
    if fn.args.vararg is None:
        return []
    V = fn.args.vararg.arg
    out = []
    for n in ast.walk(fn):
        if isinstance(n, ast.Compare):
            idx = {x.slice.value for x in ast.walk(n) if isinstance(x, ast.Subscript) and isinstance(x.value, ast.Name) and x.value.id == V
                   and isinstance(x.slice, ast.Constant) and isinstance(x.slice.value, int)}
            quantified = any(isinstance(g, ast.comprehension) and isinstance(g.iter, (ast.Name, ast.Subscript)) and V in A.text(g.iter) for g in ast.walk(n))
            if len(idx) >= 2 and not quantified:
                out.append(n)
    return out


def run_U13(chk, prefixes, rule="U13"):
    prog = chk.prog
    chk.rule(rule, "an operation on `*operands` does not decide from a comparison of operands[0] with operands[1] alone", floor=0)
    fx = ast.parse("def f(*legs):\n    if legs[0].hf != legs[1].hf:\n        return 1\n    return 0\n").body[0]
    if len(_first_two_only(fx)) != 1:
        raise AnalysisError("U13: the built-in positive fixture is not recognised (rule broken)")
    for f in prog.all_funcs():
        if not f.module.name.startswith(tuple(prefixes)) or "torch" in f.module.name or f.node.args.vararg is None:
            continue
        # a function that insists on exactly two operands may compare them
        V = f.node.args.vararg.arg
        two = any(isinstance(n, ast.Compare) and isinstance(n.left, ast.Call) and A.call_name(n.left) == "len" and A.text(n.left.args[0]) == V
                  and isinstance(n.comparators[0], ast.Constant) and n.comparators[0].value == 2 for n in ast.walk(f.node))
        hits = [] if two else _first_two_only(f.node)
        for n in hits:
            chk.bad(rule, (f, n), A.text(n), f"{f.short}(*{V}): `{A.short(n, 60)}` compares the first two operands only, but the function takes any number of them: "
                    f"with three or more operands a difference that shows only in a later one is missed (e.g. add(a, b, c) with equal fusion records of a and b "
                    f"and a different one of c takes the path for identical records)")
        if not hits:
            chk.ok(rule, f, f"{f.short}(*{V}): tests quantify over all operands", sample=False)


# ------------------------------------------------------------------ U14 a mismatch guard compares values, not their truthiness
def _truthiness_guards(fn):
    inl = A.Inliner(fn)
    out = []
    for g in ast.walk(fn):
        if not (isinstance(g, ast.If) and any(isinstance(b, ast.Raise) for b in g.body)):
            continue
        for c in ast.walk(g.test):
            if isinstance(c, ast.Compare) and len(c.ops) == 1 and isinstance(c.ops[0], (ast.Eq, ast.NotEq)):
                l, r = inl.expand(c.left), inl.expand(c.comparators[0])
                if all(isinstance(x, ast.Call) and A.call_name(x) == "bool" and len(x.args) == 1 for x in (l, r)):
                    out.append((g, c))
    return out


def run_U14(chk, prefixes, rule="U14"):
    """`if bool(stored) != bool(given): raise` accepts every pair of values that are both truthy (or both falsy): (True, False), (False, True)
    and True are "equal".  A guard that rejects a mismatch of two settings compares the settings."""
    prog = chk.prog
    chk.rule(rule, "a guard that raises on a mismatch of two values compares the values, not bool() of them", floor=0)
    fx = ast.parse("def f(d, config):\n    if bool(d['fermionic']) != bool(config.fermionic):\n        raise ValueError\n").body[0]
    if len(_truthiness_guards(fx)) != 1:
        raise AnalysisError("U14: the built-in positive fixture is not recognised (rule broken)")
    for f in prog.all_funcs():
        if not f.module.name.startswith(tuple(prefixes)) or "torch" in f.module.name:
            continue
        if "bool(" not in A.text(f.node) or "raise" not in A.text(f.node):
            continue
        hits = _truthiness_guards(f.node)
        for g, c in hits:
            chk.bad(rule, (f, c), A.text(c), f"{f.short}(): the guard `if {A.short(g.test, 70)}: raise` compares the truthiness of the two values: settings that differ but are "
                    f"both truthy -- e.g. fermionic = (True, False) against (False, True) or True -- pass, and the object is rebuilt with other settings "
                    f"than it was saved with")
        if not hits:
            chk.ok(rule, f, f"{f.short}: mismatch guards compare values", sample=False)


# ------------------------------------------------------------------ U15 a per-item default set once in front of the loop
_U15_FIXTURE = """
def f(project, env):
    penalty = 100
    for st in project:
        if not isinstance(st, Mps):
            penalty, st = st
        env.append(make(st, penalty))
"""


def _sticky_defaults(fn):
    """[(name, init, loop, store)]: `v = <constant>` in front of a loop; inside the loop v is assigned only from the loop item and only under a
    condition, and read in the same iteration outside that branch.  The constant is meant as the default of *each* item, but after the first
    item that brings its own value every later item without one inherits it."""
    out = []
    for body in [n.body for n in ast.walk(fn) if isinstance(getattr(n, "body", None), list)] + \
                [n.orelse for n in ast.walk(fn) if isinstance(getattr(n, "orelse", None), list) and n.orelse]:
        for i, lp in enumerate(body):
            if not isinstance(lp, ast.For):
                continue
            item = {x.id for x in ast.walk(lp.target) if isinstance(x, ast.Name)}
            inits = {}
            for prev in body[:i]:
                if isinstance(prev, ast.Assign) and len(prev.targets) == 1 and isinstance(prev.targets[0], ast.Name) and isinstance(prev.value, ast.Constant) \
                        and not isinstance(prev.value.value, bool) and prev.value.value is not None:
                    inits[prev.targets[0].id] = prev
            for v, init in inits.items():
                stores = []
                for n in ast.walk(lp):
                    if isinstance(n, ast.Assign):
                        for t_ in n.targets:
                            if any(isinstance(x, ast.Name) and x.id == v and isinstance(x.ctx, ast.Store) for x in ast.walk(t_)):
                                stores.append(n)
                    elif isinstance(n, (ast.AugAssign, ast.AnnAssign)) and isinstance(n.target, ast.Name) and n.target.id == v:
                        stores.append(None)
                if len(stores) != 1 or stores[0] is None:
                    continue
                sto = stores[0]
                if sto in lp.body:
                    continue                    # assigned unconditionally in every iteration
                if not ({x.id for x in ast.walk(sto.value) if isinstance(x, ast.Name)} & item):
                    continue                    # not taken from the item
                if any(isinstance(x, ast.Name) and x.id == v for x in ast.walk(sto.value)):
                    continue                    # an accumulation
                # the enclosing `if` of the store sits directly in the loop body and v is read after it in the same iteration
                encl = next((b_ for b_ in lp.body if isinstance(b_, ast.If) and any(n is sto for n in ast.walk(b_))), None)
                if encl is None:
                    continue
                after = lp.body[lp.body.index(encl) + 1:]
                reads = [x for st in after for x in ast.walk(st) if isinstance(x, ast.Name) and x.id == v and isinstance(x.ctx, ast.Load)]
                if reads:
                    out.append((v, init, lp, sto))
    return out


def run_U15(chk, prefixes, rule="U15"):
    prog = chk.prog
    chk.rule(rule, "a default that each item of a loop may override is set for each item, not once in front of the loop", floor=0)
    fx = [n for n in ast.parse(_U15_FIXTURE).body if isinstance(n, ast.FunctionDef)][0]
    if [x[0] for x in _sticky_defaults(fx)] != ["penalty"]:
        raise AnalysisError("U15: the built-in positive fixture is not recognised (rule broken)")
    for f in prog.all_funcs():
        if not f.module.name.startswith(tuple(prefixes)) or "torch" in f.module.name:
            continue
        if not any(isinstance(n, ast.For) for n in ast.walk(f.node)):
            continue
        hits = _sticky_defaults(f.node)
        for v, init, lp, sto in hits:
            chk.bad(rule, (f, sto), f"{f.short}: `{A.short(init, 30)}` before `{A.short(lp, 30)}`", f"{f.short}(): `{A.short(init, 40)}` is set once in front of "
                    f"`{A.short(lp, 40)}`, and `{A.short(sto, 40)}` replaces it only for the items that bring their own value: an item without one that follows "
                    f"such an item gets that item's value instead of the default (e.g. a bare MPS listed after (penalty, MPS) is projected out with the "
                    f"small penalty of its predecessor and the optimisation falls back into it)")
        if not hits:
            chk.ok(rule, f, f"{f.short}: per-item defaults are per item", sample=False)


# ------------------------------------------------------------------ U10 keyword swallowed by a named parameter
def run_U10(chk, prefixes, rule="U10"):
    """A function that reads an option from its `**kwargs` (`kwargs.get('which', ..)`, `kwargs['which']`, `'which' in kwargs`) must not also
    declare a named parameter `which`: the named parameter captures the keyword, `kwargs` never contains it, and the lookup always yields
    its default -- the caller's value is silently ignored."""
    prog = chk.prog
    chk.rule(rule, "no option is read from **kwargs under the name of a declared parameter (the parameter would swallow the keyword)", floor=0)
    for f in prog.all_funcs():
        if not f.module.name.startswith(tuple(prefixes)) or "torch" in f.module.name:
            continue
        a = f.node.args
        if a.kwarg is None:
            continue
        kw = a.kwarg.arg
        named = {x.arg for x in a.posonlyargs + a.args + a.kwonlyargs}
        hits = []
        # a bare `kwargs.pop('name', None)` statement whose value is discarded only makes sure the key is not forwarded: no value is read
        discarded = {id(st.value) for st in ast.walk(f.node) if isinstance(st, ast.Expr) and isinstance(st.value, ast.Call)}
        for n in ast.walk(f.node):
            if id(n) in discarded:
                continue
            key = None
            if isinstance(n, ast.Call) and isinstance(n.func, ast.Attribute) and n.func.attr in ("get", "pop", "setdefault") and isinstance(n.func.value, ast.Name) \
                    and n.func.value.id == kw and n.args and isinstance(n.args[0], ast.Constant):
                key = n.args[0].value
            elif isinstance(n, ast.Subscript) and isinstance(n.value, ast.Name) and n.value.id == kw and isinstance(n.slice, ast.Constant):
                key = n.slice.value
            elif isinstance(n, ast.Compare) and len(n.ops) == 1 and isinstance(n.ops[0], (ast.In, ast.NotIn)) and isinstance(n.comparators[0], ast.Name) \
                    and n.comparators[0].id == kw and isinstance(n.left, ast.Constant):
                key = n.left.value
            if isinstance(key, str) and key in named:
                hits.append((n, key))
        for n, key in hits[:1]:
            chk.bad(rule, (f, n), f"{f.short}: `{A.short(n, 40)}`", f"{f.short}(): `{A.short(n, 40)}` looks `{key}` up in `**{kw}`, but `{key}` is a declared parameter of the "
                    f"function: a caller's `{key}=..` binds the parameter, `{kw}` never holds it and the lookup returns its default -- the requested "
                    f"`{key}` is ignored without any error")
        if not hits:
            chk.ok(rule, f, f"{f.short}: kwargs keys and parameters are disjoint", sample=False)


# ------------------------------------------------------------------ U5 option-resolving self-delegation
_U5_FIXTURE = """
def to_dict(a, level=2, meta=None, resolve_ops=False):
    if resolve_ops:
        return a.consume_transpose().to_dict(level=level, resolve_ops=False)
    return {}
"""


def _self_delegations(fn):
    """`if <P>: return <recv>.F(..., P=<const>)` (or plain `F(...)`) inside F: the option P is resolved by transforming the receiver and
    calling F again with the option switched off.  -> [(call, option, missing parameters, changed parameters)]"""
    a = fn.args
    params = [x.arg for x in a.posonlyargs + a.args + a.kwonlyargs]
    if not params:
        return []
    par = A.enclosing_map(fn)
    out = []
    for r in A.walk_local(fn, include_self=False):
        if not (isinstance(r, ast.Return) and isinstance(r.value, ast.Call)):
            continue
        c = r.value
        method = isinstance(c.func, ast.Attribute) and c.func.attr == fn.name
        plain = isinstance(c.func, ast.Name) and c.func.id == fn.name
        if not (method or plain) or any(isinstance(x, ast.Starred) for x in c.args) or any(k.arg is None for k in c.keywords):
            continue
        if method:
            root = c.func.value
            while isinstance(root, (ast.Attribute, ast.Call)):
                root = root.func if isinstance(root, ast.Call) else root.value
            if not (isinstance(root, ast.Name) and root.id == params[0]):
                continue
            rest = params[1:]
        else:
            rest = params
        given = dict(zip(rest, c.args))
        given.update({k.arg: k.value for k in c.keywords})
        consts = [p_ for p_, v in given.items() if p_ in rest and isinstance(v, ast.Constant)]
        guard = par.get(r)
        if not (isinstance(guard, ast.If) and r in guard.body):
            continue
        tested = {x.id for x in ast.walk(guard.test) if isinstance(x, ast.Name)}
        opts = [p_ for p_ in consts if p_ in tested] or [p_ for p_ in rest if p_ in tested and p_ not in given]
        if not opts or not (isinstance(guard.test, ast.Name) or (isinstance(guard.test, ast.UnaryOp) and isinstance(guard.test.operand, ast.Name))):
            continue
        missing = [p_ for p_ in rest if p_ not in given and p_ not in opts]
        changed = [p_ for p_ in rest if p_ in given and p_ not in opts and not (isinstance(given[p_], ast.Name) and given[p_].id == p_)]
        out.append((c, opts[0], missing, changed))
    return out


def run_U5(chk, prefixes, rule="U5"):
    """An option handled by `if opt: return transform(self).f(..., opt=False)` must hand every *other* argument on unchanged: the
    second call does all the work, and whatever is not forwarded silently falls back to its default for exactly the callers that
    use the option."""
    prog = chk.prog
    chk.rule(rule, "an option resolved by self-delegation (`if opt: return f'(self).f(..., opt=<const>)`) forwards every other parameter unchanged", floor=0)
    fx = [n for n in ast.parse(_U5_FIXTURE).body if isinstance(n, ast.FunctionDef)][0]
    got = _self_delegations(fx)
    if not (len(got) == 1 and got[0][1] == "resolve_ops" and got[0][2] == ["meta"]):
        raise AnalysisError("U5: the built-in positive fixture is not recognised (rule broken)")
    for f in prog.all_funcs():
        if not f.module.name.startswith(tuple(prefixes)) or "torch" in f.module.name:
            continue
        if f.name not in A.text(f.node)[len(f.name) + 4:]:
            continue
        for c, opt, missing, changed in _self_delegations(f.node):
            if missing or changed:
                chk.bad(rule, (f, c), c, f"{f.short}(): the option `{opt}` is resolved by calling {f.name}() again, but "
                        + (f"`{', '.join(missing)}` is not forwarded" if missing else f"`{', '.join(changed)}` is replaced by another value")
                        + f": with `{opt}` set, the caller's value is ignored and the default is used instead")
            else:
                chk.ok(rule, (f, c), f"{f.short}: `{A.short(c, 60)}` forwards all parameters", sample=True)


# ------------------------------------------------------------------ U3 local memo keys
_U3_FIXTURE = '''
def f(pairs, sym):
    memo = {}
    out = []
    for i, j in pairs:
        key = (hfs[i], hfs[j])
        if key not in memo:
            memo[key] = compute(sym, (t[i], t[j]), key)
        out.append(memo[key])
    return out
'''


def _memo_findings(fn):
    """Local memo idiom inside a loop:  if K not in M: ... M[K] = E   (M a dict created in this function).  The stored value may depend on
    loop-variant data only through the key: every loop-variant name E depends on (transitively through assignments inside the guarded
    block) must also be a name the key depends on.  Returns [(if node, key text, missing names, total loop-variant deps)]."""
    out = []
    b = A.local_bindings(fn)
    par = A.enclosing_map(fn)
    dicts = {nm for nm, ds in b.items() if any(k == "assign" and isinstance(v, ast.Dict) and not v.keys for st, v, k in ds)}
    for x in A.walk_local(fn, include_self=False):
        if not (isinstance(x, ast.If) and isinstance(x.test, ast.Compare) and len(x.test.ops) == 1 and isinstance(x.test.ops[0], ast.NotIn)
                and isinstance(x.test.comparators[0], ast.Name) and x.test.comparators[0].id in dicts):
            continue
        M, K = x.test.comparators[0].id, x.test.left
        stores = [s_ for s_ in ast.walk(x) if isinstance(s_, ast.Assign) and isinstance(s_.targets[0], ast.Subscript)
                  and A.text(s_.targets[0].value) == M and A.text(s_.targets[0].slice) == A.text(K)]
        loop = x
        while loop in par and not isinstance(loop, (ast.For, ast.While)):
            loop = par[loop]
        if not stores or not isinstance(loop, (ast.For, ast.While)):
            continue
        variant = set()
        for n in ast.walk(loop):
            if isinstance(n, ast.Name) and isinstance(n.ctx, ast.Store):
                variant.add(n.id)
        variant.discard(M)

        def deps(e, seen):
            res = set()
            for n in ast.walk(e):
                if isinstance(n, ast.Name) and isinstance(n.ctx, ast.Load) and n.id in variant and n.id not in seen:
                    seen.add(n.id)
                    res.add(n.id)
                    # through definitions inside the loop
                    for st, v, k in b.get(n.id, []):
                        if v is not None and st in list(ast.walk(loop)) and k == "assign":
                            res |= deps(v, seen)
            return res
        kd = deps(K, set())
        # loop targets reached through the key's definition count as covered
        ed = set()
        for s_ in stores:
            ed |= deps(s_.value, set())
        # names defined from the key inside the guarded block are covered as well
        leaf = {n for n in ed if not any(v is not None and st in list(ast.walk(loop)) and k == "assign" for st, v, k in b.get(n, []))}
        kleaf = {n for n in kd if not any(v is not None and st in list(ast.walk(loop)) and k == "assign" for st, v, k in b.get(n, []))}
        # a leaf (loop target) is covered if the key uses it at all; finer: each *use* t[i] must be determined by the key — approximated by
        # comparing the subscripted/base expressions: every `X[leaf]` in the value must also occur in the key
        def uses(e, seen=()):
            res = set()
            for n in ast.walk(e):
                if isinstance(n, ast.Subscript) and any(isinstance(y, ast.Name) and y.id in leaf | kleaf for y in ast.walk(n.slice)):
                    res.add(A.text(n))
                if isinstance(n, ast.Name) and isinstance(n.ctx, ast.Load) and n.id in variant and n.id not in seen:
                    for st, v, k in b.get(n.id, []):
                        if v is not None and st in list(ast.walk(loop)) and k == "assign":
                            res |= uses(v, seen + (n.id,))
            return res
        ku = uses(K)
        eu = set()
        for s_ in stores:
            eu |= uses(s_.value)
        # names whose *value* is part of the key (the key itself, or a direct element of a tuple key): anything computed from them alone is
        # determined by the key
        Kx = K
        if isinstance(Kx, ast.Name):
            for st, v, k in b.get(Kx.id, []):
                if v is not None and st in list(ast.walk(loop)) and k == "assign" and isinstance(v, ast.Tuple):
                    Kx = v
        determined = {Kx.id} if isinstance(Kx, ast.Name) else {e.id for e in getattr(Kx, "elts", []) if isinstance(e, ast.Name)}
        if isinstance(K, ast.Name):
            determined.add(K.id)
        comp_local = {n.id for s_ in stores for g in ast.walk(s_.value) if isinstance(g, ast.comprehension) for n in ast.walk(g.target) if isinstance(n, ast.Name)}

        def covered(u_text):
            try:
                e = ast.parse(u_text, mode="eval").body
            except SyntaxError:
                return False
            vs = {n.id for n in ast.walk(e) if isinstance(n, ast.Name) and n.id in variant}
            return vs <= (determined | comp_local)
        missing = sorted(u for u in eu - ku if not covered(u))
        # the grouping idiom `if k not in d: d[k] = [x] else: d[k].append(x)` is an accumulator, not a memo
        if x.orelse and any(isinstance(c_, ast.Call) and isinstance(c_.func, ast.Attribute) and A.text(c_.func.value) == f"{M}[{A.text(K)}]" for o_ in x.orelse for c_ in ast.walk(o_)):
            continue
        if not eu and leaf - kleaf:
            missing = sorted(leaf - kleaf)
        out.append((x, A.text(K), missing, sorted(eu) or sorted(leaf)))
    return out


def run_U3(chk, prefixes, rule="U3"):
    prog = chk.prog
    chk.rule(rule, "a local memo keyed inside a loop covers every loop-variant input of the value it stores", floor=0)
    # the rule has (almost) no instance on the pinned tree: a built-in positive example must be reported on every run
    fx = ast.parse(_U3_FIXTURE).body[0]
    got = _memo_findings(fx)
    if not (len(got) == 1 and got[0][2] == ["t[i]", "t[j]"]):
        raise AnalysisError(f"{rule}: self-test of the memo-key detector failed: {got}")
    n = 0
    for f in prog.all_funcs():
        if not f.module.name.startswith(tuple(prefixes)) or "torch" in f.module.name:
            continue
        for node, key, missing, total in _memo_findings(f.node):
            n += 1
            chk.verdict(rule, (f, node), f"{f.short}: memo key `{key}`", False if missing else True,
                        f"{f.short}(): the value memoised under `{key}` also depends on {missing}, which the key does not determine: two iterations that "
                        f"agree on the key but differ there receive each other's value (stale local cache)")
    chk.extra["local_memos"] = n
