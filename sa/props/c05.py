"""C05 — fermionic signs are consistent (partial).

Decided:
  W1  bosonic statistics => identity: swap_gate returns its operand, the sign functions return 1, and these
      early returns dominate everything else
  W2  the three sign computations (swap_gate legs, swap_gate with explicit charge, swap_charges) restrict the
      product of charge parities to the components declared fermionic *before* summing, and reduce mod 2 before
      the sign is used; the flag vector handed to them is `all components` iff fermionic is True
  W3  swap_gate is an involution by construction: the result differs from the operand only in data, the set of
      negated slices is a pure function of (block charges, slices, axes, flags) — not of the data — and
      negate_blocks maps x to -x on those slices of a copy
  W4  fkron attaches to operator n the string charge of strictly later operators; sign_canonical_order pops the
      site and its charge with the same index
  W5  jump moves of ncon/einsum swap resolution: parity command on every path, toggles, collection, executor exhaustive
Not decided: order independence of ncon with swaps (termination/completeness of the resolution), the CAR of fkron (value level).
"""
from __future__ import annotations

import ast
import re
import copy

from ..core import astutil as A
from ..core.cfg import CFG
from ..core.errors import AnalysisError

CON = "yastn.tensor._contractions"
AUX = "yastn.tensor._auxiliary"


def _is_not_fermionic(test, subjects):
    """`not X` with X one of `subjects` (texts or suffixes), possibly as a disjunct of an `or`"""
    def hit(t):
        return isinstance(t, ast.UnaryOp) and isinstance(t.op, ast.Not) and any(A.text(t.operand) == s_ or A.text(t.operand).endswith(s_) for s_ in subjects)
    if hit(test):
        return True
    return isinstance(test, ast.BoolOp) and isinstance(test.op, ast.Or) and any(hit(v) for v in test.values)


def _first_stmt_guard(chk, f, rule, subjects, ret_ok, what):
    body = A.strip_docstring(f.node.body)
    first = body[0]
    ok = isinstance(first, ast.If) and _is_not_fermionic(first.test, subjects) and len(first.body) == 1 and \
        isinstance(first.body[0], ast.Return) and first.body[0].value is not None and ret_ok(first.body[0].value) and not first.orelse
    chk.verdict(rule, (f, first), first.test if isinstance(first, ast.If) else first, True if ok else False,
                f"{f.short}: bosonic statistics must be the identity — the function no longer starts with "
                f"`if not <fermionic flag>: return {what}`")
    return first if ok else None


def fss_subscript_ok(expr, fss="fss"):
    """Is `expr` a product of charge parities restricted to fermionic components?  X[..., fss] * Y[..., fss] or (X * Y)[..., fss]"""
    def last_index_is_fss(sub):
        sl = sub.slice
        last = sl.elts[-1] if isinstance(sl, ast.Tuple) else sl
        return isinstance(last, ast.Name) and last.id == fss
    if isinstance(expr, ast.BinOp) and isinstance(expr.op, ast.Mult):
        l, r = expr.left, expr.right
        return isinstance(l, ast.Subscript) and isinstance(r, ast.Subscript) and last_index_is_fss(l) and last_index_is_fss(r)
    if isinstance(expr, ast.Subscript) and last_index_is_fss(expr):
        v = expr.value
        return isinstance(v, ast.BinOp) and isinstance(v.op, ast.Mult)
    return False


def find_parity_sums(fn):
    """np.sum(<product>, ...) calls whose first argument is (after inlining single-assignment temporaries) a product of two charge arrays"""
    out = []
    inl = A.Inliner(fn, depth=3)
    for c in [n for n in ast.walk(fn) if isinstance(n, ast.Call)]:
        if A.call_name(n_ := c) in ("np.sum", "numpy.sum") and c.args:
            first = c.args[0]
        elif isinstance(c.func, ast.Attribute) and c.func.attr == "sum" and not (isinstance(c.func.value, ast.Name) and c.func.value.id in ("np", "numpy")):
            first = c.func.value          # (<product>).sum(axis=..)  ==  np.sum(<product>, axis=..)
        else:
            continue
        e = inl.expand(first)
        # do not look through the parity reductions `np.sum(tset[:, l1, :], axis=1) % 2` of single legs: inline only names
        prod = e
        if isinstance(prod, ast.Subscript):
            prod = prod.value
        if isinstance(prod, ast.BinOp) and isinstance(prod.op, ast.Mult):
            out.append((c, e))
    return out


def mod2_before_use(fn, sumcall, parent):
    """the sum (possibly after accumulation into a variable) is reduced `% 2` before it leaves the function"""
    # direct: np.sum(...) % 2   or   np.sum(...).item() % 2
    cur = sumcall
    while cur in parent:
        p = parent[cur]
        if isinstance(p, ast.BinOp) and isinstance(p.op, ast.Mod) and A.neg_const(p.right) == 2 and (p.left is cur or cur in list(ast.walk(p.left))):
            return True
        if isinstance(p, (ast.Call, ast.Attribute)) and not isinstance(p, ast.stmt):
            cur = p
            continue
        if isinstance(p, ast.AugAssign) and isinstance(p.target, ast.Name):
            # tp += sum(...)  -> later  tp = tp % 2
            var = p.target.id
            for n in ast.walk(fn):
                if isinstance(n, ast.Assign) and isinstance(n.value, ast.BinOp) \
                        and isinstance(n.value.op, ast.Mod) and A.neg_const(n.value.right) == 2 and A.text(n.value.left) == var \
                        and n.lineno > p.lineno:
                    # ... and the un-reduced accumulator is not used afterwards
                    later = [x for x in ast.walk(fn) if isinstance(x, ast.Name) and x.id == var and isinstance(x.ctx, ast.Load) and x.lineno > n.lineno]
                    if A.text(n.targets[0]) == var or not later:
                        return True
            return False
        if isinstance(p, ast.Assign) and isinstance(p.targets[0], ast.Name):
            var = p.targets[0].id
            for n in ast.walk(fn):
                if isinstance(n, ast.BinOp) and isinstance(n.op, ast.Mod) and A.neg_const(n.right) == 2 and A.text(n.left) == var:
                    return True
            return False
        break
    return False


EIN = "yastn.tensor._einsum"


def _nested(fn, name):
    for n in ast.walk(fn):
        if isinstance(n, ast.FunctionDef) and n.name == name and n is not fn:
            return n
    return None


def _cmd_appends(fn):
    """commands.append((KIND, ...)) calls -> (call, KIND, tuple node)"""
    out = []
    for c in ast.walk(fn):
        if isinstance(c, ast.Call) and A.callee_attr(c) == "append" and isinstance(c.func, ast.Attribute) and A.text(c.func.value) == "commands" \
                and c.args and isinstance(c.args[0], ast.Tuple) and c.args[0].elts and isinstance(c.args[0].elts[0], ast.Constant) \
                and isinstance(c.args[0].elts[0].value, str):
            out.append((c, c.args[0].elts[0].value, c.args[0]))
    return out


def run_W5(chk):
    """jump-move bookkeeping of ncon/einsum with swaps: pairing and exhaustiveness rules read off the code itself"""
    prog = chk.prog
    rbs = prog.func(EIN, "_resolve_bad_swaps")
    jump = _nested(rbs.node, "jump")
    chk.require(jump is not None, "_resolve_bad_swaps: nested function jump() not found")
    tid = jump.args.args[0].arg
    partner = jump.args.args[2].arg
    cfg = CFG(jump)
    par = A.enclosing_map(jump)
    signs = [A.stmt_of(c, par) for c, k, t in _cmd_appends(jump) if k == "parity_sign" and len(t.elts) >= 2 and A.text(t.elts[1]) == tid]
    ok = bool(signs) and cfg.always_followed(cfg.entry.id, signs, strict=True)
    chk.verdict("W5", (rbs, signs[0] if signs else jump), f"jump(): every path emits ('parity_sign', {tid}, ...)", True if ok else False,
                f"_resolve_bad_swaps.jump(): there is a path to return that does not emit the parity_sign command for the jumped tensor "
                f"`{tid}`: moving a line across *all* legs of a parity-odd tensor yields (-1)^(parity * n_line); with the command "
                f"skipped the sign is lost exactly when that tensor is odd (tests use even third-party tensors)")
    # the line is toggled against every other leg of the jumped tensor
    loops = [n for n in ast.walk(jump) if isinstance(n, ast.For) and isinstance(n.iter, ast.Call) and A.call_name(n.iter) == "range"
             and A.text(n.iter.args[0]) == f"nlegs[{tid}]" and len(n.iter.args) == 1]
    tog = [c for lp in loops for c in ast.walk(lp) if isinstance(c, ast.Call) and A.call_name(c) == "toggle" and len(c.args) == 2
           and A.text(c.args[1]) == partner and f"{tid}, {A.text(lp.target)}" in A.text(c.args[0])]
    if not tog:
        # comprehension form: for l in others, others = [l for l in range(nlegs[tid]) if l not in skip]
        b = A.local_bindings(jump)
        for lp in [n for n in ast.walk(jump) if isinstance(n, ast.For) and isinstance(n.iter, ast.Name)]:
            ds = [v for st, v, k in b.get(lp.iter.id, []) if v is not None]
            if len(ds) == 1 and isinstance(ds[0], ast.ListComp) and f"range(nlegs[{tid}])" in A.text(ds[0]):
                tog += [c for c in ast.walk(lp) if isinstance(c, ast.Call) and A.call_name(c) == "toggle" and len(c.args) == 2
                        and A.text(c.args[1]) == partner]
    chk.verdict("W5", (rbs, tog[0] if tog else jump), "jump(): toggle(edge_of[tid, l], partner) for every other leg l of tid", True if tog else False,
                "_resolve_bad_swaps.jump(): the moved line is not toggled against the other legs of the jumped tensor")
    # every jump is followed by collect_same_tensor() and preceded by discarding the resolved swaps
    ocfg = CFG(rbs.node)
    opar = A.enclosing_map(rbs.node)
    jcalls = [c for c in A.walk_local(rbs.node, include_self=False) if isinstance(c, ast.Call) and A.call_name(c) == "jump"]
    coll = [A.stmt_of(c, opar) for c in A.walk_local(rbs.node, include_self=False) if isinstance(c, ast.Call) and A.call_name(c) == "collect_same_tensor"]
    disc = [A.stmt_of(c, opar) for c in A.walk_local(rbs.node, include_self=False) if isinstance(c, ast.Call) and A.text(c.func) == "z2.discard"]
    chk.require(len(jcalls) >= 2, "_resolve_bad_swaps: two jump() call sites expected (third-party step and final step)")
    for c in jcalls:
        st = A.stmt_of(c, opar)
        succs = ocfg.succ[ocfg.node_of[st].id]
        nxt_ok = all(ocfg.nodes[x].ast in coll for x in succs)
        chk.verdict("W5", (rbs, st), f"`{A.short(st, 50)}` is directly followed by collect_same_tensor()", True if nxt_ok else False,
                    "_resolve_bad_swaps: swaps newly created by a jump that land on one tensor are not collected into swap_gate commands")
        blk = A.block_of(st, opar)
        before = blk[:blk.index(st)] if blk and st in blk else []
        dfirst = any(d is b or d in list(ast.walk(b)) for b in before for d in disc)   # directly, or in a loop over the resolved keys
        chk.verdict("W5", (rbs, st), f"`{A.short(st, 50)}`: the resolved swap(s) are discarded from z2 first", True if dfirst else False,
                    "_resolve_bad_swaps: a jump is made without removing the swap it resolves: the swap is applied twice (sign cancels)")
    # exhaustiveness: every command kind emitted in _einsum is executed
    m = prog.module(EIN)
    emitted = {}
    for f in prog.all_funcs({EIN}):
        for c, k, t in _cmd_appends(f.node):
            emitted.setdefault(k, (f, c))
    ex = prog.func(EIN, "_execute_commands")
    handled = set()
    inl_ex = A.Inliner(ex.node)
    kind_tests = {}      # kind -> the if (or assert) that tests for it

    def kind_of(test):
        """`<command>[0] == '<kind>'` (the command's first element possibly held in a temporary) -> kind"""
        if isinstance(test, ast.Compare) and len(test.ops) == 1 and isinstance(test.ops[0], ast.Eq) and isinstance(test.comparators[0], ast.Constant) \
                and isinstance(test.comparators[0].value, str):
            left = test.left
            if isinstance(left, ast.Name):
                # name, args = command[0], command[1:]   (tuple assignment) or name = command[0]
                for st_, v_, k_ in A.local_bindings(ex.node).get(left.id, []):
                    if k_ == "assign" and v_ is not None:
                        left = v_
            if isinstance(left, ast.Subscript) and A.neg_const(left.slice) == 0:
                return test.comparators[0].value
        return None
    for n in ast.walk(ex.node):
        if isinstance(n, (ast.If, ast.Assert)):
            k = kind_of(n.test)
            if k is not None:
                handled.add(k)
                kind_tests[k] = n
    chk.require("parity_sign" in emitted and "swap_gate" in emitted, "_einsum: emitted command kinds not recognised")
    for k, (f, c) in sorted(emitted.items()):
        chk.verdict("W5", (f, c), f"command kind {k!r} has a handler in _execute_commands", True if k in handled else False,
                    f"the command {k!r} emitted by {f.short} is not executed by _execute_commands")
    # the parity_sign handler: charge of the *jumped* tensor acts as a string on the partner leg of d_ten
    br = [kind_tests["parity_sign"]] if isinstance(kind_tests.get("parity_sign"), ast.If) else []
    chk.require(br, "_execute_commands: parity_sign branch not found")
    body = br[0].body

    def is_rest_of_command(v):
        if isinstance(v, ast.Name):
            for st_, v_, k_ in A.local_bindings(ex.node).get(v.id, []):
                if k_ == "assign" and v_ is not None:
                    v = v_
        return isinstance(v, ast.Subscript) and isinstance(v.slice, ast.Slice) and A.neg_const(v.slice.lower) == 1 and v.slice.upper is None
    un = [n for n in body if isinstance(n, ast.Assign) and isinstance(n.targets[0], ast.Tuple) and is_rest_of_command(n.value)]
    ok = False
    detail = "branch not recognised"
    if un and len(un[0].targets[0].elts) == 3:
        jn, dn, dl = [A.text(e) for e in un[0].targets[0].elts]
        ch = [n for n in body if isinstance(n, ast.Assign) and isinstance(n.value, ast.Attribute) and n.value.attr == "n"]
        sw = [n for n in ast.walk(br[0]) if isinstance(n, ast.Assign) and isinstance(n.value, ast.Call) and A.call_name(n.value) == "swap_gate"]
        if ch and sw:
            cvar = A.text(ch[0].targets[0])
            ok = A.text(ch[0].value.value) == f"ts[{jn}]" and A.text(sw[0].targets[0]) == f"ts[{dn}]" and A.text(sw[0].value.args[0]) == f"ts[{dn}]" \
                and A.text(A.kwarg(sw[0].value, "axes")) == dl and A.text(A.kwarg(sw[0].value, "charge")) == cvar
            detail = f"charge of ts[{jn}] -> swap_gate(ts[{dn}], axes={dl}, charge=...)"
    # the correction may be skipped only when the jumped tensor's charge vanishes in *every* component: swap_gate itself restricts to
    # the fermionic components, any narrower test (parity of the summed components, first component only) skips needed corrections
    if ok:
        sws = [n for n in ast.walk(br[0]) if isinstance(n, ast.Assign) and isinstance(n.value, ast.Call) and A.call_name(n.value) == "swap_gate"]
        par_ = A.enclosing_map(ex.node)
        cur = sws[0]
        guards_ = []
        while cur in par_ and par_[cur] is not br[0]:
            cur = par_[cur]
            if isinstance(cur, ast.If):
                guards_.append(cur)
        from ..core.minieval import evaluate, CannotEvaluate
        for g_ in guards_:
            try:
                fires = {w: bool(evaluate(g_.test, {cvar: w})) for w in ((0,), (1,), (0, 0), (1, 1), (1, 0, 1), (2, 0), (0, 0, 0))}
            except CannotEvaluate as e:
                raise AnalysisError(f"_execute_commands: guard of the parity correction `{A.text(g_.test)}` cannot be evaluated ({e})")
            wrong = [w for w, v in fires.items() if v != any(w)]
            chk.verdict("W5", (ex, g_), f"parity correction skipped only for vanishing charge (`{A.text(g_.test)}`)", True if not wrong else False,
                        f"_execute_commands: the guard `{A.text(g_.test)}` of the parity correction disagrees with `any(charge)` for charges {wrong}: "
                        f"for product symmetries a charge with an odd fermionic component and an even component sum loses its sign correction")
    chk.verdict("W5", (ex, br[0]), f"parity_sign handler: {detail}", True if ok else False,
                "_execute_commands: the parity_sign correction must apply the charge of the jumped tensor as a string on the partner leg "
                "(swap_gate(ts[d_ten], axes=d_legs, charge=ts[jumped].n) stored back into ts[d_ten])")


def _norm_lambda(e):
    """text of a callable argument with the lambda parameter renamed to a fixed name"""
    if isinstance(e, ast.Lambda) and len(e.args.args) == 1:
        old = e.args.args[0].arg
        e = copy.deepcopy(e)

        class R(ast.NodeTransformer):
            def visit_Name(self, n):
                return ast.copy_location(ast.Name(id="_x", ctx=n.ctx), n) if n.id == old else n

            def visit_arg(self, n):
                return ast.copy_location(ast.arg(arg="_x"), n) if n.arg == old else n
        return A.text(R().visit(e))
    return A.text(e)


def run_W9(chk):
    """W9: one jump of a line across a tensor resolves as many pending crossings as legs it is declared to have crossed.  A jump from a
    single leg (`jump(C, ax, partner)`) removes exactly the crossing that belongs to that partner (key and partner unpacked from the
    same entry); removing *all* crossings of a leg in a loop is right only where the jump crosses the whole contracted bundle, which
    the resolver guards by its sanity assertion `len(<crossings>) == len(<bundle>)`.  A discard loop without that guard loses the
    swap gates of the crossings that were removed but not jumped."""
    prog = chk.prog
    chk.rule("W9", "the pending crossings discarded before a jump are those the jump resolves (all of them only under the bundle-size assertion)", floor=2)
    rbs = prog.func(EIN, "_resolve_bad_swaps")
    par = A.enclosing_map(rbs.node)
    n = 0
    for c in A.walk_local(rbs.node, include_self=False):
        if not (isinstance(c, ast.Call) and A.call_name(c) == "jump"):
            continue
        st = A.stmt_of(c, par)
        blk = A.block_of(st, par)
        before = blk[:blk.index(st)] if blk and st in blk else []
        loops = [b_ for b_ in before if isinstance(b_, ast.For) and any(isinstance(x, ast.Call) and isinstance(x.func, ast.Attribute) and x.func.attr == "discard" for x in ast.walk(b_))]
        single = [b_ for b_ in before if isinstance(b_, ast.Expr) and isinstance(b_.value, ast.Call) and isinstance(b_.value.func, ast.Attribute) and b_.value.func.attr == "discard"]
        n += 1
        if loops:
            X = A.text(loops[-1].iter)
            guards = [b_ for b_ in before if isinstance(b_, ast.Assert) and f"len({X})" in A.text(b_.test) and isinstance(b_.test, ast.Compare) and isinstance(b_.test.ops[0], ast.Eq)]
            chk.verdict("W9", (rbs, st), f"`{A.short(st, 40)}`: all crossings of `{X}` discarded under the bundle-size assertion", True if guards else False,
                        f"_resolve_bad_swaps: before `{A.short(st, 40)}` every pending crossing in `{X}` is discarded, but nothing asserts that their number equals "
                        f"the number of legs the jump crosses: a jump from one leg compensates one crossing, the other discarded crossings lose their swap gates "
                        f"(wrong sign when the line crosses two or more, but not all, legs of a contracted bundle)")
        elif single:
            # key and partner come from the same entry
            key = A.text(single[-1].value.args[0]) if single[-1].value.args else "?"
            partner = A.text(c.args[2]) if len(c.args) >= 3 else "?"
            same = any(isinstance(b_, ast.Assign) and isinstance(b_.targets[0], ast.Tuple) and {key, partner} <= set(A.assigned_names(b_.targets[0])) for b_ in before)
            chk.verdict("W9", (rbs, st), f"`{A.short(st, 40)}`: discards `{key}`, jumps to `{partner}` (one entry)", True if same else False,
                        f"_resolve_bad_swaps: the crossing discarded (`{key}`) and the partner jumped to (`{partner}`) are not taken from the same entry")
        else:
            chk.bad("W9", (rbs, st), st, "_resolve_bad_swaps: a jump is made without discarding the crossing it resolves")
    chk.require(n >= 2, f"_resolve_bad_swaps: {n} jump call sites found (2 confirmed by hand)")


def run_W10(chk):
    """W10: the list of requested swaps keeps its multiplicities on the way from the argument of ncon / einsum to the resolver.  Swaps are
    toggles (the resolver keeps the pending ones in a set and adds or removes a pair each time it is named), so a pair listed twice cancels;
    passing the list through a set -- or any other de-duplication -- applies it once."""
    prog = chk.prog
    chk.rule("W10", "the requested swaps reach the resolver with their multiplicities (no set / de-duplication on the way)", floor=0)
    for name in ("ncon", "einsum"):
        f = prog.func("yastn.tensor._einsum", name)
        defs = [n for n in A.walk_local(f.node) if isinstance(n, ast.Assign) and any(isinstance(t_, ast.Name) and t_.id == "swap" for t_ in n.targets)]
        if not defs and name == "ncon":
            chk.note("W10: ncon does not rebind `swap` (other spelling of the normalisation): not decided")
        for d in defs:
            dedup = [x for x in ast.walk(d.value) if isinstance(x, (ast.Set, ast.SetComp)) or
                     (isinstance(x, ast.Call) and (A.call_name(x) or "").split(".")[-1] in ("set", "frozenset", "fromkeys", "unique"))]
            chk.verdict("W10", (f, d), f"{name}: `{A.short(d, 70)}`", False if dedup else True,
                        f"{name}(): `{A.short(d, 80)}` passes the requested swaps through `{A.short(dedup[0], 40) if dedup else ''}`: repeated pairs collapse into "
                        f"one, but a swap named twice (in either orientation) has to cancel -- the pair is applied once instead of not at all")


def run_W11(chk):
    """W11: fkron re-orders `sites` and `operators` by the same list (`application_order`): the two comprehensions select by the same
    expression of the loop variable.  `sites[ind]` next to `operators[ind]` pairs operator and site as given; `sites.index(ind)` is the
    inverse map and pairs them differently for every permutation that is not its own inverse."""
    prog = chk.prog
    chk.rule("W11", "fkron re-orders sites and operators by application_order in the same way", floor=0)
    f = prog.func(CON, "fkron")
    inl = A.Inliner(f.node)
    sel = {}
    for n in A.walk_local(f.node):
        if isinstance(n, ast.Assign) and isinstance(n.targets[0], ast.Name) and n.targets[0].id in ("sites", "operators") \
                and isinstance(n.value, (ast.ListComp, ast.GeneratorExp)) or \
                (isinstance(n, ast.Assign) and isinstance(n.targets[0], ast.Name) and n.targets[0].id in ("sites", "operators")
                 and isinstance(n.value, ast.Call) and n.value.args and isinstance(n.value.args[0], (ast.ListComp, ast.GeneratorExp))):
            comp = n.value if isinstance(n.value, (ast.ListComp, ast.GeneratorExp)) else n.value.args[0]
            g = comp.generators[0]
            if "application_order" not in A.text(inl.expand(g.iter)):
                continue
            X = n.targets[0].id
            shape = A.text(comp.elt).replace(X, "X")
            if isinstance(g.target, ast.Name):
                shape = re.sub(rf"\b{g.target.id}\b", "i", shape)
            sel[X] = (n, shape, A.text(inl.expand(g.iter)))
    if len(sel) != 2:
        chk.note("W11: fkron does not re-order `sites` and `operators` by two comprehensions over application_order (other spelling): not decided")
        return
    (n1, s1, i1), (n2, s2, i2) = sel["sites"], sel["operators"]
    same = s1 == s2 and i1 == i2
    chk.verdict("W11", (f, n1), f"fkron: sites by `{s1}` over `{i1}`, operators by `{s2}` over `{i2}`", True if same else False,
                f"fkron(): `{A.short(n1, 60)}` and `{A.short(n2, 60)}` re-order the two parallel lists differently (`{s1}` vs `{s2}`): operators are paired "
                f"with other sites than the caller gave (X.index(i) is the inverse of X[i]; they agree only for permutations that are their own inverse)")


def run_W8(chk):
    """W8: pending swaps form a Z2 set -- a crossing applied twice is no crossing.  In _resolve_bad_swaps every insertion into the set of
    pending swaps is a *toggle*: `symmetric_difference_update({k})` / `^=`, or `add(k)` on the branch where `k` was tested to be absent
    (with `discard(k)` on the other).  An unconditional `add` makes a crossing listed twice (by the user, or created twice by jump
    moves) count once instead of cancelling, while the direct same-tensor route cancels it: the sign depends on the route."""
    prog = chk.prog
    chk.rule("W8", "pending swaps are a Z2 set: every insertion is a toggle (a crossing applied twice cancels)", floor=2)
    rbs = prog.func(EIN, "_resolve_bad_swaps")
    fn = rbs.node
    sets = {n.targets[0].id for n in ast.walk(fn) if isinstance(n, ast.Assign) and isinstance(n.targets[0], ast.Name) and isinstance(n.value, ast.Call)
            and A.call_name(n.value) == "set" and not n.value.args}
    sets = {z for z in sets if any(isinstance(c, ast.Call) and isinstance(c.func, ast.Attribute) and A.text(c.func.value) == z and c.func.attr == "discard" for c in ast.walk(fn))}
    chk.require(sets, "_resolve_bad_swaps: the set of pending swaps (created by set(), shrunk by discard) not found")
    n = 0
    for fdef in [fn] + [x for x in ast.walk(fn) if isinstance(x, ast.FunctionDef) and x is not fn]:
        par = A.enclosing_map(fdef)
        for c in A.walk_local(fdef, include_self=False):
            if not (isinstance(c, ast.Call) and isinstance(c.func, ast.Attribute) and A.text(c.func.value) in sets):
                continue
            z = A.text(c.func.value)
            if c.func.attr in ("symmetric_difference_update",):
                n += 1
                chk.ok("W8", (rbs, c), f"`{A.short(c, 60)}` toggles")
            elif c.func.attr in ("add", "update"):
                n += 1
                key = A.text(c.args[0]) if c.args else "?"
                ok = False
                cur = c
                while cur in par:
                    prev, cur = cur, par[cur]
                    if isinstance(cur, ast.If) and isinstance(cur.test, ast.Compare) and len(cur.test.ops) == 1 and A.text(cur.test.comparators[0]) == z \
                            and A.text(cur.test.left) == key:
                        in_body = any(prev is b_ or prev in list(ast.walk(b_)) for b_ in cur.body)
                        absent_branch = (isinstance(cur.test.ops[0], ast.NotIn) and in_body) or (isinstance(cur.test.ops[0], ast.In) and not in_body)
                        other = cur.orelse if in_body else cur.body
                        discards = any(isinstance(x, ast.Call) and isinstance(x.func, ast.Attribute) and x.func.attr in ("discard", "remove") and A.text(x.func.value) == z
                                       and x.args and A.text(x.args[0]) == key for b_ in other for x in ast.walk(b_))
                        ok = absent_branch and discards
                        break
                chk.verdict("W8", (rbs, c), f"`{A.short(c, 50)}` only where `{key}` is absent, discarded where present", True if ok else False,
                            f"_resolve_bad_swaps: `{A.short(c, 50)}` inserts a swap unconditionally: a crossing that is already pending (listed twice in swap=, as "
                            f"(a,b) and (b,a), or created again by a jump move) must cancel, not stay -- the sign then differs between contraction orders "
                            f"that resolve it by jump moves and those that meet it on one tensor")
    chk.require(n >= 2, f"_resolve_bad_swaps: {n} insertions into the set of pending swaps found (2 confirmed by hand)")


def run_W6(chk):
    """Sibling agreement of the renumbering tables of _meta_ncon.  After every executed command the axes of the touched tensors are
    renumbered; *every* table that stores (tensor, axis) coordinates -- the open edges and the pending swaps -- has to be renumbered
    by the same map, or a pending swap is later applied to another leg than the one it was recorded for (a wrong sign for odd charges
    there, nothing for even ones)."""
    prog = chk.prog
    mn = prog.func(EIN, "_meta_ncon")
    shifters = {f.name: f for f in prog.all_funcs({EIN}) if f.name.startswith("_shift_") and f.cls is None}
    chk.require(len(shifters) >= 2, "_einsum: fewer than two _shift_*_ renumbering functions found (vanished anchor)")
    inl = A.Inliner(mn.node)
    par = A.enclosing_map(mn.node)
    byblock = {}
    for c in A.walk_local(mn.node, include_self=False):
        if isinstance(c, ast.Call) and A.call_name(c) in shifters:
            st = A.stmt_of(c, par)
            blk = A.block_of(st, par)
            byblock.setdefault(id(blk), (blk, []))[1].append((st, c))
    chk.require(byblock, "_meta_ncon: no call of a renumbering function found (vanished anchor)")
    for blk, calls in byblock.values():
        sig = {}
        free = set()
        for st, c in calls:
            f = shifters[A.call_name(c)]
            names = [a.arg for a in f.node.args.args]
            bound = dict(zip(names, c.args))
            bound.update({k.arg: k.value for k in c.keywords if k.arg})
            rest = tuple(_norm_lambda(inl.expand(bound[n])) if n in bound else "<missing>" for n in names[1:])
            sig.setdefault(f.name, []).append(rest)
            for n in names[1:]:
                if n in bound:
                    e = inl.expand(bound[n])
                    lam = {a.arg for l_ in ast.walk(e) if isinstance(l_, ast.Lambda) for a in l_.args.args}
                    free |= {x.id for x in ast.walk(e) if isinstance(x, ast.Name)} - lam
        ref_name = sorted(sig)[0]
        ref = sorted(sig[ref_name])
        site = calls[0][0]
        for name in sorted(shifters):
            got = sorted(sig.get(name, []))
            ok = got == ref
            chk.verdict("W6", (mn, site), f"block at line {site.lineno}: {name} renumbers by the same maps as {ref_name} ({len(ref)} call(s))",
                        True if ok else False,
                        f"_meta_ncon: after a command the tables of (tensor, axis) coordinates are renumbered by different maps: {ref_name} "
                        f"{ref} vs {name} {got}; a pending swap (or an open edge) then refers to another leg of the result than the one it was "
                        f"recorded for -- the fermionic sign is applied on the wrong leg, visible only when the charges there are odd")
        # nothing the maps read is written between the twin calls
        idx = [blk.index(st) for st, _ in calls if st in blk]
        between = [s_ for s_ in blk[min(idx):max(idx) + 1] if s_ not in [st for st, _ in calls]] if idx else []
        written = set()
        for s_ in between:
            for n in ast.walk(s_):
                if isinstance(n, ast.Name) and isinstance(n.ctx, (ast.Store, ast.Del)):
                    written.add(n.id)
                if isinstance(n, (ast.Subscript, ast.Attribute)) and isinstance(n.ctx, (ast.Store, ast.Del)) and isinstance(n.value, ast.Name):
                    written.add(n.value.id)
                if isinstance(n, ast.Call) and isinstance(n.func, ast.Attribute) and isinstance(n.func.value, ast.Name):
                    written.add(n.func.value.id)
        clash = sorted(written & free)
        chk.verdict("W6", (mn, site), f"block at line {site.lineno}: nothing read by the renumbering maps changes between the twin calls",
                    False if clash else True,
                    f"_meta_ncon: {clash} is modified between the renumbering of one table and of its twin; the lazily evaluated maps then differ")


def _negates_listed_slices_of_a_copy(nb):
    """backend negate_blocks(data, slices): copy `data`, multiply exactly the listed slices by -1, return the copy"""
    fn = nb.node
    data, slices = nb.params[0], nb.params[1]
    body = A.strip_docstring(fn.body)
    cp = [n for n in body if isinstance(n, ast.Assign) and isinstance(n.targets[0], ast.Name) and isinstance(n.value, ast.Call)
          and ((isinstance(n.value.func, ast.Attribute) and n.value.func.attr in ("copy", "clone") and A.text(n.value.func.value) == data)
               or (A.callee_attr(n.value) in ("copy", "array", "clone") and n.value.args and A.text(n.value.args[0]) == data))]
    if not cp:
        return False
    new = cp[0].targets[0].id
    loops = [n for n in body if isinstance(n, ast.For) and A.text(n.iter) == slices]
    if len(loops) != 1:
        return False
    lv = A.assigned_names(loops[0].target)
    neg = False
    for st in loops[0].body:
        tgt = val = None
        if isinstance(st, ast.AugAssign) and isinstance(st.op, ast.Mult) and A.neg_const(st.value) == -1:
            tgt = st.target
            neg = True
        elif isinstance(st, ast.Assign) and isinstance(st.value, ast.UnaryOp) and isinstance(st.value.op, ast.USub) \
                and A.text(st.value.operand) == A.text(st.targets[0]):
            tgt = st.targets[0]
            neg = True
        else:
            return False
        if not (isinstance(tgt, ast.Subscript) and A.text(tgt.value) == new and any(isinstance(x, ast.Name) and x.id in lv for x in ast.walk(tgt.slice))):
            return False
    others = [n for n in body if n is not cp[0] and n is not loops[0] and not isinstance(n, ast.Return)]
    rets = [n for n in body if isinstance(n, ast.Return)]
    return neg and not others and len(rets) == 1 and A.text(rets[0].value) == new


def _selects_odd_blocks(s2n, first):
    """first statement collects the data slice of exactly those blocks whose parity entry is truthy"""
    par, slices = s2n.params[0], s2n.params[1]
    if not isinstance(first, ast.Assign):
        return False
    v = first.value
    if isinstance(v, ast.Call) and A.call_name(v) in ("tuple", "list") and v.args:
        v = v.args[0]
    if not isinstance(v, (ast.GeneratorExp, ast.ListComp)) or len(v.generators) != 1:
        return False
    g = v.generators[0]
    if not (isinstance(g.iter, ast.Call) and A.call_name(g.iter) == "zip" and len(g.iter.args) == 2 and isinstance(g.target, ast.Tuple)
            and len(g.target.elts) == 2):
        return False
    bind = {A.text(a_): A.text(t_) for a_, t_ in zip(g.iter.args, g.target.elts)}
    if set(bind) != {par, slices}:
        return False
    if len(g.ifs) != 1 or A.text(g.ifs[0]) != bind[par]:
        return False
    return any(isinstance(x, ast.Name) and x.id == bind[slices] for x in ast.walk(v.elt)) and \
        not any(isinstance(x, ast.Name) and x.id == bind[par] for x in ast.walk(v.elt))


def flag_vector_rule(chk, rule, msg_extra=""):
    """The flag vector handed to the two memoised sign computations of swap_gate has ONE encoding: a boolean mask with one entry per
    symmetry component (all True for fermionic=True, the configured tuple otherwise).  Necessary for C05 (which components count) and
    for C16: the flag vector is part of the lru_cache key, and an index encoding (0, 1) compares equal to the mask (False, True)."""
    sg = chk.prog.func(CON, "swap_gate")
    # flag vector at the call sites of the two meta functions
    # the flag vector handed to the sign computations: all-True for fermionic=True, else the configured tuple
    mcalls = [c for c in A.calls(sg.node) if A.call_name(c) in ("_meta_swap_gate", "_meta_swap_gate_charge")]
    chk.require(len(mcalls) == 2, "swap_gate: calls of _meta_swap_gate / _meta_swap_gate_charge not found")
    flag_names = {A.text(c.args[-1]) for c in mcalls}
    chk.verdict(rule, (sg, mcalls[0]), "both sign computations receive one flag vector as last argument", True if len(flag_names) == 1 and
                all(isinstance(c.args[-1], ast.Name) for c in mcalls) else False, "swap_gate does not pass one and the same flag vector to both sign computations")
    fname = sorted(flag_names)[0]
    cd = A.cond_def(sg.node, fname)
    chk.require(cd is not None, f"swap_gate: two-way definition of the flag vector `{fname}` not found")
    fss_def = [cd[3]]
    ok = False
    if cd is not None:
        class _V:  # same shape as an ast.IfExp
            test, body, orelse = cd[0], cd[1], cd[2]
        v = _V
        t = v.test
        is_true = isinstance(t, ast.Compare) and len(t.ops) == 1 and isinstance(t.ops[0], (ast.Is, ast.Eq)) and A.text(t.left).endswith(".config.fermionic") \
            and isinstance(t.comparators[0], ast.Constant) and t.comparators[0].value is True
        body, other = v.body, v.orelse

        def all_true(b_):
            if isinstance(b_, ast.BinOp) and isinstance(b_.op, ast.Mult):
                for tup, cnt in ((b_.left, b_.right), (b_.right, b_.left)):
                    if isinstance(tup, ast.Tuple) and len(tup.elts) == 1 and isinstance(tup.elts[0], ast.Constant) and tup.elts[0].value is True \
                            and A.text(cnt) in ("nsym", "a.config.sym.NSYM", f"{sg.params[0]}.config.sym.NSYM"):
                        return True
            return False
        ok = is_true and all_true(body) and A.text(other).endswith(".config.fermionic")
    chk.verdict(rule, (sg, fss_def[0]), fss_def[0], True if ok else False,
                "swap_gate: the flag vector must be all-True (one entry per symmetry component) for fermionic=True and the configured tuple otherwise" + msg_extra)


def run(chk):
    prog = chk.prog
    chk.explanation = (
        "Structural analysis of the three fermionic sign computations and of swap_gate: dominance of the bosonic early returns, "
        "restriction of charge-parity products to the fermionic components before summation and reduction mod 2 before use "
        "(sibling agreement), construction of the flag vector at the call sites, and a structural involution argument "
        "(result = operand with data replaced; negated slices computed by a memoised pure function of structure only — purity is "
        "C16-K1; negate_blocks = copy and multiply those slices by -1). Contraction-order independence and the CAR of fkron are "
        "value-level and not decided."
        " The jump moves of the ncon/einsum swap resolver are checked on the CFG of the nested function (parity command on every path, toggles over all other legs, collection after every jump, resolved swaps discarded first) and the command kinds emitted are matched with the executor's handlers.")
    chk.trusted_base = ["python ast parser", "C16-K1 (purity of _meta_swap_gate*)"]
    chk.rule("W1", "bosonic statistics: swap_gate returns its operand, sign functions return 1, before anything else", floor=3)
    chk.rule("W2", "parity products are restricted to fermionic components before summation and reduced mod 2 before use", floor=8)
    chk.rule("W3", "swap_gate is an involution by construction", floor=5)
    chk.rule("W4", "fkron strings carry strictly later charges; canonical ordering pops site and charge together", floor=3)
    chk.rule("W5", "ncon/einsum jump moves: every jump emits the parity correction, toggles the other legs, is followed by "
             "collection of same-tensor swaps; every emitted command kind is executed", floor=10)
    run_W5(chk)
    from . import e3 as _e3
    # the legs whose parities are read are addressed through the pending permutation in the right direction
    _e3.run_L1(chk, rule="W7", floor=4, only={"swap_gate", "_swap_gate_charge", "_meta_swap_gate", "_meta_swap_gate_charge"})
    chk.rule("W6", "ncon/einsum: the tables of open edges and of pending swaps are renumbered by the same maps after every command", floor=8)
    run_W6(chk)
    run_W8(chk)
    run_W9(chk)
    run_W10(chk)
    run_W11(chk)
    sg = prog.func(CON, "swap_gate")
    msg = prog.func(CON, "_meta_swap_gate")
    msgc = prog.func(CON, "_meta_swap_gate_charge")
    sc = prog.func(AUX, "swap_charges")
    sco = prog.func(AUX, "sign_canonical_order")
    # ---- W1
    one = lambda v: A.neg_const(v) == 1
    _first_stmt_guard(chk, sg, "W1", (".config.fermionic",), lambda v: isinstance(v, ast.Name) and v.id == sg.params[0], "the operand")
    _first_stmt_guard(chk, sc, "W1", (sc.params[2],), one, "1")
    _first_stmt_guard(chk, sco, "W1", (".config.fermionic",), one, "1")
    # ---- W2
    for f in (msg, msgc, sc):
        parent = A.enclosing_map(f.node)
        sums = find_parity_sums(f.node)
        chk.require(sums, f"{f.short}: no sum over a product of charge parities found")
        for call, e in sums:
            branch_all = False
            # swap_charges has an explicit `fss is True` branch summing all components
            cur = call
            while cur in parent:
                cur = parent[cur]
                if isinstance(cur, ast.If) and A.text(cur.test) == "fss is True":
                    branch_all = True
            if branch_all:
                chk.ok("W2", (f, call), call, {"branch": "fss is True: all components are fermionic"})
            else:
                ok = fss_subscript_ok(e)
                chk.verdict("W2", (f, call), call, True if ok else False,
                            f"{f.short}: the product of charge parities `{A.short(e, 60)}` is summed over *all* symmetry components; "
                            f"it must be restricted to the components declared fermionic (`[..., fss]`) first")
            chk.verdict("W2", (f, call), f"{A.short(call, 50)} reduced mod 2", True if mod2_before_use(f.node, call, parent) else False,
                        f"{f.short}: the accumulated parity is not reduced `% 2` before it selects blocks / builds the sign")
    # what the block selector receives is the reduced parity
    for f in (msg, msgc):
        rets = A.returns_of(f.node)
        ok = False
        if len(rets) == 1 and isinstance(rets[0].value, ast.Call) and A.call_name(rets[0].value) == "_slices_to_negate" and len(rets[0].value.args) == 2:
            par, sl = rets[0].value.args
            sums = find_parity_sums(f.node)
            parent_ = A.enclosing_map(f.node)
            # the parity handed over is (derived from) the variable the parity sums flow into, reduced mod 2
            acc = set()
            for c_, _ in sums:
                st_ = A.stmt_of(c_, parent_)
                for t in ([st_.target] if isinstance(st_, ast.AugAssign) else getattr(st_, "targets", [])):
                    acc.update(A.assigned_names(t))
            changed = True
            while changed:
                changed = False
                for n_ in ast.walk(f.node):
                    if isinstance(n_, ast.Assign) and any(isinstance(x, ast.Name) and x.id in acc for x in ast.walk(n_.value)):
                        for nm in A.assigned_names(n_.targets[0]):
                            if nm not in acc:
                                acc.add(nm)
                                changed = True
            reduced = {nm for n_ in ast.walk(f.node) if isinstance(n_, ast.Assign) and isinstance(n_.value, ast.BinOp) and isinstance(n_.value.op, ast.Mod)
                       and A.neg_const(n_.value.right) == 2 for nm in A.assigned_names(n_.targets[0])}
            flows = isinstance(par, ast.Name) and par.id in acc and par.id in reduced
            ok = flows and isinstance(sl, ast.Name) and sl.id in f.params
        chk.verdict("W2", (f, rets[0]), rets[0], True if ok else False,
                    f"{f.short} no longer returns _slices_to_negate(<reduced parity of each block>, <the slices it was given>)")
    # sign = 1 - 2 * parity
    for r in A.returns_of(sc.node):
        if isinstance(r.value, ast.Constant):
            continue
        v = r.value
        ok = isinstance(v, ast.BinOp) and isinstance(v.op, ast.Sub) and A.neg_const(v.left) == 1 and isinstance(v.right, ast.BinOp) \
            and isinstance(v.right.op, ast.Mult)
        if ok:
            two, par = (v.right.left, v.right.right) if A.neg_const(v.right.left) == 2 else (v.right.right, v.right.left)
            ok = A.neg_const(two) == 2 and isinstance(par, ast.BinOp) and isinstance(par.op, ast.Mod) and A.neg_const(par.right) == 2
        chk.verdict("W2", (sc, r), r.value, True if ok else False, "swap_charges: the sign is not 1 - 2*(parity % 2)")
    flag_vector_rule(chk, "W2")
    last = A.returns_of(sco.node)[-1]
    lv = last.value
    ok = isinstance(lv, ast.Call) and A.call_name(lv) == "swap_charges" and len(lv.args) == 3 and A.text(lv.args[2]).endswith(".config.fermionic")
    chk.verdict("W2", (sco, last), last.value, True if ok else False,
                "sign_canonical_order does not evaluate the sign with the configuration's fermionic flags")
    # ---- W3
    rets = [r for r in A.returns_of(sg.node) if A.text(r.value) != "a"]
    chk.require(len(rets) == 1, "swap_gate: exactly one computing return expected")
    r = rets[0]
    ok = isinstance(r.value, ast.Call) and A.text(r.value.func) == f"{sg.params[0]}._replace" and [k.arg for k in r.value.keywords] == ["data"] and not r.value.args
    chk.verdict("W3", (sg, r), r.value, True if ok else False,
                "swap_gate changes more than the data of its operand: applying it twice no longer restores the tensor")
    me = sg.params[0]
    data_arg = A.kwarg(r.value, "data") if isinstance(r.value, ast.Call) else None
    nbc = [c for c in A.calls(sg.node) if A.callee_attr(c) == "negate_blocks"]
    slice_names = {A.text(n.targets[0]) for n in ast.walk(sg.node) if isinstance(n, ast.Assign) and isinstance(n.value, ast.Call)
                   and A.call_name(n.value) in ("_meta_swap_gate", "_meta_swap_gate_charge")}
    ok = len(nbc) == 1 and len(nbc[0].args) == 2 and A.text(nbc[0].args[0]) in (f"{me}._data", f"{me}.data") and len(slice_names) == 1 \
        and A.text(nbc[0].args[1]) in slice_names
    if ok and data_arg is not None and not (data_arg is nbc[0]):
        dn = A.text(data_arg)
        ok = any(isinstance(n, ast.Assign) and A.text(n.targets[0]) == dn and n.value is nbc[0] for n in ast.walk(sg.node))
    chk.verdict("W3", (sg, nbc[0] if nbc else sg.node), nbc[0] if nbc else "negate_blocks", True if ok else False,
                "swap_gate: the data of the result is not negate_blocks(<operand data>, <slices computed by the sign functions>)")
    # negate_slices depends on structure only (never on a._data)
    for c in [c for c in A.calls(sg.node) if A.call_name(c) in ("_meta_swap_gate", "_meta_swap_gate_charge")]:
        argt = " ".join(A.text(x) for x in c.args)
        chk.verdict("W3", (sg, c), c, True if "_data" not in argt and ".data" not in argt else False,
                    "the set of negated blocks depends on the tensor's data: the second application may negate different blocks")
    nb = prog.func("yastn.backend.backend_np", "negate_blocks")
    ok = _negates_listed_slices_of_a_copy(nb)
    chk.verdict("W3", nb, "negate_blocks: copy, multiply listed slices by -1", True if ok else False,
                "backend negate_blocks is no longer `x -> -x on the listed slices of a copy`")
    # _slices_to_negate selects exactly blocks with odd parity
    s2n = prog.func(CON, "_slices_to_negate")
    first = A.strip_docstring(s2n.node.body)[0]
    ok = _selects_odd_blocks(s2n, first)
    chk.verdict("W3", (s2n, first), first, True if ok else False, "_slices_to_negate does not select exactly the blocks whose parity is odd")
    # ---- W4
    fk = prog.func(CON, "fkron")
    acc = [n for n in ast.walk(fk.node) if isinstance(n, ast.Assign) and isinstance(n.value, (ast.ListComp, ast.GeneratorExp, ast.Call))
           and any(isinstance(c, ast.Call) and A.callee_attr(c) == "add_charges" for c in ast.walk(n.value))]
    chk.require(acc, "fkron: accumulation of string charges (add_charges over a slice of the charge pattern) not found")
    comp = acc[0].value
    if isinstance(comp, ast.Call) and comp.args and isinstance(comp.args[0], (ast.ListComp, ast.GeneratorExp)):
        comp = comp.args[0]
    ok = False
    if isinstance(comp, (ast.ListComp, ast.GeneratorExp)):
        from ..core.poly import from_ast, Poly, Rat
        g0 = comp.generators[0]
        var = A.text(g0.target)
        if isinstance(g0.target, ast.Tuple) and isinstance(g0.iter, ast.Call) and A.call_name(g0.iter) == "enumerate" and g0.target.elts:
            var = A.text(g0.target.elts[0])          # for n, _ in enumerate(pattern)
        subs = [n for n in ast.walk(comp.elt) if isinstance(n, ast.Subscript) and isinstance(n.slice, ast.Slice)]
        if len(subs) == 1 and subs[0].slice.upper is None and subs[0].slice.lower is not None and subs[0].slice.step is None:
            try:
                ok = (from_ast(subs[0].slice.lower) - Rat(Poly.sym(var))).equals(Rat(Poly.const(1)))
            except Exception:
                ok = False
    chk.verdict("W4", (fk, acc[0]), acc[0], True if ok else False,
                "fkron: the string attached to operator n must carry the charges of strictly later operators (n_pattern[n+1:])")
    pops = [c for c in A.calls(sco.node) if A.callee_attr(c) == "pop"]
    ok = len(pops) == 2 and len({A.text(c.func.value) for c in pops}) == 2 and all(c.args for c in pops) and len({A.text(c.args[0]) for c in pops}) == 1
    chk.verdict("W4", sco, "sites.pop(i) and charges.pop(i) use the same index", True if ok else False,
                "sign_canonical_order removes a site and a charge at different positions: charges get attributed to the wrong sites")
    inner = [n for n in ast.walk(sco.node) if isinstance(n, ast.If) and "f_ordered(" in A.text(n.test)]
    ok = False
    if inner:
        t = inner[0].test
        par_ = A.enclosing_map(sco.node)
        loop = par_.get(inner[0])
        if isinstance(t, ast.UnaryOp) and isinstance(t.op, ast.Not) and isinstance(t.operand, ast.Call) and len(t.operand.args) == 2 \
                and isinstance(loop, ast.For):
            cur, cand = t.operand.args
            loopvars = A.assigned_names(loop.target)
            rebound = {nm for b_ in inner[0].body for n in ast.walk(b_) if isinstance(n, ast.Assign) for nm in A.assigned_names(n.targets[0])}
            # the candidate is the loop variable or a local computed from it in the loop body (`site = sites[ind]`)
            derived = set(loopvars)
            for b_ in loop.body:
                if isinstance(b_, ast.Assign) and isinstance(b_.targets[0], ast.Name) and any(isinstance(x, ast.Name) and x.id in loopvars for x in ast.walk(b_.value)):
                    derived.add(b_.targets[0].id)
            ok = isinstance(cand, ast.Name) and cand.id in derived and isinstance(cur, ast.Name) and cur.id in rebound
    chk.verdict("W4", (sco, inner[0] if inner else sco.node), inner[0].test if inner else "f_ordered test", True if ok else False,
                "sign_canonical_order: the selection of the next site no longer uses `not f_ordered(first_site, site)`")


MUTANTS = [
    ('fkron re-orders sites by the inverse map', 'yastn/tensor/_contractions.py', '        sites = [sites[ind] for ind in application_order[::-1]]', '        sites = [sites.index(ind) for ind in application_order[::-1]]', 'W11'),
    ('ncon de-duplicates the requested swaps', 'yastn/tensor/_einsum.py', '    swap = tuple(_clear_axes(*swap)) if swap is not None else ()', '    swap = tuple(sorted({tuple(sorted(sw)) for sw in _clear_axes(*swap)})) if swap is not None else ()', 'W10'),
    ('all crossings of a leg discarded before a single-leg jump', 'yastn/tensor/_einsum.py', '                _key, partner = tp[C][ax][0]\n                z2.discard(_key)\n', '                _, partner = tp[C][ax][0]\n                for _key, _ in tp[C][ax]:\n                    z2.discard(_key)\n', 'W9'),
    ('swap inserted instead of toggled', 'yastn/tensor/_einsum.py', '        z2.symmetric_difference_update({_canonical(edge_a, edge_b)})', '        z2.add(_canonical(edge_a, edge_b))', 'W8'),
    ('inverse permutation in swap_gate(charge=)', 'yastn/tensor/_contractions.py', '        axes = tuple(a.trans[ax] for ax in axes)', '        axes = tuple(a.trans.index(ax) for ax in axes)', 'W7'),
    ("flag vector of length 1", "yastn/tensor/_contractions.py", "    fss = (True,) * nsym if a.config.fermionic is True else a.config.fermionic", "    fss = (True,) if a.config.fermionic is True else a.config.fermionic", "W2"),
    ("negate in place", "yastn/backend/backend_np.py", "    newdata = Adata.copy()\n    for slc in slices:\n        newdata[slice(*slc)] *= -1", "    newdata = Adata\n    for slc in slices:\n        newdata[slice(*slc)] *= -1", "W3"),
    ("select even blocks", "yastn/tensor/_contractions.py", "for slc, negate in zip(slices, tp) if negate)", "for slc, negate in zip(slices, tp) if not negate)", "W3"),
    ("sign 1 - parity", "yastn/tensor/_auxiliary.py", "        return 1 - 2 * (np.sum(t0 * t1, dtype=np.int64).item() % 2)", "        return 1 - (np.sum(t0 * t1, dtype=np.int64).item() % 2)", "W2"),
    ("next site chosen with swapped arguments", "yastn/tensor/_auxiliary.py", "            if not f_ordered(first_site, site):", "            if not f_ordered(site, first_site):", "W4"),
    ("delete bosonic return", "yastn/tensor/_contractions.py", "    if not a.config.fermionic:\n        return a\n    nsym = a.config.sym.NSYM", "    nsym = a.config.sym.NSYM", "W1"),
    ("drop fss restriction", "yastn/tensor/_contractions.py", "        tp += np.sum(t1[:, fss] * t2[:, fss], axis=1, dtype=np.int64)", "        tp += np.sum(t1 * t2, axis=1, dtype=np.int64)", "W2"),
    ("drop mod 2", "yastn/tensor/_contractions.py", "    tp = np.sum(tp[:, :, fss] * charges[:, :, fss], axis=(1, 2), dtype=np.int64) % 2", "    tp = np.sum(tp[:, :, fss] * charges[:, :, fss], axis=(1, 2), dtype=np.int64)", "W2"),
    ("swap_charges all components", "yastn/tensor/_auxiliary.py", "    return 1 - 2 * (np.sum((t0 * t1)[:, fss], dtype=np.int64).item() % 2)", "    return 1 - 2 * (np.sum((t0 * t1), dtype=np.int64).item() % 2)", "W2"),
    ("replace more than data", "yastn/tensor/_contractions.py", "    return a._replace(data=newdata)\n\n\n@lru_cache(maxsize=1024)\ndef _meta_swap_gate(", "    return a._replace(data=newdata, hfs=a.hfs[::-1])\n\n\n@lru_cache(maxsize=1024)\ndef _meta_swap_gate(", "W3"),
    ("jump skips parity command", "yastn/tensor/_einsum.py", "        d_ten, d_leg = partner[0]\n        commands.append(('parity_sign', tid, d_ten, (d_leg,)))", "        d_ten, d_leg = partner[0]\n        if len(skip) < nlegs[tid]:\n            commands.append(('parity_sign', tid, d_ten, (d_leg,)))", "W5"),
    ("parity from partner tensor", "yastn/tensor/_einsum.py", "            charge = ts[jumped_ten].n", "            charge = ts[d_ten].n", "W5"),
    ("string includes own charge", "yastn/tensor/_contractions.py", "sym.add_charges(*n_pattern[n+1:])", "sym.add_charges(*n_pattern[n:])", "W4"),
    ("swaps renumbered without the second group of traced axes", "yastn/tensor/_einsum.py", "                _shift_swaps_(swaps, ten1, ten1, dax=lambda x: -sum(ax < x for ax in axes12))", "                _shift_swaps_(swaps, ten1, ten1, dax=lambda x: -sum(ax < x for ax in axes1))", "W6"),
    ("swaps of the second operand not offset", "yastn/tensor/_einsum.py", "        _shift_swaps_(swaps, ten2, ten_out, dax=lambda x: nlegs[ten1])", "        _shift_swaps_(swaps, ten2, ten_out, dax=lambda x: 0)", "W6"),
]
BENIGN = [
    ("rename parity accumulator", "yastn/tensor/_contractions.py", "        tp += np.sum(t1[:, fss] * t2[:, fss], axis=1, dtype=np.int64)\n    tp = tp % 2\n    return _slices_to_negate(tp, slices)", "        tp += np.sum(t1[:, fss] * t2[:, fss], axis=1, dtype=np.int64)\n    parity = tp % 2\n    return _slices_to_negate(parity, slices)"),
    ("negate by assignment", "yastn/backend/backend_np.py", "        newdata[slice(*slc)] *= -1\n    return newdata", "        newdata[slice(*slc)] = -newdata[slice(*slc)]\n    return newdata"),
    ("rename flag vector", "yastn/tensor/_contractions.py", "    fss = (True,) * nsym if a.config.fermionic is True else a.config.fermionic\n", "    fss = nsym * (True,) if a.config.fermionic is True else a.config.fermionic\n"),
    ("sign with 2 on the right", "yastn/tensor/_auxiliary.py", "        return 1 - 2 * (np.sum(t0 * t1, dtype=np.int64).item() % 2)", "        return 1 - (np.sum(t0 * t1, dtype=np.int64).item() % 2) * 2"),
    ("renumbering map bound once and shared", "yastn/tensor/_einsum.py", "                _shift_edges_(edges, ten1, ten1, dax=lambda x: -sum(ax < x for ax in axes12))\n                _shift_swaps_(swaps, ten1, ten1, dax=lambda x: -sum(ax < x for ax in axes12))", "                drop12 = lambda y: -sum(ax < y for ax in axes12)\n                _shift_edges_(edges, ten1, ten1, dax=drop12)\n                _shift_swaps_(swaps, ten1, ten1, drop12)"),
    ("helper for fss irrelevant rename", "yastn/tensor/_contractions.py", "    iaxes = iter(axes)\n    tp = np.zeros(lt, dtype=np.int64)", "    tp = np.zeros(lt, dtype=np.int64)\n    iaxes = iter(axes)"),
]
