"""C09 — DMRG is variational and self-consistent (partial; engine E7).

Decided: sweep bodies refresh/invalidate environments on every path, after the isometry is made and at the site
that became the isometry (O1), memoised partial environments are all cleared by clear_site_ (O2), the reported
energy is measured on the returned state after the last sweep (O3), DMRG always normalises and canonises (O4).
Not decided: the variational inequality, monotonicity, convergence to an eigenstate (numerical).
"""
from __future__ import annotations

import ast

from ..core import astutil as A
from ..core.errors import AnalysisError
from . import e7

DMRG = "yastn.tn.mps._dmrg"
COMP = "yastn.tn.mps._compression"


def run(chk):
    prog = chk.prog
    chk.explanation = (
        "Path analysis of the sweep loop bodies of DMRG and variational compression on a statement CFG: every path after a "
        "tensor-changing call (orthogonalize_site_/post_2site_) passes env.clear_site_ covering the written sites (affine "
        "site expressions compared as polynomials for each sweep direction) and then env.update_env_ at the site that became "
        "the isometry; update_env_ is dominated by the isometry-creating call; every key memoised in env.F is unified with the "
        "patterns popped by that class's clear_site_; the reported energy is defined by env.measure() after the sweep of the "
        "same iteration; DMRG passes normalize=True and canonises its input. Variational/monotonicity claims are numerical "
        "and not decided."
        ' Conjugation typing of every contraction operand of the effective operators and environment updates (origin BRA/KET/OP/INPUT, parity flipped by conj()/.H/vdot): Heff is linear in its input and sesquilinear in (bra, ket); projection penalties are p|X><X|; eigs combines its orthonormal basis started from v0/|v0|.')
    chk.trusted_base = ["python ast parser", "CFG builder sa/core/cfg.py", "exact polynomial arithmetic sa/core/poly.py"]
    chk.rule("O1", "every sweep-step path refreshes the environment after, and at the site of, the new isometry", floor=20)
    chk.rule("O2", "every such path invalidates the environments of the written sites first; memo keys are all cleared", floor=12)
    chk.rule("O3", "the energy reported is env.measure() taken after the sweep of the same iteration on the same psi", floor=4)
    chk.rule("O4", "DMRG normalises at every split, ends each sweep at the first site and canonises its input", floor=4)
    chk.rule("O5", "effective operators are linear in their input and sesquilinear in (bra, ket): bra tensors enter conjugated, "
             "ket/op/input un-conjugated; penalty terms are p|X><X|", floor=40)
    chk.rule("O6", "Krylov eigen-solver returns combinations of the orthonormal basis started from v0/|v0|", floor=2)
    ENVM = "yastn.tn.mps._env"
    nct = 0
    for ci in prog.module(ENVM).classes.values():
        for name, f in ci.methods.items():
            if f.cls is not ci:
                continue
            if name in ("Heff0", "Heff1", "Heff2"):
                nct += e7.check_conj_typing(chk, "O5", f, f.params[1:2])
            elif name in ("update_env_to_first", "update_env_to_last", "hole", "update_env_", "update_env_op_", "project_ket_on_bra_1",
                          "project_ket_on_bra_2", "get_FL", "get_FR"):
                nct += e7.check_conj_typing(chk, "O5", f, [p for p in f.params[1:2] if p.startswith("vec")])
    chk.require(nct >= 40, f"conjugation typing: only {nct} typed contraction operands (more than 40 confirmed by hand)")
    pj = prog.cls(ENVM, "Env_project")
    for name in ("Heff1", "Heff2"):
        e7.check_projector_form(chk, "O5", pj.methods[name], pj.methods[name].params[1])
    e7.check_krylov_combination(chk, "O6", prog.func("yastn.krylov._krylov", "eigs"))
    # early termination: the sweep loop may stop early only when *every* requested tolerance is met (and at least one was requested)
    chk.rule("O7", "DMRG stops early only when all requested tolerances are met", floor=1)
    dm = prog.func(DMRG, "_dmrg_")
    lists = {}
    for n in ast.walk(dm.node):
        if isinstance(n, ast.Call) and A.callee_attr(n) == "append" and isinstance(n.func.value, ast.Name) and n.args and isinstance(n.args[0], ast.Compare) \
                and any("tol" in A.text(x) for x in ast.walk(n.args[0])):
            lists.setdefault(n.func.value.id, []).append(n)
    chk.require(lists, "_dmrg_: list of per-tolerance convergence verdicts not found")
    cv = max(lists, key=lambda k: len(lists[k]))
    brk = [n for n in ast.walk(dm.node) if isinstance(n, ast.If) and any(isinstance(b_, ast.Break) for b_ in n.body)
           and cv in {x.id for x in ast.walk(n.test) if isinstance(x, ast.Name)}]
    chk.require(brk, "_dmrg_: early-termination test on the convergence verdicts not found")
    from ..core.minieval import evaluate, CannotEvaluate
    try:
        fires = {repr(w): bool(evaluate(brk[0].test, {cv: w})) for w in ([], [True], [False], [True, False], [False, True], [True, True])}
    except CannotEvaluate as e:
        raise AnalysisError(f"_dmrg_: cannot evaluate the early-termination test `{A.text(brk[0].test)}` ({e})")
    want = {"[]": False, "[True]": True, "[False]": False, "[True, False]": False, "[False, True]": False, "[True, True]": True}
    wrong = [k for k in want if fires[k] != want[k]]
    chk.verdict("O7", (dm, brk[0]), f"early termination `{A.text(brk[0].test)}`", True if not wrong else False,
                f"_dmrg_: the sweep loop stops early for the verdict lists {wrong} (test `{A.text(brk[0].test)}`): a run reports convergence although a "
                f"requested tolerance (energy_tol / Schmidt_tol) is not met, and returns a state that is not converged")
    paths = 0
    from . import e10
    e10.run_U(chk, ("yastn.tn.mps._dmrg", "yastn.tn.mps._env", "yastn.krylov", "yastn.tensor._krylov"), rule1="U1", rule2="U2", floor1=40, floor2=10)
    # the effective Hamiltonians DMRG minimises are those of the very operator: every Heff0/1/2 sibling carries the operator's norm factor
    # on every path (a sum of operators with different coefficients is otherwise minimised with wrong relative weights)
    from . import e8
    chk.rule("O8", "all effective Hamiltonians Heff0/Heff1/Heff2 carry the operator's norm factor on every path", floor=8)
    e8.check_heff_factor(chk, "O8")
    run_O9(chk)
    ng = e7.check_local_generators(chk, "O5", prog, DMRG)
    chk.require(ng >= 2, f"local generators handed to eigs in _dmrg not found ({ng})")
    for mod, name in ((DMRG, "_dmrg_sweep_1site_"), (DMRG, "_dmrg_sweep_2site_"),
                      (COMP, "_compression_1site_sweep_"), (COMP, "_compression_2site_sweep_")):
        f = prog.func(mod, name)
        paths += e7.check_sweep(chk, f)
        e7.final_refresh(chk, f, required=name != "_dmrg_sweep_1site_")
    chk.extra["sweep_body_paths"] = paths
    e7.memo_completeness(chk, prog)
    # ---- O3
    f = prog.func(DMRG, "_dmrg_")
    fn = f.node
    loops = [n for n in A.walk_local(fn, include_self=False) if isinstance(n, ast.For) and "max_sweeps" in A.text(n.iter)]
    chk.require(loops, "_dmrg_: loop over sweeps not found")
    loop = loops[0]
    cfg = e7.body_cfg(loop.body)
    sweeps = [st for st in [n.ast for n in cfg.nodes if n.ast is not None] if not isinstance(st, (ast.If, ast.For)) and any(
        isinstance(c, ast.Call) and isinstance(c.func, ast.Name) and c.func.id.startswith("_dmrg_sweep_") for c in ast.walk(st))]
    Edefs = [st for st in [n.ast for n in cfg.nodes if n.ast is not None] if isinstance(st, ast.Assign) and A.text(st.targets[0]) == "E"]
    chk.require(sweeps and Edefs, "_dmrg_: sweep calls / energy assignment not found in the loop body")
    e = Edefs[0]
    chk.verdict("O3", (f, e), e, True if "env.measure()" in A.text(e.value) else False,
                "_dmrg_: the energy of the iteration is not obtained from env.measure()")
    chk.verdict("O3", (f, e), "E is measured after the sweep", True if cfg.must_pass([e], sweeps) else False,
                "_dmrg_: a path reaches the energy measurement without having performed the sweep of this iteration")
    chk.verdict("O3", (f, e), "no sweep after the measurement", True if not any(cfg.path_exists(e, s) for s in sweeps) else False,
                "_dmrg_: a sweep runs after the energy was measured: the reported energy is not that of the returned state")
    ys = [n for n in ast.walk(fn) if isinstance(n, ast.Yield)]
    for y in ys:
        v = y.value
        ok = isinstance(v, ast.Call) and A.call_name(v) == "DMRG_out" and len(v.args) >= 3 and A.text(v.args[2]) == "E"
        chk.verdict("O3", (f, y), v, True if ok else False, "_dmrg_: the yielded DMRG_out does not carry the measured energy `E`")
    top = A.strip_docstring(fn.body)
    chk.verdict("O3", (f, top[-1]), "final yield post-dominates the loop",
                True if isinstance(top[-1], ast.Expr) and isinstance(top[-1].value, ast.Yield) else False,
                "_dmrg_: no result is yielded after the last sweep")
    # env built from the same psi
    envdef = [n for n in ast.walk(fn) if isinstance(n, ast.Assign) and A.text(n.targets[0]) == "env" and isinstance(n.value, ast.Call)
              and A.call_name(n.value) == "Env"]
    chk.require(envdef, "_dmrg_: env = Env(...) not found")
    ev = envdef[0].value
    ok = len(ev.args) >= 2 and A.text(ev.args[0]) == "psi" and isinstance(ev.args[1], (ast.List, ast.Tuple)) and \
        len(ev.args[1].elts) == 2 and A.text(ev.args[1].elts[1]) == "psi" and A.text(ev.args[1].elts[0]) == "H"
    chk.verdict("O3", (f, envdef[0]), envdef[0], True if ok else False,
                "_dmrg_: the environment is not <psi|H|psi> of the state being optimised")
    # ---- O4
    for name in ("_dmrg_sweep_1site_",):
        g = prog.func(DMRG, name)
        for c in [c for c in A.calls(g.node) if A.callee_attr(c) == "orthogonalize_site_"]:
            nz = A.kwarg(c, "normalize")
            chk.verdict("O4", (g, c), c, True if nz is not None and isinstance(nz, ast.Constant) and nz.value is True else False,
                        f"{name}: orthogonalize_site_ is not called with normalize=True: the returned state is not normalised")
    for name in ("_dmrg_sweep_1site_", "_dmrg_sweep_2site_"):
        g = prog.func(DMRG, name)
        for loop, encl in e7.site_loops(g.node):
            chk.require(encl is not None, f"{name}: direction loop not found")
            dirs = e7.direction_values(encl)
            chk.verdict("O4", (g, encl), encl.iter, True if [d[0] for d in dirs] == ["last", "first"] else False,
                        f"{name}: a sweep must go to the last site and come back to the first (canonical form at exit)")
    body = A.strip_docstring(fn.body)
    def _noncanonical_branch(n):
        """statements executed when the input is NOT canonical: the body of `if not psi.is_canonical(..)`, the else of `if psi.is_canonical(..)`"""
        t = n.test
        neg = False
        while isinstance(t, ast.UnaryOp) and isinstance(t.op, ast.Not):
            neg = not neg
            t = t.operand
        return n.body if neg else n.orelse
    can = [n for n in body if isinstance(n, ast.If) and "is_canonical(to='first')" in A.text(n.test)
           and any("canonize_(to='first')" in A.text(b) for b in _noncanonical_branch(n))]
    chk.verdict("O4", (f, can[0] if can else fn), can[0].test if can else "canonise input", True if can and can[0].lineno < envdef[0].lineno else False,
                "_dmrg_: a non-canonical input state is no longer canonised before the environments are built")
    # the norm factor of the input is reset before the environments are built, on every path: is_canonical() says nothing about
    # psi.factor, and only the 1-site sweep resets it on its way (orthogonalize_site_(normalize=True)); the 2-site sweep never does
    from ..core.cfg import CFG as _CFG
    cfg0 = _CFG(fn)
    psi_name = f.params[0]
    resets = [st for st in [n_.ast for n_ in cfg0.nodes if isinstance(n_.ast, ast.stmt)]
              if (isinstance(st, ast.Assign) and A.text(st.targets[0]) == f"{psi_name}.factor" and A.neg_const(st.value) == 1)
              or (isinstance(st, ast.Expr) and isinstance(st.value, ast.Call) and A.callee_attr(st.value) == "canonize_" and A.text(st.value.func.value) == psi_name
                  and not (A.kwarg(st.value, "normalize") is not None and not (isinstance(A.kwarg(st.value, "normalize"), ast.Constant) and A.kwarg(st.value, "normalize").value is True)))]
    okr = bool(envdef) and bool(resets) and cfg0.must_pass([envdef[0]], resets)
    chk.verdict("O4", (f, envdef[0] if envdef else fn), "the norm factor of the input is reset on every path to the construction of the environment", True if okr else False,
                "_dmrg_: some path builds the environment without resetting `psi.factor` (canonize_ runs only if the input is not canonical, and "
                "is_canonical() ignores the factor): a canonical input with factor f != 1 keeps it through 2-site sweeps -- the returned state has norm f "
                "and the reported energy is f^2 times the true one (1-site sweeps reset it on their way)")



def run_O9(chk):
    """O9: DMRG minimises.  Whatever options reach the eigensolver, the local problem is solved for the *smallest* (real part of the)
    eigenvalue: `which='SR'` must hold on every path into eigs -- in the defaults dmrg_ builds, and, for option dictionaries supplied
    without `which`, in the default of eigs itself (or the call passes which= explicitly)."""
    prog = chk.prog
    chk.rule("O9", "the local eigenproblem of DMRG is solved for the smallest eigenvalue (which='SR') for every option set", floor=2)
    eg = prog.func("yastn.krylov._krylov", "eigs")
    a = eg.node.args
    names = [x.arg for x in a.posonlyargs + a.args]
    dflt = dict(zip(names[len(names) - len(a.defaults):], a.defaults))
    d = dflt.get("which")
    eigs_default_sr = isinstance(d, ast.Constant) and d.value == "SR"
    n = 0
    for name in ("_dmrg_sweep_1site_", "_dmrg_sweep_2site_"):
        f = prog.func(DMRG, name)
        for c in A.calls(f.node):
            if (A.call_name(c) or "").split(".")[-1] != "eigs":
                continue
            n += 1
            explicit = A.kwarg(c, "which")
            splat = [k for k in c.keywords if k.arg is None]
            if explicit is not None:
                ok = isinstance(explicit, ast.Constant) and explicit.value == "SR"
                why = f"passes which={A.text(explicit)}"
            else:
                ok = eigs_default_sr
                why = f"relies on the default which={A.text(d) if d is not None else '?'} of eigs for option dictionaries without that key"
            chk.verdict("O9", (f, c), f"{name}: `{A.short(c, 60)}` ({why})", True if ok else False,
                        f"{name}(): the eigensolver call {why}: a caller who supplies opts_eigs without 'which' (e.g. {{'hermitian': True, 'ncv': 5}}) gets "
                        f"another end of the spectrum than the smallest real part -- the energy rises from sweep to sweep and DMRG converges to the "
                        f"highest state of the sector")
    chk.require(n >= 2, f"eigs calls of the DMRG sweeps not found ({n})")
    # the defaults dmrg_ builds when no options are given
    dm = prog.func(DMRG, "dmrg_")
    dd = [x for x in ast.walk(dm.node) if isinstance(x, ast.Dict) and any(isinstance(k, ast.Constant) and k.value == "which" for k in x.keys)]
    for x in dd:
        v = x.values[[k.value if isinstance(k, ast.Constant) else None for k in x.keys].index("which")]
        chk.verdict("O9", (dm, x), f"dmrg_: default options {A.short(x, 60)}", True if isinstance(v, ast.Constant) and v.value == "SR" else False,
                    "dmrg_: the default eigensolver options do not ask for the smallest real part")

MUTANTS = [
    ('default penalty set once in front of the loop', 'yastn/tn/mps/_dmrg.py', '        for pr in project:\n            penalty, st = (100, pr) if isinstance(pr, MpsMpoOBC) else pr\n', '        penalty = 100\n        for st in project:\n            if not isinstance(st, MpsMpoOBC):\n                penalty, st = st\n', 'U15'),
    ('factor of a canonical input survives', 'yastn/tn/mps/_dmrg.py', '    psi.factor = 1  # DMRG works with a normalized state; canonize_ resets the factor only when it is executed\n', '', 'O4'),
    ('Heff1 early return without the factor', 'yastn/tn/mps/_env.py', '        tmp = tensordot(self.F[n - 1, n], tmp, axes=((0, 1, 2), (2, 0, 3)))\n\n        if precompute:\n            tmp = tmp.fuse_legs(axes=(0, (1, 2)))\n        return tmp * self.op.factor', '        tmp = tensordot(self.F[n - 1, n], tmp, axes=((0, 1, 2), (2, 0, 3)))\n\n        if precompute:\n            return tmp.fuse_legs(axes=(0, (1, 2)))\n        return tmp * self.op.factor', 'O8'),
    ('eigs default LM', 'yastn/krylov/_krylov.py', "def eigs(f, v0, k=1, which='SR',", "def eigs(f, v0, k=1, which='LM',", 'O9'),
    ("tolerances exchanged in the driver call", "yastn/tn/mps/_dmrg.py", "                energy_tol, Schmidt_tol, max_sweeps,\n                opts_eigs, opts_svd, precompute, **kwargs)\n", "                Schmidt_tol, energy_tol, max_sweeps,\n                opts_eigs, opts_svd, precompute, **kwargs)\n", "U4"),
    ("penalty conjugates the input", "yastn/tn/mps/_env.py", "        return  tmp * (self.penalty * vdot(tmp, A))", "        return  tmp * (self.penalty * vdot(A, tmp))", "O5"),
    ("bra not conjugated", "yastn/tn/mps/_env.py", "        tmp = vecL @ self.bra.A[n].conj()\n        tmp = tensordot(self.op.A[n], tmp, axes=((0, 1), (1, 3)))", "        tmp = vecL @ self.bra.A[n]\n        tmp = tensordot(self.op.A[n], tmp, axes=((0, 1), (1, 3)))", "O5"),
    ("Ritz vector from unnormalised v0", "yastn/krylov/_krylov.py", "        Y.append(V[0].add(*V[1:], amplitudes=sit, **kwargs))", "        Y.append(v0.add(*V[1:], amplitudes=sit, **kwargs))", "O6"),
    ("delete clear_site_", "yastn/tn/mps/_dmrg.py", "            env.clear_site_(n)\n            env.update_env_(n, to=to)", "            env.update_env_(n, to=to)", "O2"),
    ("update before orthogonalize", "yastn/tn/mps/_dmrg.py",
     "            psi.post_1site_(A, n)\n            psi.orthogonalize_site_(n, to=to, normalize=True)",
     "            psi.post_1site_(A, n)\n            env.clear_site_(n)\n            env.update_env_(n, to=to)\n            psi.orthogonalize_site_(n, to=to, normalize=True)", "O1"),
    ("drop 3-tuple pops", "yastn/tn/mps/_env.py", "            self.F.pop((n, n - 1, n - 1), None)\n            self.F.pop((n, n + 1, n + 1), None)\n", "", "O2"),
    ("wrong dn", "yastn/tn/mps/_dmrg.py", "    for to, dn in (('last', 0), ('first', 1)):", "    for to, dn in (('last', 1), ('first', 0)):", "O1"),
    ("normalize False", "yastn/tn/mps/_dmrg.py", "            psi.orthogonalize_site_(n, to=to, normalize=True)", "            psi.orthogonalize_site_(n, to=to, normalize=False)", "O4"),
    ("measure before sweep", "yastn/tn/mps/_dmrg.py",
     "    for sweep in range(1, max_sweeps + 1):\n        if method == '1site':",
     "    for sweep in range(1, max_sweeps + 1):\n        E = env.measure().item().real\n        if method == '1site':", "O3"),
    ("clear only one site", "yastn/tn/mps/_compression.py", "            env.clear_site_(n, n + 1)\n            env.update_env_(n + dn, to=to)", "            env.clear_site_(n)\n            env.update_env_(n + dn, to=to)", "O2"),
]
BENIGN = [
    ("penalty with explicit conj flags", "yastn/tn/mps/_env.py", "        return tmp * (self.penalty * vdot(tmp, AA))", "        return tmp * (self.penalty * vdot(AA, tmp, conj=(0, 1)))"),
    ("reorder independent bookkeeping", "yastn/tn/mps/_dmrg.py",
     "            psi.absorb_central_(to=to)\n            env.clear_site_(n)\n            env.update_env_(n, to=to)",
     "            env.clear_site_(n)\n            psi.absorb_central_(to=to)\n            env.update_env_(n, to=to)"),
]
