"""C08 — canonical forms preserve the state; truncation is honest (partial; engine E8).

Decided: whenever a tensor is divided by a scalar the scalar is the norm of that tensor and multiplies the factor
(or normalize resets it to 1) (FF4); discarded weights compose as 1-(1-a)(1-x) and are square-rooted; the local
discarded weight uses the complement of the mask that truncates (FF5); read-only queries work on shallow copies (E1).
Not decided: that site tensors are isometries, that Schmidt values equal those of the dense state (values).
"""
from __future__ import annotations

import ast

from ..core import astutil as A
from ..core.errors import AnalysisError
from . import e8

OBC = "yastn.tn.mps._mps_obc"
COMP = "yastn.tn.mps._compression"
INI = "yastn.tn.mps._initialize"


def run(chk):
    prog = chk.prog
    chk.explanation = (
        "Def-use and exact polynomial analysis of the norm bookkeeping in the canonicalisation/truncation code: every "
        "normalising division `T / v` must have v defined as T.norm() and paired with `factor = 1 if normalize else factor * v`; "
        "the loop-carried accumulator of discarded weights must equal acc + x - acc*x as a polynomial with x a squared local "
        "weight and the function return its square root; the local weight uses bitwise_not of the very mask that truncates; "
        "norm()/get_Schmidt_values()/get_entropy() operate on a shallow copy (write-freedom itself is C15-M1)."
        ' shallow_copy must take over every field set in __init__ that is written again elsewhere (A, pC, factor); the decomposition whose spectrum normalises the discarded weight must be complete (no truncation / partial-svd options).')
    chk.trusted_base = ["python ast parser", "exact rational arithmetic", "C15-M1 for operand immunity"]
    chk.rule("FF4", "a tensor divided by a scalar: the scalar is that tensor's norm and multiplies the factor; normalize resets to 1", floor=10)
    chk.rule("FF5", "discarded weights compose as a + x - a*x (x squared local weight), result square-rooted; same mask", floor=12)
    chk.rule("P2", "read-only queries run in-place algorithms on a shallow copy", floor=2)
    O = prog.cls(OBC, "MpsMpoOBC")
    n = 0
    n += e8.check_division_pairing(chk, O.methods["orthogonalize_site_"])
    n += e8.check_division_pairing(chk, O.methods["diagonalize_central_"])
    n += e8.check_division_pairing(chk, prog.func(COMP, "_zipper_MpoOBC"))
    n += e8.check_division_pairing(chk, prog.func(COMP, "_zipper_MpoPBC"))
    n += e8.check_division_pairing(chk, prog.func(INI, "mps_from_tensor"))
    chk.require(n >= 6, f"only {n} normalising divisions found (8 confirmed by hand)")
    # named exception: the 2-site compression sweep divides the central block by its norm without tracking it, because
    # _compression_ re-derives the factor from the measured overlap after every sweep: check that identity instead
    cs = prog.func(COMP, "_compression_")
    fac = [x for x in ast.walk(cs.node) if isinstance(x, ast.Assign) and A.text(x.targets[0]) == "psi.factor" and A.text(x.value) == "am"]
    ph = [x for x in ast.walk(cs.node) if isinstance(x, ast.Assign) and A.text(x.targets[0]) == "psi.A[0]"]
    am = [x for x in ast.walk(cs.node) if isinstance(x, ast.Assign) and A.text(x.targets[0]) == "am"]
    ok = bool(fac) and bool(ph) and bool(am) and A.text(am[0].value) == "abs(overlap)" and A.text(ph[0].value) == "psi.A[0] * (overlap / am)"
    chk.verdict("FF4", (cs, fac[0] if fac else cs.node), "psi.factor = |overlap| ; psi.A[0] *= overlap/|overlap|", True if ok else False,
                "_compression_: the factor of the result is not re-derived from the measured overlap (modulus in factor, phase in A[0])")
    # FF5
    e8.check_discarded_composition(chk, O.methods["truncate_"])
    e8.check_discarded_composition(chk, prog.func(COMP, "_zipper_MpoOBC"))
    e8.check_discarded_composition(chk, prog.func(COMP, "_zipper_MpoPBC"))
    for f in (O.methods["diagonalize_central_"], O.methods["post_2site_"], prog.func(COMP, "_zipper_MpoOBC"), prog.func(COMP, "_zipper_MpoPBC")):
        e8.check_local_discarded(chk, f)
    # the reference norm is taken before the truncation is applied
    for f in (O.methods["diagonalize_central_"], prog.func(COMP, "_zipper_MpoOBC"), prog.func(COMP, "_zipper_MpoPBC")):
        # structural: the squared local weight is (N_out / N_ref) ** 2 with N_ref = <S>.norm() taken before the statement that truncates S
        # (`.., S, .. = mask.apply_mask(..)`) and N_out the norm of S under the complement of the mask (names are read off the code)
        b_ = A.local_bindings(f.node)
        cands = []
        for x in ast.walk(f.node):
            if isinstance(x, ast.BinOp) and isinstance(x.op, ast.Div) and isinstance(x.left, ast.Name) and isinstance(x.right, ast.Name):
                cands.append(x)
        okref = okrel = False
        site = f.node
        for d_ in cands:
            qd = [(st, v) for st, v, k in b_.get(d_.right.id, []) if v is not None]
            pd = [(st, v) for st, v, k in b_.get(d_.left.id, []) if v is not None]
            if len(qd) != 1 or len(pd) != 1:
                continue
            qst, qv = qd[0]
            if not (isinstance(qv, ast.Call) and A.callee_attr(qv) == "norm" and isinstance(qv.func.value, ast.Name)):
                continue
            sname = qv.func.value.id
            app = [x for x in ast.walk(f.node) if isinstance(x, ast.Assign) and isinstance(x.value, ast.Call) and A.callee_attr(x.value) == "apply_mask"
                   and isinstance(x.targets[0], ast.Tuple) and sname in A.assigned_names(x.targets[0])]
            site = qst
            from ..core.cfg import CFG as _CFG
            cfg_ = _CFG(f.node)
            okref = bool(app) and qst is not app[0] and cfg_.must_pass([app[0]], [qst])
            ptx = A.text(A.Inliner(f.node).expand(pd[0][1]))
            for _nm in [x.id for x in ast.walk(pd[0][1]) if isinstance(x, ast.Name)]:
                _d = [v for st, v, k in b_.get(_nm, []) if v is not None]
                if len(_d) == 1:
                    ptx = ptx + " <- " + A.text(_d[0])
            _names = {n_.id for n_ in ast.walk(pd[0][1]) if isinstance(n_, ast.Name)}
            for _nm in list(_names):
                _d = [v for st, v, k in b_.get(_nm, []) if v is not None]
                if len(_d) == 1:
                    _names |= {n_.id for n_ in ast.walk(_d[0]) if isinstance(n_, ast.Name)}
            okrel = "bitwise_not" in ptx and ".norm()" in ptx and sname in _names
            if okref and okrel:
                break
        chk.verdict("FF5", (f, site), "reference norm <S>.norm() taken before the mask is applied", True if okref else False,
                    f"{f.short}: the discarded weight is not normalised by the norm of the *untruncated* Schmidt values")
        chk.verdict("FF5", (f, site), "local weight = |S outside the mask| / |S|", True if okrel else False,
                    f"{f.short}: the local discarded weight is not (norm of S under the complement of the mask) / (norm of S)")
    chk.rule("P3", "shallow_copy takes over every mutable state field of the MPS (A, pC, factor)", floor=3)
    run_P3(chk)
    # the discarded weight of truncate_/zipper is relative to the *complete* spectrum: the decomposition that produces S must not
    # receive the user's truncation / partial-svd options
    for f in (O.methods["diagonalize_central_"], prog.func(COMP, "_zipper_MpoOBC"), prog.func(COMP, "_zipper_MpoPBC")):
        b = A.local_bindings(f.node)
        for st, v, k in b.get("S", []):
            if isinstance(v, ast.Call) and (A.call_name(v) or "").split(".")[-1] == "svd" and any(
                    isinstance(v2, ast.Call) and A.callee_attr(v2) == "norm" and A.text(v2.func.value) == "S" for nm2, ds2 in b.items() for st2, v2, k2 in ds2):
                partial = [kw for kw in v.keywords if kw.arg is None or kw.arg in ("policy", "D_block", "D_total", "k", "k_block", "tol", "tol_block")]
                chk.verdict("FF5", (f, st), f"{f.short}: `{A.short(v, 60)}` is a complete decomposition", False if partial else True,
                            f"{f.short}: the decomposition whose spectrum normalises the discarded weight receives "
                            f"`{', '.join('**' + A.text(kw.value) if kw.arg is None else kw.arg for kw in partial)}`: with a partial-svd policy only part of the "
                            f"spectrum is returned, `nSold` is the norm of an already truncated spectrum and the reported discarded weight "
                            f"under-reports the true error (0 when the policy's rank equals the kept rank)")
    # P2
    for name in ("norm", "get_Schmidt_values"):
        f = O.methods[name]
        me = f.params[0]
        def root(v):
            while isinstance(v, ast.Call) and isinstance(v.func, ast.Attribute) and v.func.attr.endswith("_") and not v.func.attr.endswith("__"):
                v = v.func.value
            return v
        cp = [x for x in ast.walk(f.node) if isinstance(x, ast.Assign) and isinstance(root(x.value), ast.Call)
              and A.text(root(x.value).func) == f"{me}.shallow_copy"]
        inplace = [c for c in A.calls(f.node) if isinstance(c.func, ast.Attribute) and c.func.attr.endswith("_") and not c.func.attr.endswith("__")]
        # every in-place sweep acts on the copy: its receiver chain is rooted in the copy's name or in the shallow_copy() call itself
        ok = bool(cp) and all(A.text(root(c.func.value)) in (cp[0].targets[0].id, f"{me}.shallow_copy()") for c in inplace)
        chk.verdict("P2", f, f"{f.short}: in-place sweeps run on `{cp[0].targets[0].id if cp else '?'}`", True if ok else False,
                    f"{f.short}() runs an in-place algorithm on the receiver instead of a shallow copy")
        # ... and every value returned is computed after the canonisation sweep of that copy: no shortcut that trusts the current gauge
        from ..core.cfg import CFG
        cfg_ = CFG(f.node)
        can = [A.stmt_of(c, A.enclosing_map(f.node)) for c in inplace if c.func.attr == "canonize_"]
        rets_ = [r for r in A.returns_of(f.node) if r.value is not None]
        okc = bool(can) and all(cfg_.must_pass([r], can) for r in rets_)
        chk.verdict("P2", (f, rets_[0] if rets_ else f.node), f"{f.short}: every return is preceded by the canonisation of the copy", True if okc else False,
                    f"{f.short}(): a value is returned on a path that skips canonize_ of the copy: the result then depends on the gauge the state "
                    f"happens to be in (e.g. it trusts that a central block carries the whole norm)")


    run_P4(chk)
    run_P5(chk)
    run_P6(chk)
    # FF4 (norm switch of the in-place steps, per value of `normalize`): with normalize=True every path that changes the norm resets the factor
    # to 1, with normalize=False every store accumulates (never overwrites)
    for mname in ("orthogonalize_site_", "diagonalize_central_"):
        mf = O.methods[mname]
        # the reset is required on the paths that reach a store at all (a state without central block is left alone)
        _norm_switch_on_store_paths(chk, mf)
    from . import e10
    e10.run_U(chk, ("yastn.tn.mps._mps_obc", "yastn.tn.mps._mps_parent", "yastn.tn.mps._compression", "yastn.tn.mps._initialize"), floor1=5, floor2=1)


def _norm_switch_on_store_paths(chk, f, obj="self", knob="normalize"):
    """per value of the knob, on the CFG specialised on it: knob=True -> some store `obj.factor = 1` is live and no live store accumulates;
    knob=False -> every live store multiplies obj.factor (none overwrites).  A store that exists only under `if not normalize:` leaves
    the factor untouched for normalize=True."""
    from ..core.cfg import CFG, specialise_expr
    cfg = CFG(f.node)
    me = f"{obj}.factor"
    stores = [n for n in A.walk_local(f.node, include_self=False) if isinstance(n, ast.Assign) and len(n.targets) == 1 and A.text(n.targets[0]) == me]
    chk.require(stores, f"{f.short}: no store to `{me}` found")
    for val in (True, False):
        g = cfg.specialised({knob: val})
        live = g.reach_from({g.entry.id})
        vals = [specialise_expr(st.value, {knob: val}) for st in stores if cfg.node_of[st].id in live]
        if val:
            ok = any(A.neg_const(v) == 1 for v in vals) and not any(isinstance(v, ast.BinOp) and me in A.text(v) for v in vals)
            chk.verdict("FF4", (f, stores[0]), f"{f.short}: {knob}=True resets {me} to 1 ({[A.text(v) for v in vals]})", True if ok else False,
                        f"{f.short}(): with {knob}=True no live statement sets `{me}` to 1 (stores reachable: {[A.text(v) for v in vals] or 'none'}): the "
                        f"factor accumulated by earlier steps with normalize=False survives and the state is not normalised")
        else:
            ok = bool(vals) and all(isinstance(v, ast.BinOp) and isinstance(v.op, ast.Mult) and me in (A.text(v.left), A.text(v.right)) for v in vals)
            chk.verdict("FF4", (f, stores[0]), f"{f.short}: {knob}=False accumulates into {me} ({[A.text(v) for v in vals]})", True if ok else False,
                        f"{f.short}(): with {knob}=False some live store overwrites `{me}` instead of multiplying it: the norm tracked so far is lost")


def run_P5(chk):
    """P5: the entropy kernel discards probabilities below `tol` *after* normalising them: the array compared with `tol` is defined by the
    division by the total weight.  Cutting first applies an absolute threshold to un-normalised weights -- a state of small norm loses
    every Schmidt value and gets entropy 0 (or +-inf)."""
    from ..core.seqsel import SelOrder
    prog = chk.prog
    chk.rule("P5", "the entropy kernel compares normalised probabilities with the cut-off `tol`", floor=1)
    f = prog.func("yastn.backend.backend_np", "entropy")
    so = SelOrder(f.node)
    par = A.enclosing_map(f.node)
    norms = {nm for nm, ds in so.b.items() for st, v, k in ds if isinstance(v, ast.Call) and (A.call_name(v) or "").split(".")[-1] in ("sum", "norm")}

    def normalised(e, at, depth=0):
        if depth > 4:
            return False
        if isinstance(e, ast.BinOp) and isinstance(e.op, ast.Div) and (
                (isinstance(e.right, ast.Name) and e.right.id in norms) or
                (isinstance(e.right, ast.Call) and (A.call_name(e.right) or "").split(".")[-1] in ("sum", "norm"))):
            return True
        if isinstance(e, ast.Subscript):          # a selection of normalised values
            return normalised(e.value, at, depth + 1)
        if isinstance(e, ast.Name):
            ds = so.defs(e.id, at)
            return bool(ds) and all(k == "assign" and v is not None and normalised(v, st, depth + 1) for st, v, k in ds)
        return False
    n = 0
    for c in ast.walk(f.node):
        if isinstance(c, ast.Compare) and len(c.ops) == 1 and isinstance(c.comparators[0], ast.Name) and c.comparators[0].id == "tol":
            n += 1
            st = A.stmt_of(c, par)
            ok = normalised(c.left, st)
            chk.verdict("P5", (f, c), f"entropy: `{A.text(c)}` on normalised data", True if ok else False,
                        f"backend kernel entropy(): `{A.text(c)}` compares values that were not yet divided by the total weight with the absolute cut-off `tol`: "
                        f"for a spectrum of small norm every value is dropped (entropy 0 / inf instead of the entropy of the normalised distribution)")
    chk.require(n, "entropy: the comparison with `tol` was not found")
    # ... and for every alpha: each return that evaluates a formula on the probabilities passes the cut-off
    from ..core.cfg import CFG
    cfg = CFG(f.node)
    cuts = [A.stmt_of(c, par) for c in ast.walk(f.node) if isinstance(c, ast.Compare) and len(c.ops) == 1 and isinstance(c.comparators[0], ast.Name)
            and c.comparators[0].id == "tol"]
    cuts = [c for c in cuts if c in cfg.node_of]
    for r in A.returns_of(f.node):
        if r.value is None or not any(isinstance(x, ast.Name) and x.id == "data" for x in ast.walk(r.value)) or r not in cfg.node_of:
            continue
        ok = bool(cuts) and cfg.must_pass([r], cuts)
        chk.verdict("P5", (f, r), f"entropy: `{A.short(r, 50)}` evaluated after the cut-off", True if ok else False,
                    f"backend kernel entropy(): `{A.short(r, 60)}` is reached on a path that skips the cut-off `data > tol`: for that alpha the values below "
                    f"`tol` enter the formula (Renyi entropies of order < 1 are dominated by them), unlike for the other orders")


def run_P6(chk):
    """P6: every normalising division `X / v` with v = <something>.norm() is protected against v == 0 on every path -- it sits under `if v:` /
    `.. if v else ..`, or every definition of v that reaches it already replaced a zero (`v if v else 1`).  The zero state is a legal MPS
    (zero blocks after applying an operator); 0 / 0 turns it into nan."""
    from ..core.seqsel import SelOrder
    prog = chk.prog
    chk.rule("P6", "normalising divisions by a norm are protected against a zero norm on every path", floor=6)
    for f in prog.all_funcs():
        if f.module.name not in ("yastn.tn.mps._mps_obc", "yastn.tn.mps._compression"):
            continue
        b = A.local_bindings(f.node)
        norms = {nm for nm, ds in b.items() for st, v, k in ds if isinstance(v, ast.Call) and A.callee_attr(v) == "norm" and not v.args}
        if not norms:
            continue
        so = SelOrder(f.node)
        par = A.enclosing_map(f.node)
        for d in ast.walk(f.node):
            if not (isinstance(d, ast.BinOp) and isinstance(d.op, ast.Div) and isinstance(d.right, ast.Name) and d.right.id in norms):
                continue
            v = d.right.id
            guarded = False
            cur = d
            while cur in par and not guarded:
                p_ = par[cur]
                if isinstance(p_, ast.IfExp) and cur is p_.body and any(isinstance(x, ast.Name) and x.id == v for x in ast.walk(p_.test)):
                    guarded = True
                if isinstance(p_, ast.If) and (cur in p_.body or cur in p_.orelse) and any(isinstance(x, ast.Name) and x.id == v for x in ast.walk(p_.test)):
                    guarded = True          # the division sits in a branch selected by a test on the norm
                cur = p_
            if not guarded:
                st = A.stmt_of(d, par)
                ds = so.defs(v, st)
                def safe(val):
                    return (isinstance(val, ast.IfExp) and any(isinstance(x, ast.Name) and x.id == v for x in ast.walk(val.test))) or \
                        (isinstance(val, ast.BoolOp) and isinstance(val.op, ast.Or)) or \
                        (isinstance(val, ast.Call) and A.call_name(val) in ("max",))
                guarded = bool(ds) and all(k == "assign" and val is not None and safe(val) for st_, val, k in ds)
                if not guarded and st in so.cfg.node_of:
                    # an early exit: under the assumption `v` is falsy the division is not reachable from the definition of v
                    g = so.cfg.specialised({v: 0})
                    starts = [st_ for st_, val, k in ds if st_ is not None and st_ in so.cfg.node_of]
                    guarded = bool(starts) and not any(g.path_exists(s0, st) for s0 in starts)
            chk.verdict("P6", (f, d), f"{f.short}: `{A.text(d)}`", True if guarded else False,
                        f"{f.short}(): `{A.text(d)}` divides by the norm `{v}` on a path where nothing excludes {v} == 0: the zero state (zero blocks, e.g. an "
                        f"operator that annihilates the state) becomes nan instead of staying zero with factor 0")


def run_P4(chk):
    """P4: typestate of the central block.  orthogonalize_site_ creates a central block and refuses to run while one exists; canonize_
    is the entry point that has to work from *any* state (norm(), get_entropy(), get_Schmidt_values() run it on a shallow copy, which
    keeps pC): on every path, each call of orthogonalize_site_ in canonize_ is preceded by absorb_central_ since the entry and since the
    previous orthogonalize_site_."""
    from ..core.cfg import CFG
    prog = chk.prog
    chk.rule("P4", "canonize_ absorbs a central block before every orthogonalize_site_ (from entry and between consecutive sites)", floor=2)
    O = prog.cls("yastn.tn.mps._mps_obc", "MpsMpoOBC")
    f = O.methods["canonize_"]
    cfg = CFG(f.node)
    par = A.enclosing_map(f.node)
    orth = [A.stmt_of(c, par) for c in A.calls(f.node) if A.callee_attr(c) == "orthogonalize_site_"]
    absb = [A.stmt_of(c, par) for c in A.calls(f.node) if A.callee_attr(c) == "absorb_central_"]
    chk.require(orth, "canonize_: call of orthogonalize_site_ not found")
    for o in orth:
        ok_entry = bool(absb) and cfg.must_pass([o], absb)
        chk.verdict("P4", (f, o), "canonize_: absorb_central_ on every path from entry to orthogonalize_site_", True if ok_entry else False,
                    "canonize_(): a state that still holds a central block (left by orthogonalize_site_, diagonalize_central_, post_2site_, "
                    "reverse_sites) reaches orthogonalize_site_, which refuses to create a second one: norm(), get_entropy() and "
                    "get_Schmidt_values() fail on such a state")
        again = cfg.path_exists(o, o, avoiding=absb)
        chk.verdict("P4", (f, o), "canonize_: absorb_central_ between consecutive orthogonalize_site_", False if again else True,
                    "canonize_(): two orthogonalize_site_ calls can follow each other without absorbing the central block in between")


def run_P3(chk):
    """shallow_copy carries every mutable state field of the MPS (fields set in _MpsMpoParent.__init__ and written again elsewhere)"""
    prog = chk.prog
    P = prog.cls("yastn.tn.mps._mps_parent", "_MpsMpoParent")
    init, sc = P.methods["__init__"], P.methods["shallow_copy"]
    me = init.params[0]
    fields = []
    for n in A.walk_local(init.node, include_self=False):
        if isinstance(n, ast.Assign) and isinstance(n.targets[0], ast.Attribute) and A.text(n.targets[0].value) == me:
            fields.append(n.targets[0].attr)
    chk.require(len(fields) >= 5, "_MpsMpoParent.__init__: state fields not found")
    # which of them change after construction: stores `.X = ` / `.X[..] = ` / `del .X[..]` / .X.pop outside __init__ in the mps package
    written = set()
    for f in prog.all_funcs():
        if not f.module.name.startswith("yastn.tn.mps") or f is init:
            continue
        for n in ast.walk(f.node):
            tg = []
            if isinstance(n, ast.Assign):
                tg = n.targets
            elif isinstance(n, ast.AugAssign):
                tg = [n.target]
            elif isinstance(n, ast.Delete):
                tg = n.targets
            for t in tg:
                for e in (t.elts if isinstance(t, (ast.Tuple, ast.List)) else [t]):
                    base = e
                    while isinstance(base, ast.Subscript):
                        base = base.value
                    if isinstance(base, ast.Attribute) and base.attr in fields:
                        written.add(base.attr)
            if isinstance(n, ast.Call) and isinstance(n.func, ast.Attribute) and n.func.attr in ("pop", "update", "clear", "setdefault") \
                    and isinstance(n.func.value, ast.Attribute) and n.func.value.attr in fields:
                written.add(n.func.value.attr)
    chk.require({"A", "pC", "factor"} <= written, f"mutable MPS state fields found: {sorted(written)} (A, pC, factor confirmed by hand)")
    sme = sc.params[0]
    new = [n.targets[0].id for n in A.walk_local(sc.node) if isinstance(n, ast.Assign) and isinstance(n.targets[0], ast.Name)
           and isinstance(n.value, ast.Call) and A.text(n.value.func) in (f"type({sme})", f"{sme}.__class__", "copy.copy")]
    chk.require(new, "shallow_copy: construction of the new object not found")
    phi = new[0]
    for X in sorted(written):
        st = [n for n in A.walk_local(sc.node) if isinstance(n, ast.Assign) and A.text(n.targets[0]) == f"{phi}.{X}"
              and any(isinstance(x, ast.Attribute) and x.attr == X and A.text(x.value) == sme for x in ast.walk(n.value))]
        chk.verdict("P3", (sc, st[0] if st else sc.node), f"shallow_copy carries `{X}`", True if st else False,
                    f"_MpsMpoParent.shallow_copy(): the state field `{X}` (set in __init__, modified by the algorithms) is not taken over from the "
                    f"source: copy(), clone(), conj(), __mul__, norm(), get_Schmidt_values() ... start from shallow_copy() and then represent a "
                    f"different state whenever `{X}` differs from its constructor default")


MUTANTS = [
    ('entropy cuts before normalising', 'yastn/backend/backend_np.py', '        data = data / Snorm\n        data = data[data > tol]\n', '        data = data[data > tol] / Snorm\n', 'P5'),
    ('zero-norm guard only when normalising', 'yastn/tn/mps/_mps_obc.py', '        self.A[self.pC] = R / nR if nR else R\n        self.factor = 1 if normalize else self.factor * nR\n', '        if normalize:\n            self.factor = 1\n            nR = nR if nR else 1\n        else:\n            self.factor = self.factor * nR\n        self.A[self.pC] = R / nR\n', 'P6'),
    ('truncate_ default direction changed', 'yastn/tn/mps/_mps_obc.py', "    def truncate_(self, to='last', opts_svd=None, normalize=True) -> Number:", "    def truncate_(self, to='first', opts_svd=None, normalize=True) -> Number:", 'U8'),
    ('factor reset only under not normalize', 'yastn/tn/mps/_mps_obc.py', '            self.factor = 1 if normalize else self.factor * nS\n', '            if not normalize:\n                self.factor = self.factor * nS\n', 'FF4'),
    ('canonize_ without the leading absorb', 'yastn/tn/mps/_mps_obc.py', '        self.absorb_central_(to=to)\n        for n in self.sweep(to=to):\n            self.orthogonalize_site_(n=n, to=to, normalize=normalize)\n            self.absorb_central_(to=to)', '        for n in self.sweep(to=to):\n            self.orthogonalize_site_(n=n, to=to, normalize=normalize)\n            self.absorb_central_(to=to)', 'P4'),
    ("factor not multiplied by nS", "yastn/tn/mps/_mps_obc.py", "            self.factor = 1 if normalize else self.factor * nS", "            self.factor = 1 if normalize else self.factor", "FF4"),
    ("plus in composition", "yastn/tn/mps/_mps_obc.py", "discarded2_local + discarded2_total - discarded2_total * discarded2_local", "discarded2_local + discarded2_total + discarded2_total * discarded2_local", "FF5"),
    ("no sqrt", "yastn/tn/mps/_mps_obc.py", "        return discarded2_total ** 0.5", "        return discarded2_total", "FF5"),
    ("norm of R taken from A", "yastn/tn/mps/_mps_obc.py", "        nR = R.norm()", "        nR = self.A[n].norm()", "FF4"),
    ("zipper composition simple sum", "yastn/tn/mps/_compression.py",
     "        discarded2_total = discarded2_total + discarded2_local - discarded2_total * discarded2_local\n\n        U, S, V = mask.apply_mask(U, S, V, axes=(2, 0, 0))",
     "        discarded2_total = discarded2_total + discarded2_local\n\n        U, S, V = mask.apply_mask(U, S, V, axes=(2, 0, 0))", "FF5"),
    ("shallow copy forgets pC", "yastn/tn/mps/_mps_parent.py", "        phi.pC = self.pC\n        phi.factor = self.factor", "        phi.factor = self.factor", "P3"),
    ("central svd with user options", "yastn/tn/mps/_mps_obc.py", "            U, S, V = svd(self.A[self.pC], axes=(0, 1), sU=1)\n            nSold = S.norm()", "            U, S, V = svd(self.A[self.pC], axes=(0, 1), sU=1, **opts_svd)\n            nSold = S.norm()", "FF5"),
    ("norm in place", "yastn/tn/mps/_mps_obc.py", "        phi = self.shallow_copy()\n        #if not phi.is_canonical(to='first'):\n        phi.canonize_(to='first', normalize=False)", "        phi = self\n        phi.canonize_(to='first', normalize=False)", "P2"),
]
BENIGN = [
    ("1-(1-a)(1-x) form", "yastn/tn/mps/_mps_obc.py", "            discarded2_total = discarded2_local + discarded2_total - discarded2_total * discarded2_local",
     "            discarded2_total = 1 - (1 - discarded2_total) * (1 - discarded2_local)"),
]
