"""C08 — canonical forms preserve the state; truncation is honest (partial; engine E8).

Decided: whenever a tensor is divided by a scalar the scalar is the norm of that tensor and multiplies the factor
(or normalize resets it to 1) (FF4); discarded weights compose as 1-(1-a)(1-x) and are square-rooted; the local
discarded weight uses the complement of the mask that truncates (FF5); read-only queries work on shallow copies (E1).
Not decided: that site tensors are isometries, that Schmidt values equal those of the dense state (values).
"""
from __future__ import annotations

import ast

from ..core import astutil as A
from ..core.errors import AnalysisError
from . import e8

OBC = "yastn.tn.mps._mps_obc"
COMP = "yastn.tn.mps._compression"
INI = "yastn.tn.mps._initialize"


def run(chk):
    prog = chk.prog
    chk.explanation = (
        "Def-use and exact polynomial analysis of the norm bookkeeping in the canonicalisation/truncation code: every "
        "normalising division `T / v` must have v defined as T.norm() and paired with `factor = 1 if normalize else factor * v`; "
        "the loop-carried accumulator of discarded weights must equal acc + x - acc*x as a polynomial with x a squared local "
        "weight and the function return its square root; the local weight uses bitwise_not of the very mask that truncates; "
        "norm()/get_Schmidt_values()/get_entropy() operate on a shallow copy (write-freedom itself is C15-M1).")
    chk.trusted_base = ["python ast parser", "exact rational arithmetic", "C15-M1 for operand immunity"]
    chk.rule("FF4", "a tensor divided by a scalar: the scalar is that tensor's norm and multiplies the factor; normalize resets to 1", floor=10)
    chk.rule("FF5", "discarded weights compose as a + x - a*x (x squared local weight), result square-rooted; same mask", floor=12)
    chk.rule("P2", "read-only queries run in-place algorithms on a shallow copy", floor=2)
    O = prog.cls(OBC, "MpsMpoOBC")
    n = 0
    n += e8.check_division_pairing(chk, O.methods["orthogonalize_site_"])
    n += e8.check_division_pairing(chk, O.methods["diagonalize_central_"])
    n += e8.check_division_pairing(chk, prog.func(COMP, "_zipper_MpoOBC"))
    n += e8.check_division_pairing(chk, prog.func(COMP, "_zipper_MpoPBC"))
    n += e8.check_division_pairing(chk, prog.func(INI, "mps_from_tensor"))
    chk.require(n >= 6, f"only {n} normalising divisions found (8 confirmed by hand)")
    # named exception: the 2-site compression sweep divides the central block by its norm without tracking it, because
    # _compression_ re-derives the factor from the measured overlap after every sweep: check that identity instead
    cs = prog.func(COMP, "_compression_")
    fac = [x for x in ast.walk(cs.node) if isinstance(x, ast.Assign) and A.text(x.targets[0]) == "psi.factor" and A.text(x.value) == "am"]
    ph = [x for x in ast.walk(cs.node) if isinstance(x, ast.Assign) and A.text(x.targets[0]) == "psi.A[0]"]
    am = [x for x in ast.walk(cs.node) if isinstance(x, ast.Assign) and A.text(x.targets[0]) == "am"]
    ok = bool(fac) and bool(ph) and bool(am) and A.text(am[0].value) == "abs(overlap)" and A.text(ph[0].value) == "psi.A[0] * (overlap / am)"
    chk.verdict("FF4", (cs, fac[0] if fac else cs.node), "psi.factor = |overlap| ; psi.A[0] *= overlap/|overlap|", True if ok else False,
                "_compression_: the factor of the result is not re-derived from the measured overlap (modulus in factor, phase in A[0])")
    # FF5
    e8.check_discarded_composition(chk, O.methods["truncate_"])
    e8.check_discarded_composition(chk, prog.func(COMP, "_zipper_MpoOBC"))
    e8.check_discarded_composition(chk, prog.func(COMP, "_zipper_MpoPBC"))
    for f in (O.methods["diagonalize_central_"], O.methods["post_2site_"], prog.func(COMP, "_zipper_MpoOBC"), prog.func(COMP, "_zipper_MpoPBC")):
        e8.check_local_discarded(chk, f)
    # the reference norm is taken before the truncation is applied
    for f in (O.methods["diagonalize_central_"], prog.func(COMP, "_zipper_MpoOBC"), prog.func(COMP, "_zipper_MpoPBC")):
        old = [x for x in ast.walk(f.node) if isinstance(x, ast.Assign) and A.text(x.targets[0]) == "nSold"]
        app = [x for x in ast.walk(f.node) if isinstance(x, ast.Assign) and isinstance(x.value, ast.Call) and A.callee_attr(x.value) == "apply_mask"
               and isinstance(x.targets[0], ast.Tuple)]
        ok = old and app and A.text(old[0].value) == "S.norm()" and old[0].lineno < app[0].lineno
        chk.verdict("FF5", (f, old[0] if old else f.node), "nSold = S.norm() before the mask is applied", True if ok else False,
                    f"{f.short}: the discarded weight is not normalised by the norm of the *untruncated* Schmidt values")
        rel = [x for x in ast.walk(f.node) if isinstance(x, ast.Assign) and "nSout / nSold" in A.text(x.value)]
        chk.verdict("FF5", (f, rel[0] if rel else f.node), rel[0] if rel else "nSout / nSold", True if rel else False,
                    f"{f.short}: the local discarded weight is not nSout / nSold")
    # P2
    for name in ("norm", "get_Schmidt_values"):
        f = O.methods[name]
        me = f.params[0]
        cp = [x for x in ast.walk(f.node) if isinstance(x, ast.Assign) and isinstance(x.value, ast.Call) and A.text(x.value.func) == f"{me}.shallow_copy"]
        inplace = [c for c in A.calls(f.node) if isinstance(c.func, ast.Attribute) and c.func.attr.endswith("_") and not c.func.attr.endswith("__")]
        ok = bool(cp) and all(A.text(c.func.value) == cp[0].targets[0].id for c in inplace)
        chk.verdict("P2", f, f"{f.short}: in-place sweeps run on `{cp[0].targets[0].id if cp else '?'}`", True if ok else False,
                    f"{f.short}() runs an in-place algorithm on the receiver instead of a shallow copy")


MUTANTS = [
    ("factor not multiplied by nS", "yastn/tn/mps/_mps_obc.py", "            self.factor = 1 if normalize else self.factor * nS", "            self.factor = 1 if normalize else self.factor", "FF4"),
    ("plus in composition", "yastn/tn/mps/_mps_obc.py", "discarded2_local + discarded2_total - discarded2_total * discarded2_local", "discarded2_local + discarded2_total + discarded2_total * discarded2_local", "FF5"),
    ("no sqrt", "yastn/tn/mps/_mps_obc.py", "        return discarded2_total ** 0.5", "        return discarded2_total", "FF5"),
    ("norm of R taken from A", "yastn/tn/mps/_mps_obc.py", "        nR = R.norm()", "        nR = self.A[n].norm()", "FF4"),
    ("zipper composition simple sum", "yastn/tn/mps/_compression.py",
     "        discarded2_total = discarded2_total + discarded2_local - discarded2_total * discarded2_local\n\n        U, S, V = mask.apply_mask(U, S, V, axes=(2, 0, 0))",
     "        discarded2_total = discarded2_total + discarded2_local\n\n        U, S, V = mask.apply_mask(U, S, V, axes=(2, 0, 0))", "FF5"),
    ("norm in place", "yastn/tn/mps/_mps_obc.py", "        phi = self.shallow_copy()\n        #if not phi.is_canonical(to='first'):\n        phi.canonize_(to='first', normalize=False)", "        phi = self\n        phi.canonize_(to='first', normalize=False)", "P2"),
]
BENIGN = [
    ("1-(1-a)(1-x) form", "yastn/tn/mps/_mps_obc.py", "            discarded2_total = discarded2_local + discarded2_total - discarded2_total * discarded2_local",
     "            discarded2_total = 1 - (1 - discarded2_total) * (1 - discarded2_local)"),
]
