"""C19 — symmetry rules are abelian groups; legs hold canonical charges  (engine E5 `symnf`).

Meta-theorem (paper proof, the only non-syntactic step; trusted base).
Let m in (N_{>=2} u {oo})^NSYM and R_m reduce component k modulo m_k with floored
`mod` (numpy/Python semantics; identity for oo).  If

        fuse(c, s, sigma) = R_m( sigma * sum_j s_j c_j )                       (NF)

then for all integer inputs: (1) results are canonical (0 <= x_k < m_k);
(2) R_m is a ring homomorphism Z -> Z_m composed with the canonical section, so
R_m(a+b) = R_m(R_m(a)+R_m(b)): addition is associative, commutative, has identity
0 = zero(); (3) fuse((t),(s),-s) = R_m(-t) is the inverse of canonical t;
(4) idempotence R_m o R_m = R_m gives "fusing in groups equals fusing at once".
Hence the group axioms hold for *all* charges once every shipped `fuse` is shown
to be (NF) for the moduli its SYM_ID names.  Rules G1-G3 show exactly that by
abstract interpretation of the body of `fuse`; G4 covers the wrapper; G5-G7 the
Leg container.
"""
from __future__ import annotations

import ast
import copy
import re

from ..core import astutil as A
from ..core.cfg import CFG
from ..core.errors import AnalysisError

SYM_PKG = "yastn.sym"


# ---------------------------------------------------------------------------- G1-G3
class Lin:
    """Abstract value of the charge matrix inside fuse: the linear form sum_j s_j c_j,
    optionally multiplied by new_signature, with reductions applied per column."""

    def __init__(self):
        self.sign = False          # multiplied by new_signature
        self.red = {}              # column (int) or 'all' -> modulus
        self.red_before_sign = False
        self.events = []

    def copy(self):
        x = Lin()
        x.sign, x.red, x.red_before_sign, x.events = self.sign, dict(self.red), self.red_before_sign, list(self.events)
        return x


MOD_FUNCS = {"np.mod", "np.remainder", "numpy.mod", "numpy.remainder"}


class FuseInterp:
    def __init__(self, fi, nsym):
        self.fi = fi
        self.nsym = nsym
        params = fi.pos_params
        if params and params[0] in ("cls", "self"):
            params = params[1:]
        if len(params) != 3:
            raise AnalysisError(f"{fi.qualname}: fuse must take (charges, signatures, new_signature)")
        self.p_ch, self.p_sig, self.p_new = params
        self.shortcuts = []
        self.env = {}
        self.temps = {}      # name -> (column expression, {matrix name: version at definition})
        self.version = {}

    def err(self, node, why):
        raise AnalysisError(f"cannot normalise {self.fi.qualname} at {self.fi.where(node)}: {why}: {A.short(node)}")

    def is_swapped_charges(self, node):
        if isinstance(node, ast.Name) and node.id in getattr(self, "swapped_names", ()):
            return True
        return self._is_swapped_charges(node)

    def _is_swapped_charges(self, node):
        # charges.swapaxes(1, 2) | np.swapaxes(charges, 1, 2) | charges.transpose(0, 2, 1)
        if isinstance(node, ast.Call):
            nm = A.call_name(node)
            args = [A.neg_const(a) for a in node.args]
            if nm == f"{self.p_ch}.swapaxes" and sorted(args) == [1, 2]:
                return True
            if nm in ("np.swapaxes", "numpy.swapaxes") and len(node.args) == 3 and \
                    isinstance(node.args[0], ast.Name) and node.args[0].id == self.p_ch and sorted(args[1:]) == [1, 2]:
                return True
            if nm == f"{self.p_ch}.transpose" and args == [0, 2, 1]:
                return True
        return False

    def col_index(self, sub: ast.Subscript):
        """x[:, j] -> (base name, j)"""
        sl = sub.slice
        if isinstance(sub.value, ast.Name) and isinstance(sl, ast.Tuple) and len(sl.elts) == 2:
            a, b = sl.elts
            if isinstance(a, ast.Slice) and a.lower is None and a.upper is None and a.step is None:
                j = A.neg_const(b)
                if isinstance(j, int):
                    if j < 0:
                        j += self.nsym
                    return sub.value.id, j
        return None

    def modulus(self, node):
        k = A.neg_const(node)
        if k is None and isinstance(node, ast.Name):
            # a module-level integer constant assigned exactly once
            vals = [st.value for st in self.fi.module.tree.body if isinstance(st, ast.Assign) and len(st.targets) == 1
                    and isinstance(st.targets[0], ast.Name) and st.targets[0].id == node.id]
            if len(vals) == 1:
                k = A.neg_const(vals[0])
        if not isinstance(k, int) or k < 2:
            self.err(node, "modulus is not an integer literal >= 2")
        return k

    def ev(self, node) -> Lin:
        if isinstance(node, ast.Name):
            if node.id in self.env:
                return self.env[node.id].copy()
            self.err(node, "name does not hold the charge matrix")
        if isinstance(node, ast.BinOp) and isinstance(node.op, ast.MatMult):
            if self.is_swapped_charges(node.left) and isinstance(node.right, ast.Name) and node.right.id == self.p_sig:
                return Lin()
            self.err(node, "linear part is not charges.swapaxes(1,2) @ signatures")
        if isinstance(node, ast.Call):
            nm = A.call_name(node)
            if nm in ("np.matmul", "numpy.matmul", "np.dot", "numpy.dot") and len(node.args) == 2:
                if self.is_swapped_charges(node.args[0]) and isinstance(node.args[1], ast.Name) \
                        and node.args[1].id == self.p_sig:
                    return Lin()
                self.err(node, "linear part is not matmul(charges.swapaxes(1,2), signatures)")
            if nm in MOD_FUNCS and len(node.args) == 2:
                v = self.ev(node.args[0])
                return self.reduce(v, "all", self.modulus(node.args[1]), node)
            if nm and nm.endswith(".copy") and isinstance(node.func, ast.Attribute) and not node.args:
                return self.ev(node.func.value)
            self.err(node, "unknown call")
        if isinstance(node, ast.BinOp) and isinstance(node.op, ast.Mod):
            v = self.ev(node.left)
            return self.reduce(v, "all", self.modulus(node.right), node)
        if isinstance(node, ast.BinOp) and isinstance(node.op, ast.Mult):
            for s, o in ((node.left, node.right), (node.right, node.left)):
                if isinstance(s, ast.Name) and s.id == self.p_new:
                    v = self.ev(o)
                    if v.sign:
                        self.err(node, "multiplied by new_signature twice")
                    if v.red:
                        v.red_before_sign = True
                        v.events.append(f"reduced {v.red} before multiplying by {self.p_new}")
                    v.sign = True
                    return v
            self.err(node, "product not with new_signature")
        self.err(node, "unknown expression")

    def reduce(self, v: Lin, col, k, node):
        if col == "all":
            cols = list(range(self.nsym))
        else:
            cols = [col]
        for c in cols:
            if c in v.red and v.red[c] != k:
                # composition of different moduli on one column: keep the last if it divides, else give up
                if v.red[c] % k != 0:
                    self.err(node, f"column {c} reduced modulo {v.red[c]} and then modulo {k}")
            v.red[c] = k
        return v

    def run(self):
        body = A.strip_docstring(self.fi.node.body)
        ret = None
        for st in body:
            if isinstance(st, ast.Return):
                if st.value is None:
                    self.err(st, "returns None")
                ret = self.ev(st.value)
                break
            if isinstance(st, ast.Assign) and len(st.targets) == 1 and isinstance(st.targets[0], ast.Name) and self._is_swapped_charges(st.value):
                # a temporary for charges.swapaxes(1, 2)
                self.swapped_names = set(getattr(self, "swapped_names", ())) | {st.targets[0].id}
                continue
            if isinstance(st, ast.If) and not st.orelse and st.body and isinstance(st.body[-1], ast.Return) and len(st.body) == 1 \
                    and st.body[0].value is not None:
                # a shortcut `if <case>: return <expr>`: the value it returns is a result of fuse like any other
                rv = st.body[0].value
                try:
                    import copy as _copy
                    saved = (_copy.deepcopy(self.env), dict(self.version), dict(self.temps))
                    r = self.ev(rv)
                    self.env, self.version, self.temps = saved
                    self.shortcuts.append((st, r))
                except AnalysisError:
                    raw = any(isinstance(x, ast.Name) and x.id == self.p_ch for x in ast.walk(rv)) and not any(
                        (isinstance(x, ast.BinOp) and isinstance(x.op, ast.Mod)) or (isinstance(x, ast.Call) and A.call_name(x) in MOD_FUNCS) for x in ast.walk(rv))
                    if raw:
                        raise RawShortcut(st, rv)
                    raise
                continue
            if isinstance(st, ast.Assign) and len(st.targets) == 1:
                t = st.targets[0]
                if isinstance(t, ast.Name):
                    # a temporary holding (a function of) one column: kept as an expression, valid while its matrix is not stored into
                    cols = [self.col_index(x) for x in ast.walk(st.value) if isinstance(x, ast.Subscript)]
                    cols = [c for c in cols if c is not None and c[0] in self.env]
                    if cols and not (isinstance(st.value, ast.Name)):
                        self.temps[t.id] = (st.value, {c[0]: self.version.get(c[0], 0) for c in cols})
                        continue
                    self.env[t.id] = self.ev(st.value)
                    self.version[t.id] = self.version.get(t.id, 0) + 1
                    continue
                if isinstance(t, ast.Subscript):
                    # a store through a view of one column: `col = x[:, j]; col[...] = f(col)` writes x[:, j] (basic indexing is a view)
                    if isinstance(t.value, ast.Name) and t.value.id in self.temps and isinstance(self.temps[t.value.id][0], ast.Subscript) \
                            and self.col_index(self.temps[t.value.id][0]) is not None and (
                                (isinstance(t.slice, ast.Constant) and t.slice.value is Ellipsis) or
                                (isinstance(t.slice, ast.Slice) and t.slice.lower is None and t.slice.upper is None and t.slice.step is None)):
                        view_name = t.value.id
                        view_expr = self.temps[view_name][0]

                        class _V(ast.NodeTransformer):
                            def visit_Name(self, n_):
                                return copy.deepcopy(view_expr) if n_.id == view_name and isinstance(n_.ctx, ast.Load) else n_
                        st = copy.copy(st)
                        st.value = _V().visit(copy.deepcopy(st.value))
                        t = copy.deepcopy(view_expr)
                    ci = self.col_index(t)
                    if ci is None or ci[0] not in self.env:
                        self.err(st, "store is not x[:, j] = ... on the charge matrix")
                    name, j = ci
                    rhs = st.value
                    if isinstance(rhs, ast.Name) and rhs.id in self.temps:
                        rhs, vers = self.temps[rhs.id]
                        if any(self.version.get(b, 0) != v for b, v in vers.items()):
                            self.err(st, "temporary column value used after its matrix was modified")
                    # right-hand side must be mod(x[:, j], k) on the same column
                    k = self.col_mod_rhs(rhs, name, j)
                    self.env[name] = self.reduce(self.env[name], j, k, st)
                    self.version[name] = self.version.get(name, 0) + 1
                    continue
            if isinstance(st, ast.AugAssign) and isinstance(st.op, ast.Mod):
                t = st.target
                if isinstance(t, ast.Name) and t.id in self.env:
                    self.env[t.id] = self.reduce(self.env[t.id], "all", self.modulus(st.value), st)
                    continue
                if isinstance(t, ast.Subscript):
                    ci = self.col_index(t)
                    if ci and ci[0] in self.env:
                        self.env[ci[0]] = self.reduce(self.env[ci[0]], ci[1], self.modulus(st.value), st)
                        continue
            self.err(st, "unsupported statement in fuse")
        if ret is None:
            raise AnalysisError(f"{self.fi.qualname}: no return reached")
        return ret

    def col_mod_rhs(self, node, name, j):
        inner, k = None, None
        if isinstance(node, ast.Call) and A.call_name(node) in MOD_FUNCS and len(node.args) == 2:
            inner, k = node.args
        elif isinstance(node, ast.BinOp) and isinstance(node.op, ast.Mod):
            inner, k = node.left, node.right
        if inner is None or not isinstance(inner, ast.Subscript):
            # a component computed from the raw charges, bypassing new_signature * (charges . signatures), is a definite breach of
            # the normal form: for inputs outside the canonical range it is no longer R_m of the signed sum
            if any(isinstance(x, ast.Name) and x.id == self.p_ch for x in ast.walk(node)):
                raise NotLinearForm(node, j)
            # a component computed from *other* columns of the signed sum (e.g. the parity of two U(1) components) is not the
            # component-wise group law either
            others = [self.col_index(x) for x in ast.walk(node) if isinstance(x, ast.Subscript)]
            others = [c for c in others if c is not None and c[0] == name and c[1] != j]
            if others:
                raise ColumnMix(node, others[0], (name, j))
            self.err(node, "column store is not a modular reduction")
        ci = self.col_index(inner)
        if ci != (name, j):
            # reduction of a different column written into column j: definite breach, reported by caller
            raise ColumnMix(node, ci, (name, j))
        return self.modulus(k)


class RawShortcut(Exception):
    def __init__(self, node, value):
        self.node, self.value = node, value


class NotLinearForm(Exception):
    def __init__(self, node, col):
        self.node, self.col = node, col


class ColumnMix(Exception):
    def __init__(self, node, src, dst):
        self.node, self.src, self.dst = node, src, dst


def moduli_from_sym_id(sym_id: str):
    if sym_id == "dense":
        return ()
    out = []
    for part in sym_id.split("x"):
        m = re.fullmatch(r"Z(\d+)", part)
        if m:
            out.append(int(m.group(1)))
        elif part in ("U1", "U(1)"):
            out.append(None)
        else:
            raise AnalysisError(f"cannot parse SYM_ID {sym_id!r}")
    return tuple(out)


def shipped_symmetries(chk):
    """Classes exported by yastn/sym/__init__.py that derive from sym_abelian (excluding it)."""
    prog = chk.prog
    pkg = prog.module(SYM_PKG)
    base = prog.cls("yastn.sym.sym_abelian", "sym_abelian")
    out = []
    for local in sorted(pkg.imports):
        r = prog.resolve(pkg, local)
        if hasattr(r, "methods") and r is not base and base in prog.class_mro(r):
            prog.consulted.add(r.module.relpath)
            out.append(r)
    # also any class in the package directory that subclasses sym_abelian but is not exported
    for m in prog.modules.values():
        if m.name.startswith(SYM_PKG + "."):
            for c in m.classes.values():
                if c is not base and base in prog.class_mro(c) and c not in out:
                    prog.consulted.add(m.relpath)
                    out.append(c)
    return base, out


def class_const(ci, name):
    if name not in ci.class_consts:
        raise AnalysisError(f"{ci.qualname} has no class constant {name}")
    try:
        return ast.literal_eval(ci.class_consts[name])
    except Exception as e:
        raise AnalysisError(f"{ci.qualname}.{name} is not a literal") from e


def check_fuse(chk, base, syms):
    chk.rule("G1", "fuse normalises to R_m(new_signature * (charges . signatures))", floor=7)
    chk.rule("G2", "moduli of the reductions equal those named by SYM_ID; len == NSYM", floor=7)
    chk.rule("G3", "reduction applied after multiplication by new_signature", floor=3)
    for ci in syms:
        sym_id = class_const(ci, "SYM_ID")
        nsym = class_const(ci, "NSYM")
        want = moduli_from_sym_id(sym_id)
        fi = ci.methods.get("fuse")
        if fi is None:
            chk.bad("G1", (ci.module.relpath, ci.name, ci.node.lineno), f"class {ci.name}",
                    "shipped symmetry does not define fuse (base raises NotImplementedError)")
            continue
        if len(want) != nsym:
            chk.bad("G2", fi, f"SYM_ID={sym_id!r} NSYM={nsym}", f"SYM_ID names {len(want)} factors but NSYM={nsym}")
            continue
        try:
            it_ = FuseInterp(fi, nsym)
            v = it_.run()
            for st_, r_ in it_.shortcuts:
                if r_.red != v.red or r_.sign != v.sign:
                    chk.bad("G2", (fi, st_), A.short(st_, 80), f"{ci.name}.fuse: the shortcut `{A.short(st_, 80)}` reduces by {r_.red or 'nothing'} "
                            f"(signed: {r_.sign}) where the general path reduces by {v.red} (signed: {v.sign})")
        except RawShortcut as e:
            if any(want):
                chk.bad("G2", (fi, e.node), A.short(e.node, 80), f"{ci.name}.fuse: the shortcut `{A.short(e.node, 80)}` returns the charges as they were given, without the "
                        f"reduction modulo {[m for m in want if m]}: this very call (one leg, signature kept) is how the library brings charges into the "
                        f"canonical range and how Leg validates them -- out-of-range charges are accepted and one sector can be stored twice")
            else:
                chk.ok("G2", (fi, e.node), f"{ci.name}.fuse shortcut returns the charges of a group without cyclic factors")
            continue
        except ColumnMix as e:
            chk.bad("G1", (fi, e.node), e.node, f"column {e.dst[1]} is overwritten with a reduction of column "
                    f"{e.src[1] if e.src else '?'}: not component-wise")
            continue
        except NotLinearForm as e:
            chk.bad("G1", (fi, e.node), e.node, f"component {e.col} of the fused charge is computed from the raw charges (`{A.short(e.node, 60)}`) and not "
                    f"as a reduction of new_signature * (charges . signatures): for charges outside the canonical range the result is not "
                    f"R_m(sigma * sum s_j c_j), so fuse() is no longer the group law (Leg uses it to test canonicity)")
            continue
        facts = {"SYM_ID": sym_id, "NSYM": nsym, "moduli_expected": [m or "inf" for m in want],
                 "moduli_found": {str(k): v_ for k, v_ in v.red.items()}, "signed": v.sign}
        # G1: sign applied (irrelevant when there are no components)
        if nsym > 0 and not v.sign:
            chk.bad("G1", fi, A.text(fi.node.body[-1]), "result is not multiplied by new_signature", facts)
        else:
            chk.ok("G1", fi, f"{ci.name}.fuse", facts)
        # G2: moduli
        bad = []
        for k in range(nsym):
            got = v.red.get(k)
            if got != want[k]:
                bad.append((k, want[k], got))
        extra = [c for c in v.red if isinstance(c, int) and (c < 0 or c >= nsym)]
        if bad or extra:
            msg = "; ".join(f"component {k}: SYM_ID says modulus {w or 'none (U1)'}, fuse reduces by {g or 'nothing'}"
                            for k, w, g in bad) or f"reduction of non-existent column {extra}"
            chk.bad("G2", fi, f"{ci.name}.fuse moduli", msg, facts)
        else:
            chk.ok("G2", fi, f"{ci.name}.fuse moduli", facts)
        # G3
        if any(want):
            if v.red_before_sign:
                chk.bad("G3", fi, f"{ci.name}.fuse order", "modular reduction happens before the multiplication by "
                        "new_signature: sigma=-1 leaves the canonical range", facts)
            else:
                chk.ok("G3", fi, f"{ci.name}.fuse order", facts)
        # no overriding of zero/add_charges (G4 part)
        for nm in ("zero", "add_charges"):
            if nm in ci.methods:
                chk.bad("G4", ci.methods[nm], f"{ci.name}.{nm}", f"{nm} overridden in a shipped symmetry; "
                        "the inherited wrapper is the analysed one")


# ------------------------------------------------------------------------------- G4
def check_wrapper(chk, base):
    chk.rule("G4", "zero() is (0,)*NSYM; add_charges fuses all charges in one call to cls.fuse", floor=4)
    z = base.methods.get("zero")
    chk.require(z is not None, "sym_abelian.zero not found")
    rets = A.returns_of(z.node)
    ok = len(rets) == 1 and A.text(rets[0].value) in ("(0,) * cls.NSYM", "cls.NSYM * (0,)", "tuple([0] * cls.NSYM)",
                                                       "tuple((0 for _ in range(cls.NSYM)))")
    chk.verdict("G4", z, rets[0].value if rets else "zero", True if ok else False,
                "zero() does not return NSYM zeros")
    f = base.methods.get("add_charges")
    chk.require(f is not None, "sym_abelian.add_charges not found")
    node = f.node
    chk.require(node.args.vararg is not None, "add_charges no longer takes *charges")
    ch = node.args.vararg.arg
    kwo = {a.arg: d for a, d in zip(node.args.kwonlyargs, node.args.kw_defaults)}
    # default new_signature == 1
    d = kwo.get("new_signature")
    chk.verdict("G4", f, "new_signature default", True if (d is not None and A.neg_const(d) == 1) else False,
                "default new_signature of add_charges is not 1")
    # abstractly interpret: track which names hold (a) all charges reshaped, (b) default signature, (c) fuse result
    fuse_calls = [c for c in A.calls(node) if A.call_name(c) in ("cls.fuse",)]
    if len(fuse_calls) != 1:
        chk.bad("G4", f, "cls.fuse(...)", f"add_charges calls cls.fuse {len(fuse_calls)} times (expected once, "
                "with all charges)")
        return
    call = fuse_calls[0]
    inl = A.Inliner(node)
    # names rebound (charges, signatures are rebound): resolve by last assignment before the call textually
    defs = {}
    for st in A.walk_local(node, include_self=False):
        if isinstance(st, ast.Assign) and len(st.targets) == 1 and isinstance(st.targets[0], ast.Name) \
                and st.lineno < call.lineno:
            defs[st.targets[0].id] = st.value
    a0 = call.args[0] if call.args else None
    a0d = defs.get(a0.id) if isinstance(a0, ast.Name) else a0
    t0 = A.text(inl.expand(a0d)) if a0d is not None else ""
    shape_ok = bool(re.search(r"\.reshape\(\(?1, len\(%s\), cls\.NSYM\)?\)" % ch, t0)) and \
        bool(re.search(r"np\.(array|asarray)\(%s\b" % ch, t0))
    chk.verdict("G4", (f, call), a0d if a0d is not None else call, True if shape_ok else False,
                "charges are not all passed, reshaped to (1, len(charges), NSYM), to one fuse call")
    # signatures default
    sig = call.args[1] if len(call.args) > 1 else None
    sig_ok = isinstance(sig, ast.Name) and sig.id == "signatures"
    dflt_ok = False
    for st in A.walk_local(node, include_self=False):
        # conditional-expression form: signatures = (1,) * len(charges) if signatures is None else signatures
        if isinstance(st, ast.Assign) and A.text(st.targets[0]) == "signatures" and isinstance(st.value, ast.IfExp):
            v = st.value
            t = A.text(v.test)
            dflt, keep = (v.body, v.orelse) if t == "signatures is None" else ((v.orelse, v.body) if t == "signatures is not None" else (None, None))
            if dflt is not None and A.text(keep) == "signatures" and A.text(inl.expand(dflt)) in (f"(1,) * len({ch})", f"len({ch}) * (1,)"):
                dflt_ok = True
        if isinstance(st, ast.If) and A.text(st.test) == "signatures is None":
            for b in st.body:
                if isinstance(b, ast.Assign) and A.text(b.targets[0]) == "signatures" and \
                        A.text(inl.expand(b.value)) in (f"(1,) * len({ch})", f"len({ch}) * (1,)"):
                    dflt_ok = True
    chk.verdict("G4", (f, call), "signatures default (1,)*len(charges)", True if (sig_ok and dflt_ok) else False,
                "default signatures are not all +1 / not forwarded to fuse")
    ns = call.args[2] if len(call.args) > 2 else A.kwarg(call, "new_signature")
    chk.verdict("G4", (f, call), "new_signature forwarded", True if (isinstance(ns, ast.Name) and ns.id == "new_signature") else False,
                "new_signature is not forwarded to fuse")
    # the value returned derives from the fuse result
    rets = [r for r in A.returns_of(node) if r.value is not None]
    final = [r for r in rets if "cls.zero()" != A.text(r.value)]
    ok = False
    if len(final) == 1:
        e = inl.expand(final[0].value)
        ok = "cls.fuse(" in A.text(e) and A.text(e).startswith("tuple(") and ".tolist()" in A.text(e)
    chk.verdict("G4", f, final[0].value if final else "return", True if ok else False,
                "add_charges does not return the fused charge as a tuple of ints")
    empty = [r for r in rets if A.text(r.value) == "cls.zero()"]
    chk.verdict("G4", f, "empty sum", True if empty else False, "empty sum of charges is not zero()")


# ------------------------------------------------------------------------------- G5
def _cmp_norm(node):
    """Normalise a comparison to (lhs_text, op, rhs_text) with op in {'>','>=','<','<=','==','!='};
    `not (a op b)` is folded."""
    neg = False
    while isinstance(node, ast.UnaryOp) and isinstance(node.op, ast.Not):
        neg = not neg
        node = node.operand
    if not (isinstance(node, ast.Compare) and len(node.ops) == 1):
        return None
    op = type(node.ops[0])
    table = {ast.Gt: ">", ast.GtE: ">=", ast.Lt: "<", ast.LtE: "<=", ast.Eq: "==", ast.NotEq: "!=",
             ast.In: "in", ast.NotIn: "not in"}
    if op not in table:
        return None
    o = table[op]
    if neg:
        o = {">": "<=", ">=": "<", "<": ">=", "<=": ">", "==": "!=", "!=": "==", "in": "not in", "not in": "in"}[o]
    return node.left, o, node.comparators[0]


def _positive_test(node, var):
    """Does `node` state  var > 0  (in any of the normal forms)?  returns True / False / None(unknown shape)."""
    c = _cmp_norm(node)
    if c is None:
        return None
    l, o, r = c
    lt, rt = A.text(l), A.text(r)
    lv, rv = A.neg_const(l), A.neg_const(r)
    if lt == var and rv is not None:
        if (o == ">" and rv == 0) or (o == ">=" and rv == 1):
            return True
        if o in (">", ">=", "<", "<=", "!=", "=="):
            return False
    if rt == var and lv is not None:
        if (o == "<" and lv == 0) or (o == "<=" and lv == 1):
            return True
        if o in (">", ">=", "<", "<=", "!=", "=="):
            return False
    return None


def _is_int_test(node, var):
    c = _cmp_norm(node)
    if c is None:
        return None
    l, o, r = c
    lt, rt = A.text(l), A.text(r)
    if o == "==" and {lt, rt} == {f"int({var})", var}:
        return True
    return None


def _all_gen(node):
    """all(<cond> for x in <iter>) -> (cond, var, iter) ; handles `not all(...)` via caller."""
    if isinstance(node, ast.Call) and A.call_name(node) == "all" and len(node.args) == 1 \
            and isinstance(node.args[0], (ast.GeneratorExp, ast.ListComp)):
        g = node.args[0]
        if len(g.generators) == 1 and isinstance(g.generators[0].target, ast.Name) and not g.generators[0].ifs:
            return g.elt, g.generators[0].target.id, g.generators[0].iter
    return None


def _conj(node):
    if isinstance(node, ast.BoolOp) and isinstance(node.op, ast.And):
        out = []
        for v in node.values:
            out.extend(_conj(v))
        return out
    return [node]


def classify_guard(test, inl, sources):
    """Classify the condition of an `if <test>: raise`.  Returns (category, ok, detail) where
    ok True = guard has the required strength, False = definitely weaker, or (None, ...) = unknown shape.
    `sources(node)` is the set of inputs the expression data-depends on, out of
    {'D' (self.D), 't' (self.t), 's' (self.s), 'NSYM', 'fuse' (result of sym.fuse)}; shape arguments of
    reshape are ignored."""
    t = test
    c = _cmp_norm(t)
    if c is not None:
        l, o, r = c
        # --- signature
        if A.text(l) == "self.s" and o == "not in":
            try:
                vals = set(ast.literal_eval(r))
            except Exception:
                return None, None, "signature set is not a literal"
            return "signature", vals == {-1, 1}, f"allowed signatures {sorted(vals)}"
        sl, sr = sources(l), sources(r)
        # --- canonical: user's charges compared with their image under the group's normal form
        if o == "!=" and (("fuse" in sl) != ("fuse" in sr)):
            other = sr if "fuse" in sl else sl
            if "t" in other:
                return "canonical", True, f"{A.text(l)} != {A.text(r)}"
        # --- duplicates: len(set(x)) != len(x)
        if o in ("!=", "<", ">"):
            lt, rt = A.text(l), A.text(r)
            for x, y in ((lt, rt), (rt, lt)):
                m1 = re.fullmatch(r"len\(set\((\w+)\)\)", x)
                m2 = re.fullmatch(r"len\((\w+)\)", y)
                if m1 and m2 and m1.group(1) == m2.group(1):
                    src = sources(ast.Name(id=m1.group(1), ctx=ast.Load()))
                    return "duplicates", "t" in src, f"duplicate test on {m1.group(1)} (depends on {sorted(src)})"
    # --- duplicates by comparing neighbours: any(a == b for a, b in zip(X, X[1:]))  — valid only if X is sorted
    if isinstance(t, ast.Call) and A.call_name(t) == "any" and len(t.args) == 1 and isinstance(t.args[0], (ast.GeneratorExp, ast.ListComp)):
        g = t.args[0]
        if len(g.generators) == 1 and isinstance(g.generators[0].iter, ast.Call) and A.call_name(g.generators[0].iter) == "zip" \
                and len(g.generators[0].iter.args) == 2:
            x0, x1 = g.generators[0].iter.args
            c2 = _cmp_norm(g.elt)
            if isinstance(x1, ast.Subscript) and A.text(x1.value) == A.text(x0) and c2 is not None and c2[1] == "==" \
                    and "t" in sources(x0):
                is_sorted = "sorted(" in A.text(inl.expand(x0))
                return "duplicates", is_sorted, (f"neighbour comparison on `{A.text(x0)}` which is "
                                                 f"{'sorted' if is_sorted else 'NOT sorted at this point: non-adjacent repetitions pass'}")
    # --- not all(...)
    neg = False
    u = t
    while isinstance(u, ast.UnaryOp) and isinstance(u.op, ast.Not):
        neg = not neg
        u = u.operand
    g = _all_gen(u)
    if g is not None and neg:
        cond, var, it = g
        src = sources(it)
        parts = _conj(cond)
        ints = [p for p in parts if _is_int_test(p, var)]
        rest = [p for p in parts if not _is_int_test(p, var)]
        if "D" in src and "t" not in src:
            pos = [_positive_test(p, var) for p in rest]
            if ints and len(rest) == 1 and pos[0] is True:
                return "D-positive-int", True, A.text(cond)
            if not ints and all(p is not None for p in pos):
                return "D-positive-int", False, f"condition on D is `{A.text(cond)}`; integrality test missing"
            if not rest or (len(rest) == 1 and pos[0] is False):
                return "D-positive-int", False, f"condition on D is `{A.text(cond)}`; required: integer and > 0"
            return None, None, "unknown D condition"
        if "t" in src and "D" not in src:
            if ints and not rest:
                return "t-int", True, A.text(cond)
            if not ints and not rest:
                return "t-int", False, f"condition on t is `{A.text(cond)}`"
            return None, None, "unknown t condition"
    # --- count: lD * nsym != len(t) [or (nsym == 0 and lD > 1)]
    disj = t.values if isinstance(t, ast.BoolOp) and isinstance(t.op, ast.Or) else [t]
    for d in disj:
        c = _cmp_norm(d)
        if c is None:
            continue
        l, o, r = c
        src = sources(l) | sources(r)
        if o == "!=" and {"D", "t", "NSYM"} <= src and "fuse" not in src:
            return "count", True, A.text(d)
    return None, None, "unrecognised guard shape"


def check_leg(chk):
    prog = chk.prog
    chk.rule("G5", "Leg.__post_init__: validation guards dominate the stores of t and D; storage sorted", floor=8)
    leg = prog.cls("yastn.tensor._legs", "Leg")
    pi = leg.methods.get("__post_init__")
    chk.require(pi is not None, "Leg.__post_init__ not found")
    fn = pi.node
    cfg = CFG(fn)
    inl = A.Inliner(fn)
    binds = A.local_bindings(fn)

    # data-dependence of locals on the inputs (flow-insensitive union over all bindings; shape arguments
    # of reshape(...) are not data)
    memo = {}

    def sources(node, stack=()):
        out = set()
        if isinstance(node, ast.Name):
            if node.id in memo:
                return memo[node.id]
            if node.id in stack:
                return set()
            for st, val, kind in binds.get(node.id, []):
                if val is not None:
                    out |= sources(val, stack + (node.id,))
            if not stack:
                memo[node.id] = out
            return out
        if isinstance(node, ast.Attribute):
            tx = A.text(node)
            if tx == "self.D":
                return {"D"}
            if tx == "self.t":
                return {"t"}
            if tx == "self.s":
                return {"s"}
            if tx.endswith(".NSYM"):
                return {"NSYM"}
        if isinstance(node, ast.Call):
            if A.callee_attr(node) == "fuse":
                out = {"fuse"}
                for a_ in node.args:
                    out |= sources(a_, stack)
                return out
            if A.callee_attr(node) == "reshape" and isinstance(node.func, ast.Attribute):
                return sources(node.func.value, stack)
        for ch in ast.iter_child_nodes(node):
            out |= sources(ch, stack)
        return out

    # stores of t and D
    stores = {}
    for n in A.walk_local(fn, include_self=False):
        if isinstance(n, ast.Call) and A.call_name(n) == "object.__setattr__" and len(n.args) == 3 \
                and A.text(n.args[0]) == "self" and isinstance(n.args[1], ast.Constant):
            stores.setdefault(n.args[1].value, []).append(n)
    chk.require("t" in stores and "D" in stores, "Leg.__post_init__ no longer stores t and D via object.__setattr__")
    parent = A.enclosing_map(fn)
    store_stmts = [A.stmt_of(c, parent) for k in ("t", "D") for c in stores[k]]

    guards = {}
    unknown = []
    for n in A.walk_local(fn, include_self=False):
        if isinstance(n, ast.If) and any(isinstance(b, ast.Raise) for b in n.body):
            # `for x in S: if <test>: raise`  is the guard  `if any(<test> for x in S): raise`
            lp = parent.get(n)
            if isinstance(lp, ast.For) and lp.body == [n] and not lp.orelse and not n.orelse:
                import copy as _copy
                n = _copy.copy(n)
                n.test = ast.Call(func=ast.Name(id="any", ctx=ast.Load()), keywords=[],
                                  args=[ast.GeneratorExp(elt=n.test, generators=[ast.comprehension(target=lp.target, iter=lp.iter, ifs=[], is_async=0)])])
                ast.fix_missing_locations(n.test)
                n._loop_guard = lp
            # the seen-set idiom:  seen = set(); for x in X: if x in seen: raise; seen.add(x)   ==   len(set(X)) != len(X)
            if isinstance(lp, ast.For) and len(lp.body) == 2 and lp.body[0] is n and not lp.orelse and not n.orelse and isinstance(lp.target, ast.Name) \
                    and isinstance(n.test, ast.Compare) and len(n.test.ops) == 1 and isinstance(n.test.ops[0], ast.In) \
                    and isinstance(n.test.left, ast.Name) and n.test.left.id == lp.target.id and isinstance(n.test.comparators[0], ast.Name):
                sname = n.test.comparators[0].id
                add = lp.body[1]
                fresh = [v_ for st_, v_, k_ in binds.get(sname, []) if v_ is not None]
                if isinstance(add, ast.Expr) and isinstance(add.value, ast.Call) and A.text(add.value.func) == f"{sname}.add" and len(add.value.args) == 1 \
                        and A.text(add.value.args[0]) == lp.target.id and len(fresh) == 1 and A.text(fresh[0]) == "set()":
                    import copy as _copy
                    n = _copy.copy(n)
                    n._loop_guard = lp
                    guards.setdefault("duplicates", []).append((n, "t" in sources(lp.iter), f"seen-set scan over `{A.text(lp.iter)}`"))
                    continue
            cat, ok, detail = classify_guard(n.test, inl, sources)
            if cat is None:
                unknown.append((n, detail))
            else:
                guards.setdefault(cat, []).append((n, ok, detail))
    required = ["signature", "D-positive-int", "t-int", "count", "canonical", "duplicates"]
    if unknown and "D-positive-int" not in guards:
        # decide the guard on the dimensions semantically: all guards that mention D (and nothing else that varies) are evaluated by
        # the mini evaluator on witness tuples; every invalid witness must be rejected by one of them, no valid one by any
        from ..core.minieval import evaluate, CannotEvaluate
        dname = None
        for nm in ("D", "self.D"):
            if any(nm in {A.text(x) for x in ast.walk(n.test)} for n, _d in unknown):
                dname = nm
        cand = [(n, d) for n, d in unknown if dname and dname in {A.text(x) for x in ast.walk(n.test)}]
        if cand:
            invalid = [(-1,), (0,), (1.5,), (2, -3), (2, 0), (1, 2.5)]
            valid = [(1,), (2, 3), (7,)]
            try:
                def rejects(Dv):
                    return any(bool(evaluate(n.test, {dname: Dv, "D": Dv})) for n, _d in cand)
                missed = [w for w in invalid if not rejects(w)]
                wrongly = [w for w in valid if rejects(w)]
            except CannotEvaluate as e:
                raise AnalysisError(f"Leg.__post_init__: guard on D `{A.short(cand[0][0].test)}` cannot be evaluated ({e}) — cannot decide G5")
            n0 = cand[0][0]
            if missed or wrongly:
                guards.setdefault("D-positive-int", []).append((n0, False, f"evaluated on witness tuples: accepts the invalid dimensions {missed}"
                                                               + (f", rejects the valid {wrongly}" if wrongly else "") + "; required: every entry an integer > 0"))
            else:
                guards.setdefault("D-positive-int", []).append((n0, True, "evaluated on witness tuples: rejects non-positive and non-integer entries"))
            unknown = [(n, d) for n, d in unknown if (n, d) not in cand]
    if unknown and "t-int" not in guards:
        # same for the integrality guard on the charges: evaluated on witness tuples of flattened charges
        from ..core.minieval import evaluate as _ev, CannotEvaluate as _CE
        tname = None
        for nm in ("t", "self.t"):
            if any(nm in {A.text(x) for x in ast.walk(n.test)} for n, _d in unknown):
                tname = nm
        cand = [(n, d) for n, d in unknown if tname and tname in {A.text(x) for x in ast.walk(n.test)}
                and not ({"D", "self.D", "lD", "nsym"} & {A.text(x) for x in ast.walk(n.test)})]
        if cand:
            invalid = [(0.5,), (1, 2.5), (-1.5, 0)]
            valid = [(0,), (-2, 3), (1, 0, -1)]
            try:
                def rejects_t(tv):
                    return any(bool(_ev(n.test, {tname: tv, "t": tv})) for n, _d in cand)
                missed = [w for w in invalid if not rejects_t(w)]
                wrongly = [w for w in valid if rejects_t(w)]
            except _CE as e:
                raise AnalysisError(f"Leg.__post_init__: guard on t `{A.short(cand[0][0].test)}` cannot be evaluated ({e}) — cannot decide G5")
            n0 = cand[0][0]
            if missed or wrongly:
                guards.setdefault("t-int", []).append((n0, False, f"evaluated on witness tuples: accepts the non-integer charges {missed}"
                                                      + (f", rejects the valid {wrongly}" if wrongly else "")))
            else:
                guards.setdefault("t-int", []).append((n0, True, "evaluated on witness tuples: rejects non-integer charges, accepts integers of either sign"))
            unknown = [(n, d) for n, d in unknown if (n, d) not in cand]
    if unknown:
        missing = [r for r in required if r not in guards]
        if missing:
            raise AnalysisError("Leg.__post_init__: unrecognised guard shape(s) "
                                + "; ".join(f"{pi.where(n)} `{A.short(n.test)}` ({d})" for n, d in unknown)
                                + f" while guard(s) {missing} were not found — cannot decide G5")
    for cat in required:
        if cat not in guards:
            chk.bad("G5", pi, f"guard:{cat}", f"validation guard `{cat}` is missing from Leg.__post_init__ "
                    f"(every `if ..: raise` of the function was recognised as another guard)")
            continue
        for n, ok, detail in guards[cat]:
            if ok is False:
                chk.bad("G5", (pi, n), n.test, f"guard `{cat}` is weaker than required: {detail}")
                continue
            # must dominate the stores (raise inside the if body -> passing the test node is what matters;
            # the raise must be unconditional inside the body)
            raise_uncond = any(isinstance(b, ast.Raise) for b in n.body)
            dom = all(cfg.must_pass([s], [getattr(n, "_loop_guard", None) or n.test]) for s in store_stmts)
            # and be under `not self._verified` only (not under another condition that can be false)
            if raise_uncond and dom:
                chk.ok("G5", (pi, n), n.test, {"guard": cat, "detail": detail, "dominates_stores": True})
            else:
                chk.bad("G5", (pi, n), n.test, f"guard `{cat}` does not dominate the stores of t/D")
    # the canonical test compares against the group's own normal form with the leg's signature twice
    fuse_calls = [c for c in A.calls(fn) if A.callee_attr(c) == "fuse"]
    ok = False
    def _sig(e):
        """`self.s`, through a local (`s = int(self.s)`) and an int() conversion"""
        e = inl.expand(e) if isinstance(e, ast.Name) else e
        while isinstance(e, ast.Call) and A.call_name(e) == "int" and len(e.args) == 1:
            e = e.args[0]
        return A.text(e)
    for c in fuse_calls:
        if len(c.args) == 3 and isinstance(c.args[1], (ast.Tuple, ast.List)) and len(c.args[1].elts) == 1 and _sig(c.args[1].elts[0]) == "self.s" \
                and _sig(c.args[2]) == "self.s":
            ok = True
        elif len(c.args) == 3 and A.text(c.args[1]) in ("(1,)", "[1]") and A.neg_const(c.args[2]) == 1:
            ok = True
    chk.verdict("G5", pi, fuse_calls[0] if fuse_calls else "sym.fuse", True if ok else False,
                "canonical form is not computed as fuse(t, (s,), s) (= R_m(t))")
    # sorted storage: t and D stored from the same sorted(zip(newt, D))
    vt = inl.expand(stores["t"][-1].args[2])
    vd = inl.expand(stores["D"][-1].args[2])
    tt, td = A.text(vt), A.text(vd)
    # the two stored values select the first / second components of ONE sorted list of (charge, dimension) pairs: decided by
    # evaluating the store expressions with that list replaced by a witness (any spelling: dict(..).keys(), `for tn, _ in ..`, x[0] ..)
    from ..core.minieval import evaluate, CannotEvaluate

    def sorted_pairs(v):
        return [c for c in ast.walk(v) if isinstance(c, ast.Call) and A.call_name(c) == "sorted" and c.args
                and isinstance(c.args[0], ast.Call) and A.call_name(c.args[0]) == "zip" and len(c.args[0].args) == 2 and not c.keywords]
    sp_t, sp_d = sorted_pairs(vt), sorted_pairs(vd)
    if "sorted(" not in tt or "sorted(" not in td:
        chk.bad("G5", (pi, stores["t"][-1]), stores["t"][-1], "charges/dimensions are stored without sorting "
                f"(t <- {A.short(vt)})")
    elif len(sp_t) == 1 and len(sp_d) == 1:
        witness = [((0, 1), 5), ((0, 2), 6), ((3, 0), 7)]

        def select(v, call):
            class Rp(ast.NodeTransformer):
                def visit_Call(self, c):
                    if c is call:
                        return ast.Name(id="__S__", ctx=ast.Load())
                    return self.generic_visit(c)
            import copy as _copy
            v2 = _copy.deepcopy(v)
            call2 = sorted_pairs(v2)[0]
            call = call2
            return evaluate(Rp().visit(v2), {"__S__": list(witness)})
        try:
            got_t, got_d = select(vt, sp_t[0]), select(vd, sp_d[0])
        except CannotEvaluate as e:
            raise AnalysisError(f"Leg.__post_init__: cannot evaluate sorted storage ({e}): t <- {tt} ; D <- {td}")
        same = A.text(sp_t[0]) == A.text(sp_d[0])
        ok_t = tuple(got_t) == tuple(w[0] for w in witness)
        ok_d = tuple(got_d) == tuple(w[1] for w in witness)
        if same and ok_t and ok_d:
            chk.ok("G5", (pi, stores["t"][-1]), "t, D <- components of one sorted(zip(charges, dimensions))",
                   {"t": tt[:120], "D": td[:120], "same_permutation": True})
        else:
            chk.bad("G5", (pi, stores["t"][-1]), stores["t"][-1], "Leg.__post_init__: t and D are not stored as the first / second components of one and the same "
                    f"sorted list of (charge, dimension) pairs (t <- {A.short(vt, 80)} ; D <- {A.short(vd, 80)}): the dimensions no longer belong to "
                    f"their charges, or the order is not the sorted one", {"same_sorted_list": same, "t_selects_charges": ok_t, "D_selects_dimensions": ok_d})
    else:
        raise AnalysisError(f"Leg.__post_init__: cannot normalise sorted storage: t <- {tt} ; D <- {td}")

    # ---- G6 conj
    chk.rule("G6", "Leg.conj flips s only and conjugates the fusion history; _Fusion.conj negates s only", floor=2)
    cj = leg.methods.get("conj")
    chk.require(cj is not None, "Leg.conj not found")
    rets = A.returns_of(cj.node)
    chk.require(len(rets) == 1 and isinstance(rets[0].value, ast.Call), "Leg.conj: single `return Leg(...)` expected")
    call = rets[0].value
    chk.require(A.call_name(call) == "Leg", "Leg.conj does not construct a Leg")
    fields = ["sym", "s", "t", "D", "hf", "_verified"]
    got = {}
    for i, a_ in enumerate(call.args):
        got[fields[i]] = A.text(a_)
    for k in call.keywords:
        got[k.arg] = A.text(k.value)
    want = {"sym": {"self.sym"}, "s": {"-self.s", "-1 * self.s", "self.s * -1"}, "t": {"self.t"}, "D": {"self.D"},
            "hf": {"self.hf.conj()"}}
    bad = [f"{k}={got.get(k)}" for k, v in want.items() if got.get(k) not in v]
    chk.verdict("G6", (cj, call), call, True if not bad else False,
                f"Leg.conj is not the dual space with the same sectors: {bad}", got)
    # LegMeta.conj: the meta-fused leg is mapped to its dual as well -- the result carries s = -self.s (and conjugated sub-legs)
    lm = prog.module("yastn.tensor._legs").classes.get("LegMeta")
    if lm is not None and "conj" in lm.methods:
        mc = lm.methods["conj"]
        mrets = A.returns_of(mc.node)
        okm = False
        why = "no constructor / replace call returned"
        if len(mrets) == 1 and isinstance(mrets[0].value, ast.Call):
            c_ = mrets[0].value
            sk = A.kwarg(c_, "s")
            okm = sk is not None and A.text(sk) in ("-self.s", "-1 * self.s", "self.s * -1")
            why = f"s={A.text(sk) if sk is not None else '<inherited from self>'}"
            lk = A.kwarg(c_, "legs")
            okl = lk is not None and ("conj" in A.text(A.Inliner(mc.node).expand(lk)))
            if lk is not None and not okl:
                # the sub-legs collected by a loop: `acc = []; for leg in self.legs: acc.append(leg.conj())` ... legs=tuple(acc)
                for nm_ in [x.id for x in ast.walk(lk) if isinstance(x, ast.Name)]:
                    for ap in ast.walk(mc.node):
                        if isinstance(ap, ast.Call) and isinstance(ap.func, ast.Attribute) and ap.func.attr in ("append", "extend") \
                                and isinstance(ap.func.value, ast.Name) and ap.func.value.id == nm_ and ap.args and "conj" in A.text(ap.args[0]):
                            okl = True
            chk.verdict("G6", (mc, c_), "LegMeta.conj conjugates its sub-legs", True if okl else False, "LegMeta.conj does not conjugate the legs it is fused from")
        chk.verdict("G6", (mc, mrets[0] if mrets else mc.node), f"LegMeta.conj returns the dual: {why}", True if okm else False,
                    f"LegMeta.conj: the returned meta-fused leg has {why}, not s=-self.s: conj() of a meta-fused leg is not the dual space "
                    f"(leg.conj() != a.conj().get_legs(n))")
    fus = prog.cls("yastn.tensor._merging", "_Fusion")
    fc = fus.methods.get("conj")
    chk.require(fc is not None, "_Fusion.conj not found")
    r = A.returns_of(fc.node)
    okf = len(r) == 1 and A.text(r[0].value) in ("self._replace(s=tuple((-x for x in self.s)))",
                                                  "self._replace(s=tuple([-x for x in self.s]))")
    if not okf and len(r) == 1:
        # tolerate other variable names
        okf = bool(re.fullmatch(r"self\._replace\(s=tuple\(\(?-(\w+) for \1 in self\.s\)?\)\)", A.text(r[0].value)))
    chk.verdict("G6", fc, r[0].value if r else "return", True if okf else False,
                "_Fusion.conj is not `negate every entry of s and nothing else`")

    # ---- G7 who may bypass
    chk.rule("G7", "_verified=True (validation bypass) is passed only by Leg.conj", floor=1)
    sites = []
    for f in prog.all_funcs():
        for c in A.calls(f.node):
            nm = A.callee_attr(c)
            kw = A.kwarg(c, "_verified")
            pos6 = nm == "Leg" and len(c.args) >= 6
            if kw is not None or pos6:
                sites.append((f, c))
            if nm == "replace" and A.kwarg(c, "_verified") is not None:
                sites.append((f, c))
    # module-level code too
    for m in prog.modules.values():
        for st in m.tree.body:
            if not isinstance(st, (ast.FunctionDef, ast.ClassDef)):
                for c in [n for n in ast.walk(st) if isinstance(n, ast.Call)]:
                    if A.kwarg(c, "_verified") is not None:
                        sites.append((None, c))
    seen = set()
    for f, c in sites:
        if id(c) in seen:
            continue
        seen.add(id(c))
        if f is not None and f is cj:
            chk.ok("G7", (f, c), c)
        else:
            site = (f, c) if f is not None else ("?", "<module>", c.lineno)
            chk.bad("G7", site, c, "validation of Leg is bypassed (_verified=True) outside Leg.conj")
    # object.__setattr__ on Leg instances elsewhere would also bypass validation
    for f in prog.all_funcs():
        if f.cls is leg:
            continue
        for c in A.calls(f.node):
            if A.call_name(c) == "object.__setattr__" and len(c.args) == 3 and isinstance(c.args[1], ast.Constant) \
                    and c.args[1].value in ("t", "D", "s", "sym", "hf") and f.cls is not None and \
                    f.cls.name in ("Leg",):
                chk.bad("G7", (f, c), c, "frozen Leg field written outside __post_init__")


def check_fuse_purity(chk, syms, base):
    """G8: fuse/zero/add_charges do not write their arguments and never return (a view of) them written in place."""
    from ..core.alias import Engine, is_shared_param
    chk.rule("G8", "fuse()/add_charges() never write into their arguments (charges arrays are caller-owned)", floor=7)
    mods = sorted({c.module.name for c in syms} | {base.module.name})
    eng = Engine(chk.prog, mods, backends=()).run()
    for ci in list(syms) + [base]:
        for nm in ("fuse", "add_charges", "zero"):
            f = ci.methods.get(nm)
            if f is None or f.cls is not ci:
                continue
            s = eng.summary(f)
            bad = {pi: p for pi, p in s.mut.items() if p}
            if bad:
                fa = eng.analysis(f)
                for pi in bad:
                    ev = next((e for e in fa.events if any(is_shared_param(o) and o[0][1] == pi for o in e.targets)), None)
                    chk.bad("G8", (f, ev.node if ev else f.node), ev.text if ev else f"{ci.name}.{nm}",
                            f"{ci.name}.{nm}() writes into its argument `{f.params[pi]}` ({ev.kind if ev else ''}): the caller's "
                            f"charge array is changed, e.g. Leg validation then compares the already-reduced charges")
            else:
                chk.ok("G8", f, f"{ci.name}.{nm}", sample=False)


def run(chk):
    chk.explanation = (
        "Static normal-form analysis (no execution): the body of every shipped symmetry's fuse() is abstractly "
        "interpreted to the normal form R_m(new_signature * (charges . signatures)); the moduli m are compared with "
        "those parsed from SYM_ID. By the meta-theorem in sa/props/c19.py (ring homomorphism Z->Z_m, idempotent "
        "reduction) the abelian-group axioms, canonical range and grouping law then hold for ALL integer charges. "
        "Leg: the six validation guards are located in the CFG of __post_init__, their comparison strength is "
        "normalised and each must dominate the stores of t/D; storage is sorted; conj flips only s; the "
        "_verified bypass is used by Leg.conj alone.")
    chk.trusted_base = ["meta-theorem NF => group axioms (paper proof in module docstring)",
                        "numpy floored-mod semantics of np.mod/%/np.remainder",
                        "python ast parser"]
    chk.assumptions = ["user-defined symmetries are outside 'shipped with yastn'",
                       "charges are integer arrays (Leg guard t-int; tensor layer passes int64 arrays)"]
    base, syms = shipped_symmetries(chk)
    chk.require(len(syms) >= 7, f"only {len(syms)} shipped symmetry classes found (7 confirmed by hand)")
    check_fuse_purity(chk, syms, base)
    check_leg(chk)
    check_wrapper(chk, base)
    check_fuse(chk, base, syms)
    chk.extra["symmetries"] = [c.name for c in syms]


# liveness mutants (thorough tier): (name, relpath, old, new, expect_rule)  plain-text edits on a scratch copy
MUTANTS = [
    ('Z2xU1.fuse: identity shortcut without reduction', 'yastn/sym/sym_Z2xU1.py', '        teff = new_signature * (charges.swapaxes(1,2) @ signatures)', '        if charges.shape[1] == 1 and signatures[0] == new_signature:\n            return charges[:, 0, :].copy()\n        teff = new_signature * (charges.swapaxes(1,2) @ signatures)', 'G2'),
    ('LegMeta.conj keeps the signature', 'yastn/tensor/_legs.py', '        return LegMeta(sym=self.sym, s=-self.s, t=self.t, D=self.D, mf=self.mf, legs=legs_conj)', '        return LegMeta(sym=self.sym, s=self.s, t=self.t, D=self.D, mf=self.mf, legs=legs_conj)', 'G6'),
    ('Z2 component from the parity of the U1 components', 'yastn/sym/sym_U1xU1xZ2.py', '        teff[:, 2] = np.mod(teff[:, 2], 2)', '        teff[:, 2] = np.mod(teff[:, 0] + teff[:, 1], 2)', 'G1'),
    ("Z3 modulus 2", "yastn/sym/sym_Z3.py", "@ signatures), 3)", "@ signatures), 2)", "G2"),
    ("Z2xU1 wrong column", "yastn/sym/sym_Z2xU1.py", "teff[:, 0] = np.mod(teff[:, 0], 2)", "teff[:, 1] = np.mod(teff[:, 1], 2)", "G2"),
    ("Z2 drop sign", "yastn/sym/sym_Z2.py", "np.mod(new_signature * (charges.swapaxes(1, 2) @ signatures), 2)",
     "np.mod(charges.swapaxes(1, 2) @ signatures, 2)", "G1"),
    ("Z2 reduce before sign", "yastn/sym/sym_Z2.py", "np.mod(new_signature * (charges.swapaxes(1, 2) @ signatures), 2)",
     "new_signature * np.mod(charges.swapaxes(1, 2) @ signatures, 2)", "G3"),
    ("U1xU1xZ2 no reduction", "yastn/sym/sym_U1xU1xZ2.py", "        teff[:, 2] = np.mod(teff[:, 2], 2)\n", "", "G2"),
    ("Leg D >= 0", "yastn/tensor/_legs.py", "int(x) == x and x > 0 for x in D", "int(x) == x and x >= 0 for x in D", "G5"),
    ("Leg no duplicate test", "yastn/tensor/_legs.py",
     "            if len(set(newt)) != len(newt):\n                raise YastnError('Repeated charge index.')\n", "", "G5"),
    ("Leg unsorted", "yastn/tensor/_legs.py", "tD = dict(sorted(zip(newt, D)))", "tD = dict(zip(newt, D))", "G5"),
    ("Leg signature 0 allowed", "yastn/tensor/_legs.py", "if self.s not in (-1, 1):", "if self.s not in (-1, 0, 1):", "G5"),
    ("conj keeps s", "yastn/tensor/_legs.py", "return Leg(sym=self.sym, s=-self.s, t=self.t", "return Leg(sym=self.sym, s=self.s, t=self.t", "G6"),
    ("bypass elsewhere", "yastn/tensor/_legs.py", "return Leg(self.sym, self.s, self.t, self.D)",
     "return Leg(self.sym, self.s, self.t, self.D, _verified=True)", "G7"),
    ("add_charges default sig", "yastn/sym/sym_abelian.py", "signatures = (1,) * len(charges)", "signatures = (-1,) * len(charges)", "G4"),
]
BENIGN = [
    ("Z3 % operator", "yastn/sym/sym_Z3.py", "np.mod(new_signature * (charges.swapaxes(1, 2) @ signatures), 3)",
     "(new_signature * (charges.swapaxes(1, 2) @ signatures)) % 3"),
    ("Z2xU1 rename+augassign", "yastn/sym/sym_Z2xU1.py", "        teff[:, 0] = np.mod(teff[:, 0], 2)\n        return teff",
     "        teff[:, 0] %= 2\n        out = teff\n        return out"),
    ("Leg 0 < x", "yastn/tensor/_legs.py", "int(x) == x and x > 0 for x in D", "int(x) == x and not x <= 0 for x in D"),
]
