"""C01 — tensor algebra agrees with dense linear algebra (partial; engine E3 `legspace` + backend rules).

Decided (necessary conditions, for all inputs): every per-leg lookup is made with an index of the right space
(L1), helpers that use leg positions as native axes get materialised tensors (L2), s/hfs/mfs of results are built
from the same leg sequences (L3), negative axes are normalised before use (L4), results that reset the lazy
permutation carry permuted metadata (I2), user-ordered per-leg data meets native fields only after the permutation
was accounted for (I3), binary kernels promote dtypes (B1) and update views of the output buffer in place (B2),
N-ary operations treat all operands alike (V1).
Not decided: block pairing arithmetic inside the _meta_* functions, numerical content, ncon/einsum scheduling.
"""
from __future__ import annotations

import ast

from . import e3
from ..core import astutil as A

EXPLANATION = (
    "Index-space typing (abstract interpretation on the CFG of every tensor-layer function): each leg index is typed META "
    "(position in mfs), LNAT (position in trans) or NAT (position in struct.s/hfs/t/D) from how it was produced "
    "(_unpack_axes, X.trans[..], range(X.ndim), ...), joins of different spaces give USER ('unmapped on some path'), and every "
    "per-leg lookup, slice bound and typed helper argument is a sink that requires one space; only definite mismatches alarm. "
    "Companion rules: dominance of consume_transpose before positional helpers, taint of struct/hfs by reads of `trans` where the "
    "lazy permutation is reset, segment-wise comparison of the s/hfs/mfs constructions, normalisation of negative axes, dtype "
    "promotion and in-place update of output-buffer views in backend kernels. The three index spaces coincide on freshly "
    "created tensors without meta-fusion — what the tests use — so these mistakes are invisible there and wrong for every "
    "lazily transposed or meta-fused operand.")


def run(chk):
    chk.explanation = EXPLANATION + (" Sequences paired position by position (zip) must be enumerated in the same leg order (tensor-leg order vs native storage order; engine seqorder with helper summaries); the meta-fusion trees of each factor must come from the meta-leg group from which its native legs were unpacked.")
    chk.trusted_base = ["python ast parser", "CFG builder", "seed table of index spaces for API parameters (sa/props/e3.py SEEDS/CALLEES)"]
    chk.assumptions = ["untyped (literal) indices are not judged", "block pairing inside _meta_* functions is value-level and not decided"]
    e3.run_L1(chk)
    e3.run_I7(chk)
    e3.run_I9(chk)
    e3.run_L2(chk)
    e3.run_L3(chk)
    e3.run_L4(chk)
    e3.run_I2(chk)
    e3.run_I3(chk)
    e3.run_I4(chk)
    e3.run_B(chk)
    e3.run_V1(chk)

    e3.run_I5(chk, ("yastn.tensor", "yastn.initialize"))
    run_B3(chk)
    run_B4(chk)
    e3.run_I6(chk, ("yastn.tensor", "yastn.initialize"))
    from . import e10
    e3.run_I10(chk, ("yastn.tensor",))
    e10.run_U(chk, ("yastn.tensor", "yastn.initialize"), floor1=5, floor2=1)


def run_B4(chk):
    """B4: the element-wise kernels with a `cutoff` (rsqrt, reciprocal) invert the elements whose *magnitude* exceeds it: every comparison with
    `cutoff` has abs(data) on the other side.  Comparing the signed (or complex) value zeroes every negative element, however large."""
    prog = chk.prog
    chk.rule("B4", "element-wise kernels with a cutoff compare the magnitude of the data with it", floor=2)
    m = prog.modules["yastn.backend.backend_np"]
    for f in prog.all_funcs():
        if f.module is not m or "cutoff" not in f.params:
            continue
        inl = A.Inliner(f.node)
        for c in ast.walk(f.node):
            if isinstance(c, ast.Compare) and len(c.ops) == 1 and any(isinstance(x, ast.Name) and x.id == "cutoff" for x in ast.walk(c)):
                other = c.left if any(isinstance(x, ast.Name) and x.id == "cutoff" for x in ast.walk(c.comparators[0])) else c.comparators[0]
                o = inl.expand(other)
                mag = isinstance(o, ast.Call) and (A.call_name(o) or "").split(".")[-1] in ("abs", "absolute")
                chk.verdict("B4", (f, c), f"{f.name}: `{A.text(c)}`", True if mag else False,
                            f"backend kernel {f.name}(): `{A.text(c)}` compares the signed value with the cutoff: negative (and complex with non-positive real part) "
                            f"elements are treated as below the cutoff and set to zero instead of being inverted, also for cutoff=0")


def run_B3(chk):
    """B3: `_join_contiguous_slices(slcs_a, slcs_b)` turns two parallel lists of block slices into pairs of longer slices for the flat
    kernels (vdot, addition, flip_charges).  Two consecutive entries may be merged only if they are contiguous in *both* data arrays
    (zero gap); merging across a gap makes the kernel read the elements in the gap -- blocks the other operand does not have -- as
    part of the common blocks.  The function is interpreted (sa/core/minieval: assignments, for, if, append, return; nothing of the
    repository is executed) on witness slice lists and compared with the definition."""
    from ..core.minieval import run_function, CannotEvaluate
    prog = chk.prog
    chk.rule("B3", "_join_contiguous_slices merges exactly the runs that are contiguous in both slice lists (interpreted on witnesses)", floor=1)
    f = prog.func("yastn.tensor._auxiliary", "_join_contiguous_slices")

    def reference(sa_, sb_):
        if not sa_:
            return ()
        out = []
        ca, cb = sa_[0], sb_[0]
        for x, y in zip(sa_[1:], sb_[1:]):
            if ca[1] == x[0] and cb[1] == y[0]:
                ca, cb = (ca[0], x[1]), (cb[0], y[1])
            else:
                out.append((ca, cb))
                ca, cb = x, y
        out.append((ca, cb))
        return tuple(out)
    W = [((), ()),
         (((0, 2),), ((3, 5),)),
         (((0, 2), (2, 4), (4, 7)), ((0, 2), (2, 4), (4, 7))),
         (((0, 2), (4, 6), (6, 8)), ((0, 2), (4, 6), (6, 8))),          # equal non-zero gaps in both: not contiguous
         (((0, 2), (2, 4)), ((0, 2), (5, 7))),                          # contiguous in a only
         (((0, 2), (3, 5)), ((0, 2), (2, 4))),                          # contiguous in b only
         (((0, 2), (4, 6), (9, 12)), ((1, 3), (5, 7), (10, 13)))]
    bad = None
    try:
        for sa_, sb_ in W:
            got = run_function(f.node, {f.params[0]: sa_, f.params[1]: sb_})
            got = tuple(tuple(tuple(p_) for p_ in pr) for pr in got) if got is not None else None
            if got != reference(sa_, sb_):
                bad = (sa_, sb_, got, reference(sa_, sb_))
                break
    except CannotEvaluate as e:
        raise AnalysisError(f"_join_contiguous_slices cannot be interpreted on witness slice lists ({e})")
    chk.verdict("B3", f, f"_join_contiguous_slices on {len(W)} witness pairs of slice lists", True if bad is None else False,
                f"_join_contiguous_slices({bad[0]}, {bad[1]}) gives {bad[2]}, contiguity in both lists gives {bad[3]}: entries separated by a gap are merged, "
                f"so vdot / addition read the elements in the gap (a block only one operand has) as part of the common blocks -- wrong values "
                f"whenever both operands own a private block of equal size between two common ones" if bad else "")

MUTANTS = [
    ('vdot: charge of the contraction taken between the two conjugations', [('yastn/tensor/_contractions.py', '    if conj[1] == 1:\n        b = b.conj()\n\n', '    n_c = a.config.sym.add_charges(a.struct.n, b.struct.n)\n    if conj[1] == 1:\n        b = b.conj()\n\n'), ('yastn/tensor/_contractions.py', '    n_c = a.config.sym.add_charges(a.struct.n, b.struct.n)\n    if n_c == a.config.sym.zero():', '    if n_c == a.config.sym.zero():')], 'I10'),
    ('reciprocal compares the signed value with the cutoff', 'yastn/backend/backend_np.py', '    ind = np.abs(data) > cutoff\n    res[ind] = 1. / data[ind]', '    ind = data > cutoff\n    res[ind] = 1. / data[ind]', 'B4'),
    ('single operand returned before the amplitudes are applied', 'yastn/tensor/_algebra.py', '        tensors = [v * amp if amp is not None else v for v, amp in zip(tensors, amplitudes)]\n\n    if len(tensors) == 1:\n        return tensors[0]\n', '    if len(tensors) == 1:\n        return tensors[0]\n\n    if amplitudes is not None:\n        tensors = [v * amp if amp is not None else v for v, amp in zip(tensors, amplitudes)]\n', 'U7'),
    ('slices merged across equal gaps', 'yastn/tensor/_auxiliary.py', '        if tmp_a[1] == sl_a[0] and tmp_b[1] == sl_b[0]:', '        if sl_a[0] - tmp_a[1] == sl_b[0] - tmp_b[1]:', 'B3'),
    ('__contains__ in storage order', 'yastn/tensor/_output.py', '    nsym = a.config.sym.NSYM\n    if len(key) == a.ndim_n * nsym:  # key follows the order of tensor legs; account for lazy transpose, as in __getitem__\n        key = sum((key[n * nsym: (n + 1) * nsym] for n in np.argsort(a.trans).tolist()), ())\n    return key in a.struct.t', '    return key in a.struct.t', 'I9'),
    ("contracted axes of a and b exchanged in the kernel call", "yastn/tensor/_contractions.py", "        data, struct_c, slices_c = _tensordot_nf(a, b, nout_a, nin_a, nin_b, nout_b)", "        data, struct_c, slices_c = _tensordot_nf(a, b, nout_a, nin_b, nin_a, nout_b)", "U4"),
    ("unfuse counts in native order", "yastn/tensor/_merging.py", "        nlegs = [nlegs[hi] for hi in axes_hf]  # axes_mf and axes_uf follow the order of tensor legs\n", "        nlegs = [nlegs[hi] for hi in sorted(axes_hf)]\n", "I4"),
    ("qr Qhfs from meta axes", "yastn/tensor/linalg.py", "    Qhfs = tuple(a.hfs[ii] for ii in out_hl) + (_Fusion(s=(sQ,)),)", "    Qhfs = tuple(a.hfs[ii] for ii in out_ml) + (_Fusion(s=(sQ,)),)", "L1"),
    ("broadcast forgets trans", "yastn/tensor/_contractions.py", "        ax = sum(b.mfs[ii][0] for ii in range(ax))  # unpack mfs\n        ax = b.trans[ax]  # transpose\n        if b.hfs[ax].tree != (1,):\n            raise YastnError('Second tensor`s leg specified in axes cannot be fused.')",
     "        ax = sum(b.mfs[ii][0] for ii in range(ax))  # unpack mfs\n        if b.hfs[ax].tree != (1,):\n            raise YastnError('Second tensor`s leg specified in axes cannot be fused.')", "L1"),
    ("qr Rhfs from left legs", "yastn/tensor/linalg.py", "    Rhfs = (_Fusion(s=(-sQ,)),) + tuple(a.hfs[ii] for ii in out_hr)", "    Rhfs = (_Fusion(s=(-sQ,)),) + tuple(a.hfs[ii] for ii in out_hl)", "L3"),
    ("trace hfs in native order", "yastn/tensor/_contractions.py", "    hfs = tuple(a.hfs[ax] for ax in out)\n", "    hfs = tuple(a.hfs[ax] for ax in range(a.ndim_n) if ax not in order)\n", "L3"),
    ("sub ignores B dtype", "yastn/backend/backend_np.py", "def sub(Adata, Bdata, meta, Dsize):\n    dtype = np.promote_types(Adata.dtype, Bdata.dtype)", "def sub(Adata, Bdata, meta, Dsize):\n    dtype = Adata.dtype", "B1"),
    ("remove_leg normalises late", "yastn/tensor/_single.py", "    axis = axis % a.ndim\n\n    mfs = a.mfs[:axis] + a.mfs[axis + 1:]", "    mfs = a.mfs[:axis] + a.mfs[axis + 1:]\n    axis = axis % a.ndim", "L4"),
    ("tensordot nout from meta", "yastn/tensor/_contractions.py", "    nout_a = tuple(ii for ii in a.trans if ii not in nin_a)  # outgoing native legs", "    nout_a = tuple(ii for ii in a.trans if ii not in in_a)  # outgoing native legs", "L1"),
    ("drop consume before embed", "yastn/tensor/_output.py", "    a = a.consume_transpose()\n    #\n    legs_a = list(a.get_legs(native=native))", "    legs_a = list(a.get_legs(native=native))", "L2"),
    ("dot accumulates into a temporary", "yastn/backend/backend_np.py", "            block += np.dot(Ad[ta], Bd[tb])", "            block = block + np.dot(Ad[ta], Bd[tb])", "B2"),
    ("get_legs native path skips trans", "yastn/tensor/_output.py", "            nax, = _unpack_axes(a.mfs, (ax,))\n\n        nax = tuple(a.trans[ax] for ax in nax)", "            nax, = _unpack_axes(a.mfs, (ax,))\n            nax = tuple(a.trans[ax] for ax in nax)", "L1"),
]
BENIGN = [
    ("unfuse counts via tuple comprehension", "yastn/tensor/_merging.py", "        nlegs = [nlegs[hi] for hi in axes_hf]  # axes_mf and axes_uf follow the order of tensor legs\n", "        nlegs = tuple(nlegs[hi] for hi in axes_hf)\n"),
    ("materialise first", "yastn/tensor/_contractions.py", "    in_0, in_1 = _clear_axes(*axes)  # contracted legs\n    if set(in_0) & set(in_1):", "    in_0, in_1 = _clear_axes(*axes)  # contracted legs\n    in_0, in_1 = tuple(in_0), tuple(in_1)\n    if set(in_0) & set(in_1):"),
    ("rename locals in drop_leg_history", "yastn/tensor/_single.py", "    uaxes, = _unpack_axes(a.mfs, axes)\n    uaxes = tuple(a.trans[ax] for ax in uaxes)\n    hfs = tuple(_Fusion(s=(a.struct.s[n],)) if n in uaxes else a.hfs[n] for n in range(a.ndim_n))",
     "    laxes, = _unpack_axes(a.mfs, axes)\n    naxes = tuple(a.trans[ax] for ax in laxes)\n    hfs = tuple(_Fusion(s=(a.struct.s[n],)) if n in naxes else a.hfs[n] for n in range(a.ndim_n))"),
]
