"""C16 — metadata caches are transparent (engine E2 `cachepure`, using E1).

Argument.  functools.lru_cache returns what the undecorated function would return iff
 (i) the function's result is determined by its arguments (purity of a *closed* function: the key
     `lru_cache` builds from all positional/keyword arguments then covers every input), and
 (ii) nobody alters a stored result (the very object is handed out on every hit).
Both are finite syntactic obligations over the memoised bodies, their transitive repository callees and
the consumers of their results.

  K1  closedness & purity of every memoised function and of every repository function it (transitively) calls
  K2  arguments at every call site of a memoised function are hashable by value (no list/dict/set/ndarray)
  K3  no consumer writes into (any part of) a value that came out of a cache   [alias engine, root "C"]
  K4  the resize / clear / info tables of _control_lru pair each function with itself and are complete
"""
from __future__ import annotations

import ast
import builtins

from ..core import astutil as A
from ..core.alias import Engine, is_shared_param
from ..core.errors import AnalysisError
from ..core.loader import ClassInfo, FuncInfo, ModuleInfo

SCOPE_PREFIXES = ("yastn.tensor", "yastn.initialize", "yastn._split_combine_dict", "yastn._from_dict",
                  "yastn.backend.backend_np", "yastn.krylov", "yastn.sym")
# consumers in yastn.tn.fpeps.envs are not analysed (see sa/props/c15.py and DESIGN §9.9): cached metadata never leaves the tensor
# layer except as the immutable struct/slices NamedTuples of result tensors
THOROUGH_EXTRA = ("yastn.tn.mps", "yastn.tn.fpeps._", "yastn.tn.fpeps.gates", "yastn.operators")

BUILTINS = set(dir(builtins))
# external callables that are value-pure (result depends on argument values only)
PURE_EXTERNAL_PREFIX = ("numpy.", "itertools.", "operator.", "functools.reduce", "collections.", "math.", "numbers.",
                        "typing.", "dataclasses.", "opt_einsum.", "abc.")
IMPURE_EXTERNAL = ("numpy.random", "random.", "time.", "os.environ", "os.getenv", "os.urandom", "datetime.", "uuid.",
                   "secrets.", "socket.", "sys.argv", "os.getpid", "tempfile.")
IMPURE_BUILTINS = {"open", "input", "id", "globals", "locals", "vars", "exec", "eval", "__import__", "breakpoint"}
IMPURE_ATTR_CALLS = {"rand", "randn", "randint", "random", "normal", "uniform", "seed", "shuffle", "choice", "rand_like",
                     "getenv", "time", "perf_counter", "now", "today", "urandom"}
DECLARED_SINKS = {"log.info", "log.debug", "log.warning", "logging.info", "logging.debug", "warnings.warn"}


def cached_functions(prog):
    out = []
    for f in prog.all_funcs():
        if any("lru_cache" in d for d in f.decorators):
            out.append(f)
    return out


def scope_modules(prog, tier):
    pre = SCOPE_PREFIXES + (THOROUGH_EXTRA if tier == "thorough" else ())
    return [m for m in prog.modules if any(m == p or m.startswith(p) for p in pre) and "torch" not in m]


# ----------------------------------------------------------------------------- K1
class Purity:
    def __init__(self, chk, prog):
        self.chk, self.prog = chk, prog
        self.seen = {}

    def local_names(self, fn):
        names = set(A.local_bindings(fn))
        a = fn.args
        names |= {x.arg for x in a.posonlyargs + a.args + a.kwonlyargs}
        if a.vararg:
            names.add(a.vararg.arg)
        if a.kwarg:
            names.add(a.kwarg.arg)
        names |= A.comp_targets(fn)
        for n in ast.walk(fn):
            if isinstance(n, (ast.FunctionDef, ast.AsyncFunctionDef)) and n is not fn:
                names.add(n.name)
                aa = n.args
                names |= {x.arg for x in aa.posonlyargs + aa.args + aa.kwonlyargs}
                names |= set(A.local_bindings(n))
        return names

    MUTATORS = {"append", "extend", "insert", "pop", "remove", "clear", "update", "sort", "reverse", "setdefault",
                "popitem", "add", "discard", "__setitem__", "__delitem__", "fill"}

    def written_anywhere(self, modname, name):
        """Is the module-level object `modname.name` ever written (item/attribute store, mutator call, rebinding
        through `global`) by any code of the package?"""
        key = (modname, name)
        if not hasattr(self, "_written"):
            self._written = {}
        if key in self._written:
            return self._written[key]
        res = False
        for m in self.prog.modules.values():
            if name not in m.source:
                continue
            for n in ast.walk(m.tree):
                base = None
                if isinstance(n, (ast.Subscript, ast.Attribute)) and isinstance(n.ctx, (ast.Store, ast.Del)):
                    base = n.value
                elif isinstance(n, ast.Call) and isinstance(n.func, ast.Attribute) and n.func.attr in self.MUTATORS:
                    base = n.func.value
                elif isinstance(n, ast.AugAssign):
                    base = n.target
                elif isinstance(n, ast.Global) and name in n.names and m.name == modname:
                    res = True
                if base is None:
                    continue
                while isinstance(base, (ast.Subscript, ast.Attribute)) and not (isinstance(base, ast.Attribute) and A.chain(base)):
                    base = base.value
                r = None
                if isinstance(base, ast.Name) and base.id == name:
                    r = self.prog.resolve(m, name)
                elif isinstance(base, ast.Attribute) and base.attr == name:
                    r = self.prog.resolve_attr_chain(m, base)
                if isinstance(r, tuple) and r[0] == "const" and r[1].name == modname:
                    res = True
        self._written[key] = res
        return res

    def immutable_const(self, vals, modname=None, name=None):
        """module-level constant: assigned once (or once per branch of a try/except import fallback), and either an
        immutable literal, or a list/dict/set literal that no code of the package ever writes."""
        if len(vals) != 1:
            return False
        v = vals[0]
        if isinstance(v, (ast.Set, ast.List, ast.Dict)) and modname is not None:
            return not self.written_anywhere(modname, name)

        def imm(x):
            if isinstance(x, ast.Constant):
                return True
            if isinstance(x, ast.Tuple):
                return all(imm(e) for e in x.elts)
            if isinstance(x, ast.UnaryOp):
                return imm(x.operand)
            if isinstance(x, ast.BinOp):
                return imm(x.left) and imm(x.right)
            if isinstance(x, ast.Call) and A.call_name(x) in ("frozenset", "namedtuple", "NamedTuple", "TypeVar",
                                                              "logging.getLogger", "getLogger"):
                return True
            return False
        return imm(v)

    def check(self, f: FuncInfo, root: FuncInfo, depth=0):
        """Returns list of problems [(node, message)] for f (memoised per function) and recurses into callees."""
        key = id(f.node)
        if key in self.seen:
            return self.seen[key]
        problems = []
        self.seen[key] = problems
        fn = f.node
        m = f.module
        locs = self.local_names(fn)
        for n in A.walk_local(fn, include_self=False) if False else ast.walk(fn):
            if isinstance(n, (ast.Global, ast.Nonlocal)):
                if isinstance(n, ast.Global):
                    problems.append((n, f"`global {', '.join(n.names)}`: reads/writes module state"))
            elif isinstance(n, ast.Name) and isinstance(n.ctx, ast.Load):
                if n.id in locs or n.id in BUILTINS:
                    if n.id in IMPURE_BUILTINS and n.id not in locs:
                        problems.append((n, f"impure builtin `{n.id}`"))
                    continue
                r = self.prog.resolve(m, n.id)
                if r is None:
                    problems.append((n, f"free name `{n.id}` cannot be resolved (not a def/class/import/constant of the module)"))
                elif isinstance(r, tuple) and r[0] == "const":
                    if not self.immutable_const(r[2], r[1].name, n.id):
                        problems.append((n, f"reads module-level variable `{r[1].name}.{n.id}` which is mutable or rebindable "
                                            f"(its value is not part of the cache key)"))
                elif isinstance(r, tuple) and r[0] == "external":
                    if any(r[1].startswith(p) for p in IMPURE_EXTERNAL):
                        problems.append((n, f"impure external `{r[1]}`"))
            elif isinstance(n, ast.Attribute) and isinstance(n.ctx, ast.Load):
                ch = A.chain(n)
                if ch and ch[0] not in locs and ch[0] not in BUILTINS:
                    base = self.prog.resolve(m, ch[0])
                    if isinstance(base, ModuleInfo):
                        r = self.prog.resolve_attr_chain(m, n)
                        if isinstance(r, tuple) and r[0] == "const" and not self.immutable_const(r[2]):
                            problems.append((n, f"reads mutable module attribute `{'.'.join(ch)}`"))
                    elif isinstance(base, tuple) and base[0] == "external":
                        full = base[1] + "." + ".".join(ch[1:])
                        if any(full.startswith(p) for p in IMPURE_EXTERNAL):
                            problems.append((n, f"impure external `{full}`"))
            elif isinstance(n, ast.Call):
                nm = A.call_name(n)
                attr = A.callee_attr(n)
                if nm in DECLARED_SINKS:
                    continue
                if isinstance(n.func, ast.Attribute) and attr in IMPURE_ATTR_CALLS:
                    ch = A.chain(n.func)
                    if ch and (len(ch) >= 2 and ch[-2] in ("backend", "random", "np", "time", "os") or ch[0] in ("random", "time")):
                        problems.append((n, f"impure call `{A.short(n.func)}` (random numbers / clock / environment)"))
        # callees
        for c in A.calls(fn):
            tgt = self.resolve_callee(f, c, locs)
            for g in tgt:
                if any("lru_cache" in d for d in g.decorators) and g is not root:
                    sub = self.check(g, g, depth + 1)     # another memoised function: judged on its own
                else:
                    sub = self.check(g, root, depth + 1)
                for node, msg in sub:
                    problems.append((c, f"calls {g.short}() which is not closed/pure: {msg} [{g.where(node)}]"))
        return problems

    def resolve_callee(self, f, call, locs):
        fnc = call.func
        if isinstance(fnc, ast.Name) and fnc.id not in locs:
            r = self.prog.resolve(f.module, fnc.id)
            if isinstance(r, FuncInfo):
                return [r]
            return []
        if isinstance(fnc, ast.Attribute):
            ch = A.chain(fnc)
            if ch and ch[0] not in locs:
                r = self.prog.resolve_attr_chain(f.module, fnc)
                if isinstance(r, FuncInfo):
                    return [r]
        return []


def rule_K1(chk, eng, cached):
    chk.rule("K1", "memoised functions (and their transitive repository callees) are closed and pure; they write "
             "neither their arguments nor module state", floor=20)
    pur = Purity(chk, chk.prog)
    law_users = []
    for f in cached:
        probs = pur.check(f, f)
        s = eng.summary(f) if id(f.node) in eng.summ else None
        if s is not None:
            for pi, paths in s.mut.items():
                if paths:
                    ev = None
                    fa = eng.analysis(f)
                    for e in fa.events:
                        if any(is_shared_param(o) and o[0][1] == pi for o in e.targets):
                            ev = e
                            break
                    probs = probs + [(ev.node if ev else f.node,
                                      f"writes its argument `{f.params[pi]}` ({ev.kind if ev else 'via callee'}: "
                                      f"`{ev.text[:70] if ev else ''}`) — arguments are cache keys owned by the caller")]
            for g in s.gwrites:
                probs = probs + [(f.node, f"writes module-level object {g}")]
        # group law: fuse/zero/NSYM only through a parameter
        uses_law = False
        for c in A.calls(f.node):
            if A.callee_attr(c) in ("fuse", "zero", "add_charges") and isinstance(c.func, ast.Attribute):
                ch = A.chain(c.func)
                uses_law = True
                if not ch or ch[0] not in f.params:
                    probs = probs + [(c, f"group law `{A.short(c.func)}` is not reached through a parameter: the symmetry "
                                         f"would not be part of the cache key")]
        if uses_law:
            law_users.append(f.name)
        if probs:
            seen = set()
            for node, msg in probs:
                k = (getattr(node, "lineno", 0), msg)
                if k in seen:
                    continue
                seen.add(k)
                chk.bad("K1", (f, node), node if not isinstance(node, ast.FunctionDef) else f.name,
                        f"memoised function {f.name}() is not a function of its arguments alone: {msg}")
        else:
            chk.ok("K1", f, f"{f.name}({', '.join(f.params)})",
                   {"uses_group_law": uses_law, "params": f.params})
    chk.extra["memoised_functions_using_the_group_law"] = sorted(law_users)
    chk.extra["functions_checked_for_purity"] = len(pur.seen)


# ----------------------------------------------------------------------------- K2
def rule_K2(chk, eng, cached):
    chk.rule("K2", "arguments at call sites of memoised functions are hashable by value (tuple/NamedTuple/int/str/"
             "class), never list/dict/set/ndarray", floor=25)
    cached_ids = {id(f.node): f for f in cached}
    n_sites = 0
    for f in eng.funcs:
        fa = eng.analyses.get(id(f.node))
        if fa is None:
            continue
        for call, targets in fa.call_sites:
            hit = [t for t in targets if id(t.node) in cached_ids]
            if not hit:
                continue
            n_sites += 1
            node = fa.cfg.node_of.get(_stmt_of(fa, call))
            st = dict(fa.instate.get(node.id, {})) if node is not None and node.id in fa.instate else dict(fa.union_state)
            bad = []
            unknown = 0
            exprs = list(call.args) + [k.value for k in call.keywords if k.arg is not None]
            for a in exprs:
                if isinstance(a, ast.Starred):
                    continue
                try:
                    v = fa.ev(a, st)
                except Exception:
                    unknown += 1
                    continue
                mutable = {"list", "dict", "set", "arr"} & set(v.k)
                if isinstance(a, (ast.List, ast.Dict, ast.Set, ast.ListComp, ast.DictComp, ast.SetComp)):
                    mutable = mutable or {"display"}
                if mutable and not ({"tuple", "imm"} & set(v.k)):
                    bad.append((a, sorted(mutable)))
                elif not v.k:
                    unknown += 1
            if bad:
                for a, kinds in bad:
                    chk.bad("K2", (f, call), call, f"argument `{A.short(a, 50)}` of memoised {hit[0].name}() is a {kinds[0]}: "
                            f"unhashable (TypeError) or keyed by identity instead of value")
            else:
                chk.ok("K2", (f, call), call, {"callee": hit[0].name, "args_of_unknown_kind": unknown}, sample=n_sites <= 3)


def _stateful_class(ci):
    """A repository class whose instances are keyed by identity and can change after construction: some method other than the
    constructors stores into an attribute (or into the storage behind an attribute) of its receiver, and the class defines no
    value equality (NamedTuples / frozen dataclasses / classes with __eq__ are value-keyed and are judged by K5)."""
    if any(A.text(b_) in ("NamedTuple", "typing.NamedTuple", "tuple") for b_ in ci.node.bases):
        return None
    if any("dataclass" in A.text(d) and "frozen=True" in A.text(d) for d in ci.node.decorator_list):
        return None
    if "__eq__" in ci.methods or "__hash__" in ci.methods:
        return None
    for m in ci.methods.values():
        if m.name in ("__init__", "__post_init__", "__new__", "__setstate__") or not m.params:
            continue
        recv = m.params[0]
        for n in ast.walk(m.node):
            tg = []
            if isinstance(n, ast.Assign):
                tg = n.targets
            elif isinstance(n, (ast.AugAssign, ast.AnnAssign)):
                tg = [n.target]
            for t in tg:
                for e in (t.elts if isinstance(t, (ast.Tuple, ast.List)) else [t]):
                    base = e
                    while isinstance(base, ast.Subscript):
                        base = base.value
                    if isinstance(base, ast.Attribute) and isinstance(base.value, ast.Name) and base.value.id == recv:
                        return f"{ci.name}.{m.name} writes `{A.short(e, 40)}`"
    return None


def rule_K2b(chk, eng, cached):
    """lru_cache keys on == / hash of the arguments.  An argument that is an instance of a class with identity hash and in-place
    API (Tensor, MPS, PEPS ...) makes the key *identity*: after an in-place update of that object (set_block, __setitem__ ...) the
    same key returns the value computed for the old state."""
    for f in cached:
        fa = eng.analyses.get(id(f.node))
        if fa is None:
            continue
        for p_ in f.params:
            cl = fa.receiver_classes(ast.Name(id=p_, ctx=ast.Load()))
            if not cl:
                chk.ok("K2", f, f"{f.name}({p_}): no repository class offers the attributes used on it", sample=False)
                continue
            why = [(c_, _stateful_class(c_)) for c_ in cl]
            if all(w for _, w in why):
                chk.bad("K2", f, f"{f.name}({p_})", f"memoised function {f.name}() takes `{p_}`, an instance of {'/'.join(sorted({c_.name for c_, _ in why}))} "
                        f"(inferred from the attributes used on it: {sorted(fa.attr_use.get(p_, set()))[:6]}): such objects hash by identity and are "
                        f"updated in place ({why[0][1]}), so the cache returns the value computed for the old state after an in-place update of "
                        f"the very same object")
            else:
                chk.ok("K2", f, f"{f.name}({p_}): value-keyed or stateless class", sample=False)


def _stmt_of(fa, node):
    if not hasattr(fa, "_parent"):
        fa._parent = A.enclosing_map(fa.node)
    cur = node
    while cur is not None:
        if cur in fa.cfg.node_of:
            return cur
        cur = fa._parent.get(cur)
    return None


# ----------------------------------------------------------------------------- K3
def rule_K3(chk, eng, cached):
    chk.rule("K3", "no consumer writes into a value obtained from a cache (it is the stored object itself)", floor=25)
    # obligations: every call site of a memoised function; the result is tracked by the alias engine under root C
    writes_by_site = {}
    for fi, ev, o in eng.cached_writes:
        writes_by_site.setdefault(o[0][1], []).append((fi, ev, o))
    cached_ids = {id(f.node): f for f in cached}
    for f in eng.funcs:
        fa = eng.analyses.get(id(f.node))
        if fa is None:
            continue
        for call, targets in fa.call_sites:
            hit = [t for t in targets if id(t.node) in cached_ids]
            if hit:
                chk.ok("K3", (f, call), call, {"memoised": hit[0].name, "result_tracked_as": f"C:{hit[0].qualname}"},
                       sample=False)
    reported = set()
    for qual, lst in writes_by_site.items():
        for fi, ev, o in lst:
            key = (fi.qualname, getattr(ev.node, "lineno", 0), qual)
            if key in reported:
                continue
            reported.add(key)
            via = ""
            if ev.via:
                cal, cpi, m, sites = ev.via
                via = f" (through {cal.short}(), which writes its parameter `{cal.params[cpi] if cpi is not None else '?'}`" \
                      f"{('.' + '.'.join(m)) if m else ''}: " + "; ".join(f"{r}:{ln} `{t[:50]}`" for r, ln, t in sites[:2]) + ")"
            chk.bad("K3", (fi, ev.node), ev.text,
                    f"{fi.short}() writes into {('part `.' + '.'.join(o[2]) + '` of ') if o[2] else ''}the value returned by the "
                    f"memoised {qual.rsplit('.', 1)[-1]}(): {ev.kind}{via}; the next cache hit returns the altered object")
    # K3 (b): a stored value must be re-readable: no one-shot iterator / generator inside a memoised result
    from ..core.loader import FuncInfo

    def one_shot_elements(g, depth=0, seen=()):
        """(return stmt, element) of g's return values that may be one-shot iterators; follows calls of repository helpers"""
        ga = eng.analyses.get(id(g.node))
        out = []
        if ga is None or depth > 3 or id(g.node) in seen:
            return out
        for r_ in A.returns_of(g.node):
            if r_.value is None:
                continue
            nd = ga.cfg.node_of.get(r_)
            st_ = dict(ga.instate.get(nd.id, {})) if nd is not None and nd.id in ga.instate else dict(ga.union_state)
            for e_ in (r_.value.elts if isinstance(r_.value, (ast.Tuple, ast.List)) else [r_.value]):
                v_ = ga.ev(e_, st_)
                if "gen" in v_.k and not ({"list", "tuple", "dict", "set", "arr", "imm"} & set(v_.k)):
                    out.append((r_, e_))
                elif isinstance(e_, ast.Call) and isinstance(e_.func, ast.Name):
                    tgt = chk.prog.resolve(g.module, e_.func.id)
                    if isinstance(tgt, FuncInfo) and one_shot_elements(tgt, depth + 1, seen + (id(g.node),)):
                        out.append((r_, e_))
        return out
    for f in cached:
        fa = eng.analyses.get(id(f.node))
        if fa is None:
            continue
        flagged = one_shot_elements(f)
        for r in A.returns_of(f.node):
            if r.value is None:
                continue
            bad = [e for r_, e in flagged if r_ is r]
            if bad:
                for e in bad:
                    chk.bad("K3", (f, r), r, f"memoised {f.name}() returns a one-shot iterator/generator in `{A.short(e, 40)}`: "
                            f"the first consumer exhausts the stored object and every later cache hit sees it empty")
            else:
                chk.ok("K3", (f, r), r, {"re_readable": True}, sample=False)
    # exposed-mutable classification (informational)
    exposed = []
    for f in cached:
        kinds = set()
        for r in A.returns_of(f.node):
            if r.value is None:
                continue
            for n in ast.walk(r.value):
                if isinstance(n, ast.Name):
                    for st, val, kind in A.local_bindings(f.node).get(n.id, []):
                        if isinstance(val, (ast.List, ast.ListComp, ast.Dict, ast.DictComp)) or \
                                (isinstance(val, ast.Call) and A.call_name(val) in ("list", "dict", "np.zeros", "np.ones", "np.array")):
                            kinds.add(n.id)
        if kinds:
            exposed.append({"function": f.name, "mutable_parts": sorted(kinds)})
    chk.extra["memoised_functions_returning_mutable_parts"] = exposed


# ----------------------------------------------------------------------------- K4
def rule_K5(chk, prog):
    """Objects that serve as components of cache keys keep the equality they are created with.  The memoised functions are keyed by
    symmetry classes (identity of the class object), configs, _struct/_slc/_Fusion named tuples (structural equality).  A
    user-defined __eq__/__hash__ on the symmetry classes or their metaclass (e.g. "equal if SYM_ID is equal") lets two different
    group laws share one key; on the named tuples it could identify different structures."""
    chk.rule("K5", "types whose objects are cache-key components define no __eq__/__hash__ of their own", floor=10)
    n = 0
    for m in prog.modules.values():
        if not (m.name.startswith("yastn.sym") or m.name in ("yastn.tensor._auxiliary", "yastn.tensor._legs", "yastn.tensor._merging")):
            continue
        for ci in m.classes.values():
            is_key_type = m.name.startswith("yastn.sym") or any("NamedTuple" in b_ for b_ in ci.bases) or ci.name in ("_Fusion", "_struct", "_slc", "_config")
            if not is_key_type:
                continue
            n += 1
            own = [nm for nm in ("__eq__", "__hash__", "__ne__") if nm in ci.methods and ci.methods[nm].cls is ci]
            chk.verdict("K5", ci.methods[own[0]] if own else (next(iter(ci.methods.values())) if ci.methods else chk.prog.func("yastn.tensor._control_lru", "clear_cache")),
                        f"{m.name}.{ci.name}: equality is the default one", False if own else True,
                        f"class {ci.name} defines {', '.join(own)}: objects of this type are components of lru_cache keys; with a user-defined equality two "
                        f"different symmetries / structures can share one cache entry and receive each other's metadata")
    chk.require(n >= 10, f"K5: only {n} key types found")


def rule_K4(chk, prog, cached):
    chk.rule("K4", "set_cache_maxsize/clear_cache/get_cache_info pair every memoised function with itself and "
             "enumerate all memoised functions of the imported modules", floor=40)
    ctl = prog.module("yastn.tensor._control_lru")
    fs = {n: prog.func("yastn.tensor._control_lru", n) for n in ("set_cache_maxsize", "clear_cache", "get_cache_info")}

    def target_of(node):
        """`_mod.f` -> FuncInfo of the memoised function (through the importing module's namespace)"""
        r = prog.resolve_attr_chain(ctl, node)
        return r if isinstance(r, FuncInfo) else None

    def table_loop(st, kind):
        """`for m, n in TABLE: <body>` over a module-level literal table of (module alias, 'function name') pairs, with the body
        addressing the function as getattr(m, n) on both sides -> list of synthesised `alias.name` attribute nodes, else None"""
        if not (isinstance(st, ast.For) and isinstance(st.target, ast.Tuple) and len(st.target.elts) == 2 and not st.orelse and len(st.body) == 1):
            return None
        mv, nv = (A.text(e) for e in st.target.elts)
        tab = st.iter
        if isinstance(tab, ast.Name):
            ds = [n.value for n in ctl.tree.body if isinstance(n, ast.Assign) and A.text(n.targets[0]) == tab.id]
            if len(ds) != 1:
                return None
            tab = ds[0]
        if not isinstance(tab, (ast.Tuple, ast.List)):
            return None
        b0 = st.body[0]
        ga = f"getattr({mv}, {nv})"
        if kind == "set":
            c = b0.value if isinstance(b0, ast.Expr) else None
            ok = isinstance(c, ast.Call) and A.call_name(c) == "setattr" and len(c.args) == 3 and A.text(c.args[0]) == mv and A.text(c.args[1]) == nv \
                and A.text(c.args[2]) == f"lru_cache(maxsize)({ga}.__wrapped__)"
        else:
            c = b0.value if isinstance(b0, ast.Expr) else None
            ok = isinstance(c, ast.Call) and A.text(c.func) == f"{ga}.cache_clear" and not c.args
        if not ok:
            return None
        out = []
        for e in tab.elts:
            if not (isinstance(e, (ast.Tuple, ast.List)) and len(e.elts) == 2 and isinstance(e.elts[1], ast.Constant) and isinstance(e.elts[1].value, str)):
                return None
            out.append(ast.copy_location(ast.Attribute(value=e.elts[0], attr=e.elts[1].value, ctx=ast.Load()), e))
        return out

    sets = {}
    # set_cache_maxsize: M.f = lru_cache(maxsize)(M.f.__wrapped__)
    seen = []
    for st in A.strip_docstring(fs["set_cache_maxsize"].node.body):
        tl = table_loop(st, "set")
        if tl is not None:
            # getattr(m, n) on both sides of setattr: every entry is re-wrapped with its own body by construction
            for at in tl:
                t = target_of(at)
                if t is None or not any("lru_cache" in d for d in t.decorators):
                    chk.bad("K4", (fs["set_cache_maxsize"], st), A.text(at), f"`{A.text(at)}` (entry of the table) is not a memoised function of that module")
                    continue
                seen.append(t)
                chk.ok("K4", (fs["set_cache_maxsize"], st), A.text(at), {"function": t.qualname}, sample=len(seen) <= 2)
            continue
        if not (isinstance(st, ast.Assign) and len(st.targets) == 1 and isinstance(st.targets[0], ast.Attribute)):
            chk.bad("K4", (fs["set_cache_maxsize"], st), st, "statement is not of the form `M.f = lru_cache(maxsize)(M.f.__wrapped__)`")
            continue
        lhs = st.targets[0]
        v = st.value
        ok_shape = isinstance(v, ast.Call) and isinstance(v.func, ast.Call) and A.call_name(v.func) in ("lru_cache", "functools.lru_cache") \
            and len(v.args) == 1 and isinstance(v.args[0], ast.Attribute) and v.args[0].attr == "__wrapped__" \
            and len(v.func.args) == 1 and A.text(v.func.args[0]) == "maxsize"
        if not ok_shape:
            chk.bad("K4", (fs["set_cache_maxsize"], st), st, "right-hand side is not `lru_cache(maxsize)(<function>.__wrapped__)`")
            continue
        rhs = v.args[0].value
        if A.text(lhs) != A.text(rhs):
            chk.bad("K4", (fs["set_cache_maxsize"], st), st,
                    f"`{A.text(lhs)}` is re-wrapped with the body of `{A.text(rhs)}`: after a resize one metadata function "
                    f"silently computes another one's result")
            continue
        t = target_of(lhs)
        if t is None or not any("lru_cache" in d for d in t.decorators):
            chk.bad("K4", (fs["set_cache_maxsize"], st), st, f"`{A.text(lhs)}` is not a memoised function of that module")
            continue
        seen.append(t)
        chk.ok("K4", (fs["set_cache_maxsize"], st), st, {"function": t.qualname}, sample=len(seen) <= 2)
    sets["set_cache_maxsize"] = seen
    # clear_cache: M.f.cache_clear()
    seen = []
    def local_table(fn, node):
        """literal tuple/list behind `node` (a Name bound once locally or at module level, or the literal itself) -> element nodes"""
        if isinstance(node, ast.Name):
            ds = [v for st_, v, k in A.local_bindings(fn).get(node.id, []) if k == "assign" and v is not None]
            if not ds:
                ds = [n.value for n in ctl.tree.body if isinstance(n, ast.Assign) and A.text(n.targets[0]) == node.id]
            if len(ds) != 1:
                return None
            node = ds[0]
        return list(node.elts) if isinstance(node, (ast.Tuple, ast.List)) else None
    cbody = A.strip_docstring(fs["clear_cache"].node.body)
    # form: <table> = (M.f, M.g, ...); for v in <table>: v.cache_clear()
    loops = [st for st in cbody if isinstance(st, ast.For) and isinstance(st.target, ast.Name) and len(st.body) == 1 and isinstance(st.body[0], ast.Expr)
             and isinstance(st.body[0].value, ast.Call) and A.text(st.body[0].value.func) == f"{st.target.id}.cache_clear"]
    if loops and all(st in loops or (isinstance(st, ast.Assign) and isinstance(st.value, (ast.Tuple, ast.List))) for st in cbody):
        for lp in loops:
            els = local_table(fs["clear_cache"].node, lp.iter)
            if els is None:
                raise AnalysisError("clear_cache: table of memoised functions is not a literal")
            for e in els:
                t = target_of(e)
                if t is None:
                    chk.bad("K4", (fs["clear_cache"], lp), A.text(e), f"`{A.text(e)}` (entry of the table) is not a memoised function")
                    continue
                seen.append(t)
                chk.ok("K4", (fs["clear_cache"], lp), A.text(e), sample=False)
        cbody = []
    for st in cbody:
        tl = table_loop(st, "clear")
        if tl is not None:
            for at in tl:
                t = target_of(at)
                if t is None:
                    chk.bad("K4", (fs["clear_cache"], st), A.text(at), f"`{A.text(at)}` (entry of the table) is not a memoised function")
                    continue
                seen.append(t)
                chk.ok("K4", (fs["clear_cache"], st), A.text(at), sample=False)
            continue
        c = st.value if isinstance(st, ast.Expr) else None
        if not (isinstance(c, ast.Call) and isinstance(c.func, ast.Attribute) and c.func.attr == "cache_clear"):
            chk.bad("K4", (fs["clear_cache"], st), st, "statement is not `M.f.cache_clear()`")
            continue
        t = target_of(c.func.value)
        if t is None:
            chk.bad("K4", (fs["clear_cache"], st), st, f"`{A.text(c.func.value)}` is not a memoised function")
            continue
        seen.append(t)
        chk.ok("K4", (fs["clear_cache"], st), st, sample=False)
    sets["clear_cache"] = seen
    # get_cache_info: {"name": M.f.cache_info(), ...}
    seen = []
    rets = A.returns_of(fs["get_cache_info"].node)
    if len(rets) == 1 and isinstance(rets[0].value, ast.Dict):
        for k, v in zip(rets[0].value.keys, rets[0].value.values):
            if isinstance(v, ast.Call) and isinstance(v.func, ast.Attribute) and v.func.attr == "cache_info":
                t = target_of(v.func.value)
                if t is not None:
                    seen.append(t)
                    chk.ok("K4", (fs["get_cache_info"], v), v, sample=False)
                    continue
            chk.bad("K4", (fs["get_cache_info"], v), v, "entry is not `M.f.cache_info()` of a memoised function")
    elif len(rets) == 1 and isinstance(rets[0].value, ast.DictComp) and isinstance(rets[0].value.generators[0].target, ast.Tuple) \
            and len(rets[0].value.generators[0].target.elts) == 2:
        dc = rets[0].value
        kn, fn_ = (A.text(e) for e in dc.generators[0].target.elts)
        els = local_table(fs["get_cache_info"].node, dc.generators[0].iter)
        if els is None or A.text(dc.key) != kn or A.text(dc.value) != f"{fn_}.cache_info()":
            raise AnalysisError("get_cache_info: table-driven form not recognised")
        for e in els:
            t = target_of(e.elts[1]) if isinstance(e, (ast.Tuple, ast.List)) and len(e.elts) == 2 else None
            if t is not None:
                seen.append(t)
                chk.ok("K4", (fs["get_cache_info"], e), A.text(e), sample=False)
            else:
                chk.bad("K4", (fs["get_cache_info"], e), A.text(e), "entry is not (name, <memoised function>)")
    else:
        raise AnalysisError("get_cache_info no longer returns a dict display")
    sets["get_cache_info"] = seen
    # completeness: memoised functions of the modules imported by _control_lru
    imported = set()
    for local, imp in ctl.imports.items():
        r = prog.resolve(ctl, local)
        if isinstance(r, ModuleInfo):
            imported.add(r.name)
    expected = {id(f.node): f for f in cached if f.module.name in imported}
    for name, lst in sets.items():
        got = {id(t.node) for t in lst}
        dup = len(lst) - len(got)
        missing = [f for k, f in expected.items() if k not in got]
        f0 = fs[name]
        if dup:
            chk.bad("K4", f0, f"{name}: duplicates", f"{name} lists {dup} function(s) twice (and therefore misses others)")
        for mf in missing:
            chk.bad("K4", f0, f"{name}: {mf.name}",
                    f"memoised function {mf.module.name}.{mf.name} is not handled by {name}(): "
                    + ("its cache survives clear_cache()" if name == "clear_cache" else
                       "it keeps its old size/content after set_cache_maxsize()" if name == "set_cache_maxsize" else
                       "it is not reported"))
        if not dup and not missing:
            chk.ok("K4", f0, f"{name}: complete", {"functions": len(lst)})


K8_EXCEPTIONS = {
    ("yastn/backend/backend_np.py", "rng"): "holder of the random generator; random_seed() replaces it by request of the user (documented), it memoises nothing",
}
_K8_MUT = ("setdefault", "append", "add", "update", "extend", "pop", "clear", "insert", "popitem", "remove", "discard", "appendleft")
_K8_FIXTURE = """
_labels = {}
def f(key, order):
    d = _labels.get(key)
    if d is None:
        d = {v: i for i, v in enumerate(order)}
    _labels[key] = d
    return d
"""


def _module_memo_writes(tree):
    """[(function, global name, node)]: a function stores into a mutable container created at module level (or rebinds a module
    name declared `global`): state that survives the call and that neither lru_cache's key discipline nor clear_cache() knows."""
    glob = {}
    for st in tree.body:
        if isinstance(st, (ast.Assign, ast.AnnAssign)):
            tg = st.targets[0] if isinstance(st, ast.Assign) else st.target
            v = st.value
            if isinstance(tg, ast.Name) and v is not None and (
                    isinstance(v, (ast.Dict, ast.List, ast.Set, ast.DictComp, ast.ListComp, ast.SetComp)) or
                    (isinstance(v, ast.Call) and isinstance(v.func, (ast.Name, ast.Attribute)) and
                     (v.func.id if isinstance(v.func, ast.Name) else v.func.attr) in ("dict", "list", "set", "defaultdict", "OrderedDict", "deque", "WeakValueDictionary"))):
                glob[tg.id] = st
    out = []
    for fn in ast.walk(tree):
        if not isinstance(fn, (ast.FunctionDef, ast.AsyncFunctionDef)):
            continue
        gl = {x for n in ast.walk(fn) if isinstance(n, ast.Global) for x in n.names}
        local = ({a.arg for a in fn.args.posonlyargs + fn.args.args + fn.args.kwonlyargs} |
                 ({fn.args.vararg.arg} if fn.args.vararg else set()) | ({fn.args.kwarg.arg} if fn.args.kwarg else set()) |
                 {n.id for n in ast.walk(fn) if isinstance(n, ast.Name) and isinstance(n.ctx, ast.Store)}) - gl
        for n in ast.walk(fn):
            nm = None
            if isinstance(n, ast.Subscript) and isinstance(n.ctx, (ast.Store, ast.Del)) and isinstance(n.value, ast.Name):
                nm = n.value.id
            elif isinstance(n, ast.Call) and isinstance(n.func, ast.Attribute) and n.func.attr in _K8_MUT and isinstance(n.func.value, ast.Name):
                nm = n.func.value.id
            elif isinstance(n, ast.Name) and isinstance(n.ctx, ast.Store) and n.id in gl:
                nm = n.id
                if nm not in glob:
                    out.append((fn, nm, n))
                    continue
            if nm in glob and nm not in local:
                out.append((fn, nm, n))
    return out


def rule_K8(chk, prog):
    chk.rule("K8", "no function keeps state in a module-level container (a memo outside lru_cache: its key is not checked by K2 and "
                   "clear_cache()/set_cache_maxsize() do not reach it)", floor=100)
    if [x[1] for x in _module_memo_writes(ast.parse(_K8_FIXTURE))] != ["_labels"]:
        raise AnalysisError("K8: the built-in positive fixture is not recognised (rule broken)")
    for mname, m in sorted(prog.modules.items()):
        if "torch" in mname or not mname.startswith(("yastn.tensor", "yastn.initialize", "yastn.sym", "yastn.backend", "yastn.krylov",
                                                      "yastn.tn", "yastn.operators", "yastn._")):
            continue
        hits = _module_memo_writes(m.tree)
        seen = set()
        by_node = {id(x.node): x for x in prog.all_funcs() if x.module is m}
        bad_fns = set()
        for fn, nm, node in hits:
            why = K8_EXCEPTIONS.get((m.relpath, nm))
            if why:
                if (fn.name, nm) not in seen:
                    chk.note(f"K8 named exception {m.relpath}:{nm}: {why}")
                seen.add((fn.name, nm))
                continue
            bad_fns.add(id(fn))
            f = by_node.get(id(fn))
            site = (f, node) if f is not None else (m.relpath, fn.name, node.lineno)
            chk.bad("K8", site, f"{fn.name}: `{A.short(node, 50)}` -> module-level `{nm}`",
                    f"{fn.name}() stores into the module-level container `{nm}`: a hand-written memo -- what it returns later depends on earlier "
                    f"calls whenever its key omits an argument the value was computed from (e.g. einsum's label table keyed by the subscripts "
                    f"but built from `order`), and clear_cache() / set_cache_maxsize(0) do not empty it")
        for f in by_node.values():
            if id(f.node) not in bad_fns:
                chk.ok("K8", f, f"{f.short}: no module-level stores", sample=False)


def rule_K9(chk, prog):
    """Structures handed out by memoised functions are shared between tensors on a cache hit and distinct otherwise: an identity test
    (`a.struct is b.struct`) therefore answers differently with a warm, a cold or a disabled cache.  Equality is the only comparison
    that is independent of the cache."""
    chk.rule("K9", "tensor metadata (struct, slices, hfs, mfs) is compared by value, never by identity", floor=0)
    META = {"struct", "slices", "hfs", "mfs", "trans", "_trans", "t", "D", "s", "n"}
    fx = ast.parse("def f(a, b):\n    return b.struct is a.struct\n")
    def hits_of(tree):
        out = []
        # `x is y or x == y` is a shortcut of the equality test: the answer does not depend on the identity
        shortcut = set()
        for n in ast.walk(tree):
            if isinstance(n, ast.BoolOp) and isinstance(n.op, ast.Or):
                eqs = {frozenset((A.text(c.left), A.text(c.comparators[0]))) for c in n.values
                       if isinstance(c, ast.Compare) and len(c.ops) == 1 and isinstance(c.ops[0], ast.Eq)}
                for c in n.values:
                    if isinstance(c, ast.Compare) and len(c.ops) == 1 and isinstance(c.ops[0], ast.Is) \
                            and frozenset((A.text(c.left), A.text(c.comparators[0]))) in eqs:
                        shortcut.add(id(c))
        for n in ast.walk(tree):
            if isinstance(n, ast.Compare) and any(isinstance(o, (ast.Is, ast.IsNot)) for o in n.ops) and id(n) not in shortcut:
                sides = [n.left] + n.comparators
                if all(isinstance(x, ast.Attribute) and x.attr in META for x in sides):
                    out.append(n)
        return out
    if len(hits_of(fx)) != 1:
        raise AnalysisError("K9: the built-in positive fixture is not recognised (rule broken)")
    for f in prog.all_funcs():
        if not f.module.name.startswith(("yastn.tensor", "yastn.initialize", "yastn.tn.mps", "yastn.krylov")) or "torch" in f.module.name:
            continue
        if " is " not in A.text(f.node):
            continue
        hs = hits_of(f.node)
        for n in hs:
            chk.bad("K9", (f, n), A.text(n), f"{f.short}(): `{A.text(n)}` tests the *identity* of metadata objects; memoised _meta_* functions return the "
                    f"first caller's object on a hit and a new equal one on a miss, so the answer -- and the path taken -- depends on the state of the caches")
        if not hs:
            chk.ok("K9", f, f"{f.short}: no identity test of metadata", sample=False)


def run(chk):
    prog = chk.prog
    chk.explanation = (
        "Static purity/closedness analysis of every lru_cache-decorated function and of its transitive repository "
        "callees (free names, module state, impure calls, argument writes via the alias engine), hashability of "
        "arguments at all call sites, interprocedural tracking of every value handed out by a cache (alias root C) "
        "with any write into it reported, and structural checks of the resize/clear/info tables. A pure closed "
        "function memoised on all its arguments is observationally the function itself, whatever the history of "
        "calls, cache sizes or clears.")
    chk.trusted_base = ["functools.lru_cache semantics (key = all arguments by ==/hash)",
                        "value-purity of whitelisted numpy/itertools/operator functions",
                        "NamedTuple __eq__/__hash__ of _config/_struct/_slc/_Fusion (no override found: checked by K1's scan)",
                        "alias engine sa/core/alias.py"]
    chk.assumptions = ["config.fermionic is a bool or tuple of bools (typed=False equates True and 1)",
                       "unresolved method calls on local values (listed) are value-pure"]
    cached = cached_functions(prog)
    chk.require(len(cached) >= 20, f"only {len(cached)} lru_cache functions found (20 confirmed by hand)")
    scope = scope_modules(prog, chk.tier)
    eng = Engine(prog, scope)
    eng.track_cached = True
    eng.run()
    chk.extra["memoised_functions"] = [f.qualname for f in cached]
    chk.extra["functions_analysed"] = len(eng.funcs)
    rule_K1(chk, eng, cached)
    rule_K2(chk, eng, cached)
    rule_K2b(chk, eng, cached)
    from .c05 import flag_vector_rule
    chk.rule("K7", "key components have one encoding: the fermionic flag vector handed to the memoised sign computations is a boolean mask on every path", floor=2)
    flag_vector_rule(chk, "K7", " -- the vector is part of the lru_cache key and an index tuple (0, 1) compares equal to the mask (False, True): two configurations would share cache entries")
    rule_K3(chk, eng, cached)
    rule_K4(chk, prog, cached)
    rule_K5(chk, prog)
    from . import e10 as _e10
    _e10.run_U3(chk, ("yastn.tensor", "yastn.initialize"), rule="K6")
    rule_K8(chk, prog)
    rule_K9(chk, prog)
    # NamedTuple eq/hash overrides
    for cname, mod in (("_struct", "yastn.tensor._auxiliary"), ("_slc", "yastn.tensor._auxiliary"),
                       ("_config", "yastn.tensor._auxiliary"), ("_Fusion", "yastn.tensor._merging")):
        ci = prog.cls(mod, cname)
        for meth in ("__eq__", "__hash__"):
            if meth in ci.methods:
                chk.bad("K1", ci.methods[meth], f"{cname}.{meth}", f"{cname} overrides {meth}: cache keys are no longer "
                        "compared by value of all fields")


MUTANTS = [
    ('einsum memoises its label table in a module-level dict', [('yastn/tensor/_einsum.py', "__all__ = ['ncon', 'einsum']\n", "__all__ = ['ncon', 'einsum']\n\n_einsum_labels = {}\n"), ('yastn/tensor/_einsum.py', "    d[','] = 0\n", "    d[','] = 0\n    d = _einsum_labels.setdefault((sin, sout), d)\n")], 'K8'),
    ('add() takes a fast path on identical struct objects', 'yastn/tensor/_algebra.py', '    tensors, hfs = _pre_addition(*tensors)\n    datas = tuple((a.struct, a.slices) for a in tensors)', '    a = tensors[0]\n    if all(b.struct is a.struct and b.mfs == a.mfs and b.trans == a.trans for b in tensors[1:]):\n        hfs = a.hfs\n    else:\n        tensors, hfs = _pre_addition(*tensors)\n    datas = tuple((a.struct, a.slices) for a in tensors)', 'K9'),
    ('flag vector as index tuple', 'yastn/tensor/_contractions.py', '    fss = (True,) * nsym if a.config.fermionic is True else a.config.fermionic', '    fss = tuple(range(nsym)) if a.config.fermionic is True else a.config.fermionic', 'K7'),
    ('memoised function of Tensor objects', 'yastn/tensor/_merging.py', 'def _mask_tensors_leg_intersection(a, b, axa, axb):', '@lru_cache(maxsize=1024)\ndef _mask_tensors_leg_intersection(a, b, axa, axb):', 'K2'),
    ("memoised function reads module state", "yastn/tensor/_merging.py",
     "    s_eff = []\n    s_eff.append(struct.s[axes[0][0]] if len(axes[0]) > 0 else 1)", "    global _LAST_AXES\n    _LAST_AXES = axes\n    s_eff = []\n    s_eff.append(struct.s[axes[0][0]] if len(axes[0]) > 0 else 1)", "K1"),
    ("resize table pairs a cache with another function", "yastn/tensor/_control_lru.py",
     "    _contractions._meta_trace = lru_cache(maxsize)(_contractions._meta_trace.__wrapped__)", "    _contractions._meta_trace = lru_cache(maxsize)(_contractions._meta_vdot.__wrapped__)", "K4"),
    ("clear table forgets a cache", "yastn/tensor/_control_lru.py", "    _merging._meta_unfuse_hard.cache_clear()\n", "", "K4"),
    ("memoised function returns a generator", "yastn/tensor/_contractions.py", "    negate = tuple(slc.slcs[0] for slc, negate in zip(slices, tp) if negate)\n    if not negate:\n        return negate", "    negate = tuple(slc.slcs[0] for slc, negate in zip(slices, tp) if negate)\n    if not negate:\n        return iter(negate)", "K3"),
]
BENIGN = [
    ("rename local in memoised function", "yastn/tensor/_merging.py", "    s_eff = []\n    s_eff.append(struct.s[axes[0][0]] if len(axes[0]) > 0 else 1)\n    s_eff.append(struct.s[axes[1][0]] if len(axes[1]) > 0 else -1)",
     "    s_eff = [struct.s[axes[0][0]] if len(axes[0]) > 0 else 1]\n    s_eff.append(struct.s[axes[1][0]] if len(axes[1]) > 0 else -1)"),
]
