"""E7 — sweep ordering (environments kept in sync) and time-step algebra; shared by C09 and C10."""
from __future__ import annotations

import ast
import copy
from fractions import Fraction

from ..core import astutil as A
from ..core.cfg import CFG
from ..core.errors import AnalysisError
from ..core.poly import Poly, Rat, from_ast, NotPolynomial

ISO_ATTR = {"orthogonalize_site_", "post_2site_"}
ISO_NAME = {"_update_AA"}
UPD, CLR = "update_env_", "clear_site_"


def body_cfg(stmts):
    fn = ast.FunctionDef(name="_body", args=ast.arguments(posonlyargs=[], args=[], kwonlyargs=[], kw_defaults=[], defaults=[]),
                         body=list(stmts), decorator_list=[], lineno=stmts[0].lineno, col_offset=0)
    return CFG(fn, loop_body=True)


def site_loops(fn):
    """innermost `for n in X.sweep(...)` loops of a sweep function, with the enclosing (to, dn) tuple loop if any"""
    out = []
    for outer in [n for n in A.walk_local(fn, include_self=False) if isinstance(n, ast.For)]:
        if isinstance(outer.iter, ast.Call) and A.callee_attr(outer.iter) == "sweep":
            # find enclosing direction loop
            encl = None
            for cand in [n for n in A.walk_local(fn, include_self=False) if isinstance(n, ast.For)]:
                if cand is not outer and outer in list(ast.walk(cand)) and isinstance(cand.iter, (ast.Tuple, ast.List)):
                    encl = cand
            out.append((outer, encl))
    # schedule form: S = [(to, n) for to in <literal table> for n in X.sweep(to=to)] ; for to, n in S: <body>.  The body is the same
    # sweep step; the directions come from the first generator, the sites from the second
    b = A.local_bindings(fn)
    for lp in [n for n in A.walk_local(fn, include_self=False) if isinstance(n, ast.For)]:
        it = lp.iter
        if isinstance(it, ast.Name):
            ds = [v for st, v, k in b.get(it.id, []) if k == "assign" and v is not None]
            it = ds[0] if len(ds) == 1 else it
        if isinstance(it, (ast.ListComp, ast.GeneratorExp)) and len(it.generators) == 2 and not it.generators[0].ifs and not it.generators[1].ifs \
                and isinstance(it.generators[0].iter, (ast.Tuple, ast.List)) and isinstance(it.generators[1].iter, ast.Call) \
                and A.callee_attr(it.generators[1].iter) == "sweep" and A.text(it.elt) == A.text(lp.target):
            encl = ast.For(target=it.generators[0].target, iter=it.generators[0].iter, body=[lp], orelse=[])
            ast.copy_location(encl, lp)
            out.append((lp, encl))
    return out


def calls_in_stmt(st):
    return [n for n in ast.walk(st) if isinstance(n, ast.Call)]


def classify(st):
    """which roles does the statement play: set of 'iso', 'upd', 'clr' with the call nodes"""
    roles = {}
    # do not look into nested compound statements' bodies: roles are per simple statement / test
    nodes = [st] if not isinstance(st, (ast.If, ast.For, ast.While, ast.With, ast.Try)) else \
        ([st.test] if isinstance(st, (ast.If, ast.While)) else [])
    for root in nodes:
        for c in [n for n in ast.walk(root) if isinstance(n, ast.Call)]:
            a = A.callee_attr(c)
            if isinstance(c.func, ast.Attribute) and a in ISO_ATTR or isinstance(c.func, ast.Name) and a in ISO_NAME:
                roles.setdefault("iso", []).append(c)
            elif isinstance(c.func, ast.Attribute) and a == UPD:
                roles.setdefault("upd", []).append(c)
            elif isinstance(c.func, ast.Attribute) and a == CLR:
                roles.setdefault("clr", []).append(c)
    return roles


def direction_values(encl):
    """[(to, {name: value})] from `for to, dn in (('last', 0), ('first', 1))` / `for to in ('last', 'first')`"""
    if encl is None:
        return [(None, {})]
    out = []
    tgt = encl.target
    for e in encl.iter.elts:
        try:
            v = ast.literal_eval(e)
        except Exception:
            raise AnalysisError("direction loop does not iterate a literal tuple")
        if isinstance(tgt, ast.Name):
            # integer helpers computed from the direction at the top of the loop body: dn = 0 if to == 'last' else 1
            from ..core.minieval import evaluate, CannotEvaluate
            sub = {}
            for st in encl.body:
                if isinstance(st, ast.Assign) and len(st.targets) == 1 and isinstance(st.targets[0], ast.Name):
                    try:
                        val = evaluate(st.value, {tgt.id: v, **sub})
                    except CannotEvaluate:
                        continue
                    if isinstance(val, int) and not isinstance(val, bool):
                        sub[st.targets[0].id] = val
            out.append((v, sub))
        else:
            names = [x.id for x in tgt.elts]
            env = dict(zip(names, v))
            to = env.get("to")
            out.append((to, {k: val for k, val in env.items() if isinstance(val, int)}))
    return out


def affine(node, subst, inl=None):
    """expression -> Rat with integer names substituted"""
    env = {k: Rat(Poly.const(v)) for k, v in subst.items()}
    if inl is not None:
        # names with a known integer value for this direction are constants; everything else may be inlined
        import copy

        class K(ast.NodeTransformer):
            def visit_Name(self, n):
                return ast.Constant(value=subst[n.id]) if n.id in subst and isinstance(n.ctx, ast.Load) else n
        node = inl.expand(K().visit(copy.deepcopy(node)))
        node = K().visit(node)
    return from_ast(node, env, opaque=True)


def iso_sites(call, inl):
    """sites made isometric by an ISO call: ('1', site expr) or ('2', (left expr, right expr))"""
    a = A.callee_attr(call)
    if a == "orthogonalize_site_":
        n = A.arg(call, 0, "n")
        return "1", n
    if a == "post_2site_":
        bd = A.arg(call, 1, "bd")
    else:  # _update_AA(env, bd, ...)
        bd = A.arg(call, 1, "bd")
    bd = inl.expand(bd) if bd is not None else None
    if isinstance(bd, ast.Tuple) and len(bd.elts) == 2:
        return "2", (bd.elts[0], bd.elts[1])
    raise AnalysisError(f"cannot read the bond argument of {A.short(call)}")


def check_sweep(chk, f, rule_o1="O1", rule_o2="O2"):
    """O1/O2 for one sweep function."""
    fn = f.node
    inl = A.Inliner(fn)
    loops = site_loops(fn)
    chk.require(loops, f"{f.short}: no `for n in psi.sweep(...)` loop found")
    n_paths = 0
    for loop, encl in loops:
        cfg = body_cfg(loop.body)
        n_paths += cfg.count_paths()
        stmts = [n.ast for n in cfg.nodes if n.ast is not None]
        iso, upd, clr = [], [], []
        for st in stmts:
            r = classify(st)
            key = st
            if "iso" in r:
                iso.append((key, r["iso"]))
            if "upd" in r:
                upd.append((key, r["upd"]))
            if "clr" in r:
                clr.append((key, r["clr"]))
        if not iso:
            continue
        upd_nodes = [k for k, _ in upd]
        clr_nodes = [k for k, _ in clr]
        iso_nodes = [k for k, _ in iso]
        for k, calls in iso:
            c = calls[0]
            ok = bool(upd_nodes) and cfg.always_followed(k, upd_nodes)
            chk.verdict(rule_o1, (f, c), c, True if ok else False,
                        f"{f.short}: after `{A.short(c, 60)}` changes the site tensor(s), some path to the end of the sweep step does not "
                        f"refresh the environment (env.update_env_): the next local problem is solved against a stale environment")
        for k, calls in upd:
            c = calls[0]
            ok = cfg.must_pass([k], iso_nodes)
            chk.verdict(rule_o1, (f, c), c, True if ok else False,
                        f"{f.short}: `{A.short(c, 60)}` can be reached without the isometry having been created first "
                        f"(orthogonalize_site_/post_2site_): the environment is built from a non-canonical tensor")
        # O2: invalidation between the write and the refresh, covering the written sites
        dirs = direction_values(encl)
        for k, calls in iso:
            c = calls[0]
            kind, sites = iso_sites(c, inl)
            # clear_site_ calls on every path between this iso and the following update
            following_upd = [u for u in upd_nodes if cfg.path_exists(k, u)]
            for u in following_upd:
                # every path k -> u passes a clear (or a clear dominates k on the same body path and covers the sites)
                between = [x for x in clr_nodes if cfg.path_exists(k, x) and cfg.path_exists(x, u)]
                before = [x for x in clr_nodes if cfg.path_exists(x, k)]
                passes = bool(between) and not cfg.path_exists(k, u, avoiding=between)
                covering = between if passes else [x for x in before if cfg.must_pass([k], [x])]
                if not covering:
                    chk.bad(rule_o2, (f, c), c, f"{f.short}: no env.clear_site_ lies on every path from `{A.short(c, 50)}` to "
                            f"`{A.short(dict(upd)[u][0], 40)}`: memoised partial environments of the changed site survive")
                    continue
                # site coverage for each direction value
                cleared_ok = True
                why = ""
                for to, subst in dirs:
                    cleared = set()
                    for x in covering:
                        for cc in dict(clr)[x]:
                            for a_ in cc.args:
                                cleared.add(repr(affine(a_, subst, inl)))
                    want = [sites] if kind == "1" else list(sites)
                    for w in want:
                        if repr(affine(w, subst, inl)) not in cleared:
                            cleared_ok = False
                            why = f"for direction {to!r} {subst} site `{A.text(w)}` is written but clear_site_ is called for {sorted(cleared)}"
                chk.verdict(rule_o2, (f, c), f"{A.short(c, 50)} -> clear_site_ covers written sites", True if cleared_ok else False,
                            f"{f.short}: {why}")
        # O1b: the refreshed site is the one that became an isometry in this direction
        for k, calls in upd:
            c = calls[0]
            prev_iso = [(ik, ic) for ik, ic in iso if cfg.path_exists(ik, k)]
            if not prev_iso:
                continue
            # the closest preceding iso (last in body order among those that dominate)
            dom = [(ik, ic) for ik, ic in prev_iso if cfg.must_pass([k], [ik])]
            if not dom:
                continue
            ik, ic = dom[-1]
            kind, sites = iso_sites(ic[0], inl)
            arg = A.arg(c, 0, "n")
            to_arg = A.kwarg(c, "to") or (c.args[1] if len(c.args) > 1 else None)
            for to, subst in dirs:
                got = affine(arg, subst, inl)
                if kind == "1":
                    want = affine(sites, subst, inl)
                else:
                    if to not in ("last", "first"):
                        continue
                    want = affine(sites[0] if to == "last" else sites[1], subst, inl)
                ok = got.equals(want)
                chk.verdict(rule_o1, (f, c), f"{A.short(c, 40)} refreshes the new isometry (to={to!r})", True if ok else False,
                            f"{f.short}: sweeping to {to!r} {subst}, `{A.short(ic[0], 40)}` leaves the isometry at site {want} but "
                            f"the environment is refreshed at site {got}")
            if to_arg is not None and isinstance(to_arg, ast.Name) and encl is not None:
                chk.verdict(rule_o1, (f, c), f"{A.short(c, 40)}: direction forwarded", True if to_arg.id == "to" else False,
                            f"{f.short}: update_env_ is called with direction `{A.text(to_arg)}` instead of the sweep direction `to`")
    # final refresh after the loops (functions that end the sweep at the first site)
    return n_paths


def final_refresh(chk, f, rule="O1", required=True):
    """after all loops an env.update_env_(<first>, to='first') post-dominates (2-site DMRG, TDVP, compression)"""
    fn = f.node
    top = A.strip_docstring(fn.body)
    last_loop = max((i for i, st in enumerate(top) if isinstance(st, ast.For)), default=None)
    if last_loop is None:
        return
    tail = top[last_loop + 1:]
    upd = [c for st in tail for c in calls_in_stmt(st) if A.callee_attr(c) == UPD]
    if upd:
        c = upd[-1]
        to = A.kwarg(c, "to")
        chk.verdict(rule, (f, c), c, True, "")
    elif required:
        chk.bad(rule, f, f"{f.short}: final update_env_", f"{f.short}: the sweep does not refresh the environment of the first site after "
                f"the last loop: the energy/overlap measured next uses a stale edge environment")


# ------------------------------------------------------------------- memo keys
def memo_completeness(chk, prog, rule="O2"):
    """every key pattern stored into self.F whose first component is site m is popped by that class's clear_site_(m)"""
    envm = prog.module("yastn.tn.mps._env")
    for ci in envm.classes.values():
        stores = []
        for f in ci.methods.values():
            if f.cls is not ci:
                continue
            for n in ast.walk(f.node):
                if isinstance(n, ast.Subscript) and isinstance(n.ctx, ast.Store) and A.text(n.value) == "self.F" \
                        and isinstance(n.slice, ast.Tuple):
                    stores.append((f, n))
        if not stores:
            continue
        clr = prog.lookup_method(ci, "clear_site_")
        if clr is None:
            raise AnalysisError(f"{ci.name} stores into self.F but has no clear_site_")
        if any(A.callee_attr(c) == CLR for c in A.calls(clr.node)) and ci.name == "Env_sum":
            continue
        # popped patterns in terms of the loop variable of clear_site_
        loopvar = None
        popped = []
        for n in ast.walk(clr.node):
            if isinstance(n, ast.For) and isinstance(n.target, ast.Name):
                loopvar = n.target.id
            if isinstance(n, ast.Call) and A.text(n.func) == "self.F.pop" and n.args and isinstance(n.args[0], ast.Tuple):
                popped.append(n.args[0])
        if loopvar is None or not popped:
            raise AnalysisError(f"{ci.name}.clear_site_: pop patterns not found")
        pats = []
        for p in popped:
            pats.append(tuple(repr(from_ast(e, {loopvar: Rat(Poly.sym("m"))})) for e in p.elts))
        for f, n in stores:
            elts = n.slice.elts
            first = from_ast(elts[0])
            syms = first.n.symbols()
            if not syms or not all(s in ("n",) for s in syms):
                # constant / N-based edge keys: the sites -1 and N are never updated
                chk.ok(rule, (f, n), f"{ci.name}: edge key {A.text(n.slice)}", sample=False)
                continue
            # first = n + c  ->  n = m - c
            c = (first - Rat(Poly.sym("n")))
            if not c.n.is_const():
                raise AnalysisError(f"{ci.name}: key {A.text(n.slice)} is not affine in n")
            sub = {"n": Rat(Poly.sym("m")) - c}
            key = tuple(repr(from_ast(e, sub)) for e in elts)
            if key in pats:
                chk.ok(rule, (f, n), f"{ci.name}: F[{A.text(n.slice)}] is cleared by clear_site_", {"as_function_of_site": list(key)})
            else:
                chk.bad(rule, (f, n), n, f"{ci.name}.{f.name} memoises F[{A.text(n.slice)}] (depends on site m={A.text(elts[0])}: key "
                        f"{key}) but {clr.short}(m) pops only {pats}: after site m changes the stale entry keeps being used")


# --------------------------------------------------------------------- time steps
def tdvp_coefficients(chk, f, rule="T1"):
    """every du passed to _update_A/_update_AA/_update_C is -(1/2) u dt (forward) or +(1/2) u dt (backward)"""
    fn = f.node
    half = Rat(Poly.const(Fraction(1, 2))) * Rat(Poly.sym("u")) * Rat(Poly.sym("dt"))
    for loop, encl in site_loops(fn):
        cfg = body_cfg(loop.body)
        for st in [n.ast for n in cfg.nodes if n.ast is not None]:
            if isinstance(st, (ast.If, ast.For, ast.While)):
                continue
            for c in [n for n in ast.walk(st) if isinstance(n, ast.Call) and isinstance(n.func, ast.Name)
                      and n.func.id in ("_update_A", "_update_AA", "_update_C")]:
                du = A.arg(c, 2 if c.func.id != "_update_C" else 1, "du")
                try:
                    got = from_ast(A.Inliner(fn).expand(du))
                except NotPolynomial:
                    raise AnalysisError(f"{f.short}: du `{A.text(du)}` is not polynomial")
                # forward: AA always; A when followed on every path by a split (orthogonalize_site_) in the body
                if c.func.id == "_update_AA":
                    forward = True
                elif c.func.id == "_update_C":
                    forward = False
                else:
                    ortho = [x.ast for x in cfg.nodes if x.ast is not None and not isinstance(x.ast, (ast.If, ast.For)) and any(
                        isinstance(k, ast.Call) and A.callee_attr(k) == "orthogonalize_site_" for k in ast.walk(x.ast))]
                    forward = bool(ortho) and cfg.always_followed(st, [o for o in ortho if cfg.path_exists(st, o)] or ortho) \
                        and any(cfg.path_exists(st, o) for o in ortho)
                want = -half if forward else half
                ok = got.equals(want)
                chk.verdict(rule, (f, c), c, True if ok else False,
                            f"{f.short}: `{A.short(c, 50)}` is a {'forward' if forward else 'backward'} step and must evolve by "
                            f"{'-' if forward else '+'}u*dt/2, found du = {got}", {"du": repr(got), "forward": forward})


def _numeric_value(e):
    """value of an arithmetic expression built from numeric literals only (+ - * / ** and unary minus), else None"""
    import operator as _op
    ops = {ast.Add: _op.add, ast.Sub: _op.sub, ast.Mult: _op.mul, ast.Div: _op.truediv, ast.Pow: _op.pow}
    try:
        if isinstance(e, ast.Constant) and isinstance(e.value, (int, float)) and not isinstance(e.value, bool):
            return e.value
        if isinstance(e, ast.UnaryOp) and isinstance(e.op, (ast.USub, ast.UAdd)):
            v = _numeric_value(e.operand)
            return None if v is None else (-v if isinstance(e.op, ast.USub) else v)
        if isinstance(e, ast.BinOp) and type(e.op) in ops:
            l, r = _numeric_value(e.left), _numeric_value(e.right)
            if l is None or r is None:
                return None
            return ops[type(e.op)](l, r)
    except (ZeroDivisionError, OverflowError, ValueError):
        return None
    return None


def tdvp_composition(chk, f):
    """T2/T3 on tdvp_'s stepping loop"""
    fn = f.node
    # find the inner loop over steps
    loops = [n for n in A.walk_local(fn, include_self=False) if isinstance(n, ast.For)]
    step_loop = None
    for lp in loops:
        if any(isinstance(n, ast.Call) and isinstance(n.func, ast.Name) and n.func.id == "routine" for n in ast.walk(lp)) and \
                not any(isinstance(n, ast.For) and n is not lp and any(isinstance(k, ast.Call) and isinstance(k.func, ast.Name)
                        and k.func.id == "routine" for k in ast.walk(n)) for n in ast.walk(lp) if n is not lp):
            step_loop = lp
    if step_loop is None:
        raise AnalysisError("tdvp_: stepping loop with routine(...) calls not found")
    T, DS = Rat(Poly.sym("t")), Rat(Poly.sym("ds"))
    branches = [n for n in step_loop.body if isinstance(n, ast.If)]
    chk.require(branches, "tdvp_: order dispatch not found")

    def collect(stmts, env):
        calls = []
        for st in stmts:
            if isinstance(st, ast.Assign) and isinstance(st.targets[0], ast.Name) and isinstance(st.value, ast.Constant):
                env[st.targets[0].id] = Rat(Poly.const(Fraction(st.value.value)))
                env["__const__" + st.targets[0].id] = st.value.value
            elif isinstance(st, ast.Assign) and isinstance(st.targets[0], ast.Name) and _numeric_value(st.value) is not None:
                # a constant written as an arithmetic expression of literals (1 / (4 - 4 ** (1 / 3))): its numerical value is what counts
                val = _numeric_value(st.value)
                env[st.targets[0].id] = Rat(Poly.const(Fraction(val)))
                env["__const__" + st.targets[0].id] = val
            for n in ast.walk(st):
                if isinstance(n, ast.Call) and isinstance(n.func, ast.Name) and n.func.id == "routine":
                    calls.append(n)
        return calls

    def walk_if(node):
        out = []
        cur = node
        while True:
            out.append((cur.test, cur.body))
            if len(cur.orelse) == 1 and isinstance(cur.orelse[0], ast.If):
                cur = cur.orelse[0]
            else:
                out.append((None, cur.orelse))
                break
        return out
    n_orders = 0
    for test, body in walk_if(branches[0]):
        env = {}
        calls = collect(body, env)
        if not calls:
            if test is None:
                chk.verdict("T2", (f, body[0]), "unknown order raises", True if any(isinstance(b, ast.Raise) for b in body) else False,
                            "tdvp_: an unknown `order` does not raise")
            continue
        n_orders += 1
        order = A.text(test)
        penv = {k: v for k, v in env.items() if not k.startswith("__const__")}
        total = Rat(Poly.const(0))
        elapsed = Rat(Poly.const(0))
        for i, c in enumerate(calls):
            tau = from_ast(c.args[0], penv)
            delta = from_ast(c.args[1], penv)
            want_tau = T + elapsed + delta * Rat(Poly.const(Fraction(1, 2)))
            ok_mid = tau.equals(want_tau)
            chk.verdict("T2", (f, c), f"{order}: sub-step {i + 1} midpoint `{A.text(c.args[0])}`", True if ok_mid else False,
                        f"tdvp_ {order}: sub-step {i + 1} of length {delta} starts at t+{elapsed} so H must be sampled at its mid-point "
                        f"{want_tau}, found {tau}: the integrator loses its order for time-dependent H",
                        {"tau": repr(tau), "delta": repr(delta)})
            elapsed = elapsed + delta
            total = total + delta
        ok_sum = total.equals(DS)
        chk.verdict("T2", (f, calls[0]), f"{order}: sub-step lengths sum to ds", True if ok_sum else False,
                    f"tdvp_ {order}: the sub-steps add up to {total} instead of ds: the state is evolved for the wrong time")
        # the 4th-order constant
        for k, v in env.items():
            if k.startswith("__const__"):
                val = v
                ref = 1.0 / (4.0 - 4.0 ** (1.0 / 3.0))
                chk.verdict("T2", (f, body[0]), f"{order}: {k[9:]} = 1/(4 - 4^(1/3))", True if abs(val - ref) < 1e-15 else False,
                            f"tdvp_ {order}: composition constant {k[9:]} = {val!r} differs from 1/(4-4^(1/3)) = {ref!r}: the "
                            f"composition is no longer 4th order")
    chk.require(n_orders >= 2, "tdvp_: 2nd and 4th order branches expected")
    # T3 snapshot bookkeeping
    incs = [st for st in step_loop.body if isinstance(st, (ast.Assign, ast.AugAssign)) and A.text(st.targets[0] if isinstance(st, ast.Assign) else st.target) == "t"]
    ok_inc = len(incs) == 1 and ((isinstance(incs[0], ast.Assign) and from_ast(incs[0].value).equals(T + DS)) or
                                 (isinstance(incs[0], ast.AugAssign) and isinstance(incs[0].op, ast.Add) and from_ast(incs[0].value).equals(DS)))
    chk.verdict("T3", (f, incs[0] if incs else step_loop), incs[0] if incs else "t = t + ds",
                True if ok_inc else False, "tdvp_: the running time is not advanced by exactly ds once per step (outside the order branches)")
    # ds = (t1 - t0) / steps ; t = t0 ; loop over range(steps)
    outer = [lp for lp in loops if step_loop in list(ast.walk(lp)) and lp is not step_loop]
    chk.require(outer, "tdvp_: snapshot loop not found")
    ob = outer[-1].body
    defs = {}
    for st in ob:
        if isinstance(st, ast.Assign):
            if isinstance(st.targets[0], ast.Tuple) and isinstance(st.value, ast.Tuple):
                for a_, b_ in zip(st.targets[0].elts, st.value.elts):
                    defs[A.text(a_)] = b_
            elif isinstance(st.targets[0], ast.Name):
                defs[st.targets[0].id] = st.value
    ds_ok = "ds" in defs and from_ast(defs["ds"]).equals((Rat(Poly.sym("t1")) - Rat(Poly.sym("t0"))) / Rat(Poly.sym("steps")))
    chk.verdict("T3", (f, outer[-1]), f"ds = {A.text(defs.get('ds'))}", True if ds_ok else False,
                "tdvp_: ds is not (t1 - t0) / steps: `steps` steps of ds do not end exactly at the requested snapshot t1")
    t_ok = "t" in defs and A.text(defs["t"]) == "t0"
    chk.verdict("T3", (f, outer[-1]), f"t starts at {A.text(defs.get('t'))}", True if t_ok else False, "tdvp_: the running time does not start at t0")
    it = step_loop.iter
    rng = None
    for n in ast.walk(it if not isinstance(it, ast.Name) else defs.get(it.id, it)):
        if isinstance(n, ast.Call) and A.call_name(n) == "range":
            rng = n
    chk.verdict("T3", (f, step_loop), f"loop over {A.text(rng) if rng else A.text(it)}", True if rng is not None and len(rng.args) == 1 and A.text(rng.args[0]) == "steps" else False,
                "tdvp_: the stepping loop does not run exactly `steps` times")
    ys = [n for n in ast.walk(outer[-1]) if isinstance(n, ast.Yield)]
    if ys:
        y = ys[-1].value
        tf = y.args[1] if isinstance(y, ast.Call) and len(y.args) > 1 else None
        chk.verdict("T3", (f, ys[-1]), y, True if tf is not None and A.text(tf) == "t" else False,
                    "tdvp_: the reported final time is not the loop-carried time `t`")
    # validation of inputs before any evolution
    guards = [n for n in A.walk_local(fn, include_self=False) if isinstance(n, ast.If) and any(isinstance(b, ast.Raise) for b in n.body)]
    g_t = [g for g in guards if "t1 - t0 <= 0" in A.text(g.test) or "t1 <= t0" in A.text(g.test)]
    g_dt = [g for g in guards if A.text(g.test) in ("dt <= 0", "not dt > 0", "0 >= dt")]
    chk.verdict("T3", f, "times must be ascending", True if g_t else False, "tdvp_: non-ascending `times` are no longer rejected")
    chk.verdict("T3", f, "dt must be positive", True if g_dt else False, "tdvp_: a non-positive dt is no longer rejected")
    return step_loop


def krylov_memo_keys(chk, prog, rule="T4"):
    """env._temp['expmv_ncv'] is read and written under the same key in each _update_* function"""
    for name in ("_update_A", "_update_C", "_update_AA"):
        f = prog.func("yastn.tn.mps._tdvp", name)
        reads, writes, tests = set(), set(), set()
        envp = f.params[0]
        memo = f"{envp}._temp['expmv_ncv']"
        # the memo dictionary itself, or a local alias of it (`ncv_memo = env._temp['expmv_ncv']`)
        aliases = {memo} | {nm for nm, ds in A.local_bindings(f.node).items() if any(k == "assign" and v is not None and A.text(v) == memo for st, v, k in ds)}
        for n in ast.walk(f.node):
            if isinstance(n, ast.Subscript) and A.text(n.value) in aliases:
                (writes if isinstance(n.ctx, ast.Store) else reads).add(A.text(n.slice))
            if isinstance(n, ast.Compare) and isinstance(n.ops[0], (ast.In, ast.NotIn)) and A.text(n.comparators[0]) in aliases:
                tests.add(A.text(n.left))
            if isinstance(n, ast.Call) and isinstance(n.func, ast.Attribute) and n.func.attr in ("get", "pop", "setdefault") and A.text(n.func.value) in aliases and n.args:
                reads.add(A.text(n.args[0]))
        chk.require(writes, f"{name}: write of env._temp['expmv_ncv'] not found")
        # a membership test is one way to guard the read (try / except KeyError and .get() are others): where there is one, it uses the same key
        ok = reads == writes and len(writes) == 1 and (not tests or tests == writes)
        chk.verdict(rule, f, f"{name}: memo key {sorted(writes)}", True if ok else False,
                    f"{name}: the Krylov-dimension memo is tested/read/written under different keys (tested {sorted(tests)}, read "
                    f"{sorted(reads)}, written {sorted(writes)}): a site inherits another site's Krylov dimension")


# ------------------------------------------------------------- conjugation typing (sesquilinearity)
STRUCTURAL = {"fuse_legs", "unfuse_legs", "transpose", "add_leg", "remove_leg", "drop_leg_history", "swap_gate", "copy", "clone",
              "move_leg", "moveaxis", "flip_signature"}


class ConjTyping:
    """Origin and conjugation parity of tensor expressions inside one environment method.

    origin in {BRA, KET, OP, IN}: site tensors of self.bra / self.ket / self.op and the method's input tensor(s).
    `.conj()` flips the parity, structural operations (fuse/transpose/...) keep origin and parity, contractions lose the
    origin (their result is a mixed object).  At every contraction the operands with a known origin are checked:
    BRA operands must enter conjugated, KET/OP/IN operands un-conjugated — that is what makes F a representation of
    <bra|op|ket> and Heff a linear operator on its input."""

    def __init__(self, f, inputs):
        self.f = f
        self.inputs = set(inputs)
        self.b = A.local_bindings(f.node)
        self.me = f.params[0] if f.params else "self"

    def typ(self, node, depth=0):
        """-> set of (origin, parity)"""
        if depth > 8:
            return set()
        if isinstance(node, ast.Name):
            if node.id in self.inputs:
                return {("IN", 0)}
            out = set()
            for st, v, k in self.b.get(node.id, []):
                if v is not None and k == "assign":
                    out |= self.typ(v, depth + 1)
            return out
        if isinstance(node, ast.Subscript):
            t = A.text(node.value)
            for org, pats in (("BRA", (f"{self.me}.bra.A", f"{self.me}.bra")), ("KET", (f"{self.me}.ket.A", f"{self.me}.ket")),
                              ("OP", (f"{self.me}.op.A", f"{self.me}.op"))):
                if t in pats:
                    return {(org, 0)}
            return set()
        if isinstance(node, ast.Call) and isinstance(node.func, ast.Attribute):
            at = node.func.attr
            if at == "conj" and not node.args:
                return {(o, 1 - p) for o, p in self.typ(node.func.value, depth + 1)}
            if at in STRUCTURAL:
                return self.typ(node.func.value, depth + 1)
            return set()
        if isinstance(node, ast.Attribute) and node.attr == "H":
            return {(o, 1 - p) for o, p in self.typ(node.value, depth + 1)}
        if isinstance(node, ast.IfExp):
            return self.typ(node.body, depth + 1) | self.typ(node.orelse, depth + 1)
        return set()

    def contraction_operands(self):
        """(site node, operand node, extra conj flag)"""
        for n in A.walk_local(self.f.node, include_self=False):
            if isinstance(n, ast.BinOp) and isinstance(n.op, ast.MatMult):
                yield n, n.left, 0
                yield n, n.right, 0
            elif isinstance(n, ast.Call):
                nm = A.call_name(n) or ""
                at = A.callee_attr(n)
                if nm in ("tensordot", "vdot") or (at in ("tensordot", "vdot") and isinstance(n.func, ast.Attribute)):
                    ops = list(n.args[:2])
                    if isinstance(n.func, ast.Attribute) and nm not in ("tensordot", "vdot"):
                        ops = [n.func.value] + list(n.args[:1])
                    cj = A.kwarg(n, "conj")
                    default = (1, 0) if (at == "vdot" or nm == "vdot") else (0, 0)
                    flags = default
                    if cj is not None:
                        try:
                            flags = tuple(int(x) for x in ast.literal_eval(cj))
                        except Exception:
                            raise AnalysisError(f"{self.f.short}: non-literal conj= in `{A.short(n, 60)}`")
                    for o, fl in zip(ops, flags):
                        yield n, o, fl
                elif nm in ("ncon", "einsum") or at in ("ncon", "einsum"):
                    lst = n.args[0] if nm == "ncon" or at == "ncon" else None
                    cj = A.kwarg(n, "conjs")
                    if isinstance(lst, (ast.List, ast.Tuple)):
                        flags = [0] * len(lst.elts)
                        if cj is not None:
                            try:
                                flags = [int(x) for x in ast.literal_eval(cj)]
                            except Exception:
                                raise AnalysisError(f"{self.f.short}: non-literal conjs= in `{A.short(n, 60)}`")
                        for o, fl in zip(lst.elts, flags):
                            yield n, o, fl
                elif at in ("broadcast", "apply_mask") and isinstance(n.func, ast.Attribute):
                    pass


def check_conj_typing(chk, rule, f, inputs):
    ct = ConjTyping(f, inputs)
    n = 0
    for site, operand, flag in ct.contraction_operands():
        ts = ct.typ(operand)
        for org, par in sorted(ts):
            eff = (par + flag) % 2
            want = 1 if org == "BRA" else 0
            n += 1
            role = {"BRA": "a site tensor of the bra", "KET": "a site tensor of the ket", "OP": "a site tensor of the operator",
                    "IN": "the input tensor of the effective operator"}[org]
            why = ("the bra enters <bra|...|ket> conjugated; un-conjugated it gives a bilinear form that agrees with the inner product only for real tensors"
                   if org == "BRA" else
                   "the map must be linear in its input / the ket and operator enter un-conjugated; conjugating it agrees only for real tensors "
                   "(antilinear effective operator: Krylov/eigen-solvers then work with a non-Hermitian map for complex states)")
            chk.verdict(rule, (f, site), f"{org}{'*' if eff else ''} `{A.short(operand, 40)}` in `{A.short(site, 60)}`", True if eff == want else False,
                        f"{f.short}: `{A.short(operand, 50)}` is {role} and enters the contraction `{A.short(site, 70)}` "
                        f"{'conjugated' if eff else 'un-conjugated'}: {why}")
    return n


def check_projector_form(chk, rule, f, inp):
    """penalty operator  A -> X * (p * <X|A>)  : the scaled vector is the conjugated argument of vdot, the other is the input"""
    rets = [r for r in A.returns_of(f.node) if r.value is not None]
    ok = False
    b_ = A.local_bindings(f.node)

    def _expand_scalars(e):
        """single-definition temporaries of the scalar factor are replaced by their definitions (`overlap = vdot(X, A)`)"""
        class R(ast.NodeTransformer):
            def visit_Name(self, node):
                ds = [v_ for st, v_, k in b_.get(node.id, []) if v_ is not None]
                if isinstance(node.ctx, ast.Load) and len(ds) == 1 and any(isinstance(c, ast.Call) and (A.call_name(c) == "vdot" or A.callee_attr(c) == "vdot")
                                                                          for c in ast.walk(ds[0])):
                    return copy.deepcopy(ds[0])
                return node
        return R().visit(copy.deepcopy(e))
    for r in rets:
        v = r.value
        if not (isinstance(v, ast.BinOp) and isinstance(v.op, ast.Mult)):
            continue
        for vec, sc in ((v.left, v.right), (v.right, v.left)):
            sc = _expand_scalars(sc)
            vd = [c for c in ast.walk(sc) if isinstance(c, ast.Call) and (A.call_name(c) == "vdot" or A.callee_attr(c) == "vdot")]
            if len(vd) != 1 or len(vd[0].args) != 2:
                continue
            cj = A.kwarg(vd[0], "conj")
            flags = (1, 0) if cj is None else tuple(ast.literal_eval(cj))
            a0, a1 = vd[0].args
            if flags == (0, 1):
                a0, a1 = a1, a0
                flags = (1, 0)
            ok = flags == (1, 0) and A.text(a0) == A.text(vec) and A.text(a1) == inp and "penalty" in A.text(sc)
    chk.verdict(rule, f, f"{f.short}: returns X * (penalty * <X|{inp}>)", True if ok else False,
                f"{f.short}: the penalty term must be the rank-one Hermitian operator penalty * |X><X| applied to `{inp}` "
                f"(vdot conjugates the projected state X, not the input); otherwise the operator is antilinear/non-Hermitian for complex states "
                f"and excited-state DMRG no longer avoids the listed states")


def check_krylov_combination(chk, rule, f, min_sites=1):
    """Vectors leaving a Krylov solver are combinations of the orthonormal basis list only: V[0].add(*V[1:], amplitudes=...)"""
    fn = f.node
    b = A.local_bindings(fn)
    basis = set()
    for n in ast.walk(fn):
        if isinstance(n, ast.Assign) and isinstance(n.value, ast.Call) and A.callee_attr(n.value) == "expand_krylov_space" \
                and isinstance(n.targets[0], ast.Tuple):
            basis.add(A.text(n.targets[0].elts[0]))
    chk.require(basis, f"{f.short}: call of expand_krylov_space not found")
    adds = [c for c in ast.walk(fn) if isinstance(c, ast.Call) and A.callee_attr(c) == "add" and A.kwarg(c, "amplitudes") is not None]
    chk.require(len(adds) >= min_sites, f"{f.short}: linear combination `.add(..., amplitudes=)` not found")
    for c in adds:
        recv = c.func.value
        ok = isinstance(recv, ast.Subscript) and A.text(recv.value) in basis and A.neg_const(recv.slice) == 0
        V = A.text(recv.value) if isinstance(recv, ast.Subscript) else None
        rest = len(c.args) == 1 and isinstance(c.args[0], ast.Starred) and A.text(c.args[0].value) == f"{V}[1:]"
        chk.verdict(rule, (f, c), c, True if (ok and rest) else False,
                    f"{f.short}: the returned vector `{A.short(c, 70)}` is not a combination of the orthonormal Krylov vectors "
                    f"{sorted(basis)}[0], *[1:] only: amplitudes from the projected problem refer to the normalised basis; using the "
                    f"un-normalised start vector gives a wrong vector whenever its norm is not 1")
    # the basis starts from the start vector divided by its own norm
    firsts = [n for n in ast.walk(fn) if isinstance(n, ast.Assign) and A.text(n.targets[0]) in basis and isinstance(n.value, ast.List) and len(n.value.elts) == 1]
    for n in firsts:
        e = n.value.elts[0]
        ok = False
        if isinstance(e, ast.BinOp) and isinstance(e.op, ast.Div):
            num, den = A.text(e.left), e.right
            dd = [v for st, v, k in b.get(A.text(den), []) if v is not None]
            ok = bool(dd) and all(isinstance(v, ast.Call) and A.callee_attr(v) == "norm" and A.text(v.func.value) == num for v in dd)
        elif isinstance(e, ast.Name):
            # v was normalised before: v = v / normv with normv = v.norm()
            for st, v, k in b.get(e.id, []):
                if isinstance(v, ast.BinOp) and isinstance(v.op, ast.Div) and A.text(v.left) == e.id:
                    dd = [vv for st2, vv, k2 in b.get(A.text(v.right), []) if vv is not None]
                    if dd and isinstance(dd[0], ast.Call) and A.callee_attr(dd[0]) == "norm" and A.text(dd[0].func.value) == e.id:
                        ok = True
        chk.verdict(rule, (f, n), n, True if ok else False,
                    f"{f.short}: the first Krylov vector `{A.short(n, 50)}` is not the start vector divided by its own norm")


def check_local_generators(chk, rule, prog, module, solver_names=("expmv", "eigs")):
    """The local generators handed to the Krylov solvers (`f = lambda x: env.HeffK(x, ..) - E0 * x`) are *linear and homogeneous* in
    their argument: every additive term of the lambda / nested def contains the argument.  A term without it (`- E0 * AA` with the
    fixed start tensor) makes the map affine: exp(t f) of an affine map is not the shifted evolution, the state picks up more than a
    phase."""
    n = 0
    for f in prog.all_funcs({module}):
        fn = f.node
        b = A.local_bindings(fn)
        for c in A.calls(fn):
            if (A.call_name(c) or "").split(".")[-1] not in solver_names or not c.args:
                continue
            g = c.args[0]
            cands = []
            gv = g
            if isinstance(g, ast.Name):
                pv = [v for st, v, k in b.get(g.id, []) if isinstance(v, ast.Call) and (A.call_name(v) or "").split(".")[-1] == "partial"]
                gv = pv[0] if pv else g
            if isinstance(gv, ast.Call) and (A.call_name(gv) or "").split(".")[-1] == "partial" and gv.args:
                # partial(env.HeffK, bd=bd): the method itself with some arguments fixed -- homogeneous in the remaining one iff the method is
                # linear in it, which the conjugation/linearity typing of the Heff siblings decides
                n += 1
                chk.ok(rule, (f, gv), f"{f.short}: generator `{A.short(gv, 60)}` is a partial application of {A.text(gv.args[0])}")
                continue
            if isinstance(g, ast.Lambda):
                cands = [g]
            elif isinstance(g, ast.Name):
                cands = [v for st, v, k in b.get(g.id, []) if isinstance(v, ast.Lambda)]
                cands += [d for d in ast.walk(fn) if isinstance(d, ast.FunctionDef) and d.name == g.id and d is not fn]
            for lam in cands:
                if isinstance(lam, ast.Lambda):
                    if len(lam.args.args) != 1:
                        continue
                    x, bodies = lam.args.args[0].arg, [lam.body]
                else:
                    if len(lam.args.args) != 1:
                        continue
                    x = lam.args.args[0].arg
                    bodies = [r.value for r in ast.walk(lam) if isinstance(r, ast.Return) and r.value is not None]
                for body in bodies:
                    terms = []

                    def flat(e):
                        if isinstance(e, ast.BinOp) and isinstance(e.op, (ast.Add, ast.Sub)):
                            flat(e.left)
                            flat(e.right)
                        else:
                            terms.append(e)
                    flat(body)
                    n += 1
                    const = [t for t in terms if not any(isinstance(y, ast.Name) and y.id == x for y in ast.walk(t))]
                    chk.verdict(rule, (f, lam), f"{f.short}: generator `{A.short(lam, 70)}` is homogeneous in `{x}`", False if const else True,
                                f"{f.short}(): the map handed to {A.call_name(c)} has the term `{A.short(const[0], 40) if const else ''}` that does not contain its "
                                f"argument `{x}`: the map is affine, not linear -- e.g. an energy shift applied to the fixed start tensor instead of the "
                                f"Krylov vector; the evolved state is wrong by more than a phase (only with the non-default option that selects this branch)")
    return n


def check_env_reset_per_substep(chk, rule, prog, f):
    """tdvp_: every sub-step samples the generator at its own time, `Ht(t)`; for a time-dependent generator the environment built for
    another time is stale.  The sweep call that receives `Ht(<time>)` therefore receives, in the same call, the environment passed
    through the reset function (the local that is the identity for a time-independent H and returns None otherwise) -- a reset made
    once per time step leaves the sub-steps 2..5 of the 4th-order scheme with the operator of sub-step 1."""
    fn = f.node
    b = A.local_bindings(fn)
    # the reset function: a local bound to lambdas of one parameter, one alternative returning None, another the parameter itself
    resets = set()
    for nm, ds in b.items():
        lams = [v for st, v, k in ds if isinstance(v, ast.Lambda) and len(v.args.args) == 1]
        if len(lams) >= 2 and any(isinstance(l.body, ast.Constant) and l.body.value is None for l in lams) \
                and any(isinstance(l.body, ast.Name) and l.body.id == l.args.args[0].arg for l in lams):
            resets.add(nm)
    chk.require(resets, f"{f.short}: the environment reset (identity for time-independent H, None otherwise) not found")
    n = 0
    for nm, ds in b.items():
        for st, v, k in ds:
            if not (isinstance(v, ast.Lambda) and len(v.args.args) == 3):
                continue
            for c in ast.walk(v.body):
                if not (isinstance(c, ast.Call) and isinstance(c.func, ast.Name) and c.func.id.startswith("_tdvp_sweep")):
                    continue
                tgt = prog.resolve(f.module, c.func.id)
                if not (hasattr(tgt, "params") and "env" in tgt.params):
                    continue
                bound = dict(zip(tgt.params, c.args))
                bound.update({kw.arg: kw.value for kw in c.keywords if kw.arg})
                e = bound.get("env")
                samples_time = any(isinstance(a_, ast.Call) and isinstance(a_.func, ast.Name) and a_.args for a_ in bound.values()
                                   if a_ is not e and isinstance(a_, ast.Call) and A.text(a_.func) not in resets)
                n += 1
                ok = isinstance(e, ast.Call) and isinstance(e.func, ast.Name) and e.func.id in resets and len(e.args) == 1 \
                    and isinstance(e.args[0], ast.Name) and e.args[0].id == v.args.args[2].arg
                chk.verdict(rule, (f, c), f"{f.short}: `{c.func.id}(.., env={A.text(e) if e is not None else '?'})` resets the environment in the call that samples H(t)",
                            True if ok else False,
                            f"{f.short}(): the sub-step `{A.short(c, 60)}` evaluates the generator at its own time but receives the environment "
                            f"`{A.text(e) if e is not None else '?'}` without passing it through the reset `{sorted(resets)[0]}(..)`: for a time-dependent H the "
                            f"environment (and the operator inside it) of the previous sub-step is reused -- the 4th-order composition evolves sub-steps "
                            f"2..5 with H of sub-step 1 and drops to first order")
    return n
