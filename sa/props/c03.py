"""C03 — leg fusion is faithful; mismatches are masked or rejected (partial; engines E9-F + E3).

Decided: every binary/unary leg operation passes the fusion-compatibility test (and the configuration test) before
computing, unsupported fused legs are rejected (F1); the `mask_needed` verdict guards masking/embedding and the histories
are replaced (F2); masks are applied in native index space on materialised tensors (E3: L1 on the masking helpers, L2);
N-ary addition treats all operands alike (V1).
Not decided: correctness of the tree-parsing mask construction (_masks_hfs_intersection, _mask_embed_in_union, _hfs_union).
"""
from __future__ import annotations

from . import e3, e9


def run(chk):
    chk.explanation = (
        "Must-pass-through (CFG dominance) of the fusion-compatibility and configuration tests before every computing return of "
        "tensordot/vdot/trace/addition; presence of the rejection guards for fused legs in operations that do not support them; "
        "def-use of the boolean verdict `mask_needed` into the guard of the masking/embedding code and the replacement of the "
        "fusion histories; index-space typing of the arguments of the masking helpers; dominance of consume_transpose before "
        "helpers that use leg positions as native axes. The value-level correctness of the mask construction is not decided."
        ' A fusion verdict obtained pair by pair in a loop must be accumulated into the flag tested after the loop; zip-paired per-leg sequences must share one leg order (engine seqorder).')
    chk.trusted_base = ["python ast parser", "CFG builder", "seed table of index spaces (sa/props/e3.py)"]
    e9.run_F(chk)
    e3.run_L1(chk, rule="F3", floor=100)
    e3.run_L2(chk)
    e3.run_V1(chk)
    e3.run_I4(chk)

    from . import e10 as _e10
    _e10.run_U3(chk, ("yastn.tensor", "yastn.initialize"))
    from . import e10
    e10.run_U(chk, ("yastn.tensor._merging", "yastn.tensor._contractions", "yastn.tensor._algebra", "yastn.tensor._legs", "yastn.tensor._tests", "yastn.initialize"), floor1=5, floor2=1)

MUTANTS = [
    ('mask test leaves the validation loop early', 'yastn/tensor/_tests.py', '            mask_needed = True\n    return mask_needed, haxes', '            mask_needed = True\n            break\n    return mask_needed, haxes', 'U12'),
    ('legs_union decides from the first two legs', 'yastn/tensor/_legs.py', '        if any(leg.hf != legs[0].hf for leg in legs):', '        if legs[0].hf != legs[1].hf:', 'U13'),
    ('compatibility test ignores the dimensions of fused legs', 'yastn/tensor/_tests.py', '        if a.hfs[i1].t != b.hfs[i2].t or a.hfs[i1].D != b.hfs[i2].D:', '        if a.hfs[i1].t != b.hfs[i2].t:', 'F6'),
    ('mfs expanded front to back', 'yastn/tensor/_merging.py', '        for unfused, n in zip(nlegs[::-1], axes_mf[::-1]):\n            mfs = mfs[:n] + [(1,)] * unfused + mfs[n+1:]', '        for unfused, n in zip(nlegs, axes_mf):\n            mfs[n: n + 1] = [(1,)] * unfused', 'F7'),
    ('signatures popped for products only', 'yastn/tensor/_merging.py', '        ss = [tuple(s1.pop(it) for _ in range(no)) for s1 in s]\n        tt = [tuple(t1.pop(it) for _ in range(no)) for t1 in t]', "        tt = [tuple(t1.pop(it) for _ in range(no)) for t1 in t]\n        if op[it - 1] == 'p':\n            ss = [tuple(s1.pop(it) for _ in range(no)) for s1 in s]", 'F5'),
    ("mask test only on blocked legs", "yastn/initialize.py", "        if any(_legs_mask_needed(ulegs[n][pa[n]], leg) for n, leg in enumerate(legs_tn[pa])):", "        if any(_legs_mask_needed(ulegs[n][pa[n]], legs_tn[pa][n]) for n in out_b):", "F4"),
    ("mask test skips the first leg", "yastn/initialize.py", "        if any(_legs_mask_needed(ulegs[n][pa[n]], leg) for n, leg in enumerate(legs_tn[pa])):", "        if any(_legs_mask_needed(ulegs[n][pa[n]], leg) for n, leg in enumerate(legs_tn[pa]) if n > 0):", "F4"),
    ("verdict overwritten per pair", "yastn/tensor/_algebra.py", "        mask_needed_ab, _ = _unpack_trans_test_axes_pair(a, b, sgn=1)\n        mask_needed = mask_needed or mask_needed_ab", "        mask_needed, _ = _unpack_trans_test_axes_pair(a, b, sgn=1)", "F2"),
    ("verdict dropped in tensordot", "yastn/tensor/_contractions.py", "    mask_needed, (nin_a, nin_b) = _unpack_trans_test_axes_pair(a, b, sgn=-1, axes=(in_a, in_b))\n    # nin_a and nin_b take into account",
     "    _, (nin_a, nin_b) = _unpack_trans_test_axes_pair(a, b, sgn=-1, axes=(in_a, in_b))\n    mask_needed = False\n    # nin_a and nin_b take into account", "F2"),
    ("vdot keeps old hfs", "yastn/tensor/_contractions.py", "            b = _apply_mask_axes(b, nin_b, msk_b)\n            a = a._replace(hfs=a_hfs)\n            b = b._replace(hfs=b_hfs)\n        meta_vdot", "            b = _apply_mask_axes(b, nin_b, msk_b)\n        meta_vdot", "F2"),
    ("broadcast accepts fused leg", "yastn/tensor/_contractions.py", "        ax = b.trans[ax]  # transpose\n        if b.hfs[ax].tree != (1,):\n            raise YastnError('Second tensor`s leg specified in axes cannot be fused.')\n", "        ax = b.trans[ax]  # transpose\n", "F1"),
    ("addition without config test", "yastn/tensor/_algebra.py", "    for ten in tensors[1:]:\n        _test_can_be_combined(tensors[0], ten)\n", "", "F1"),
    ("mask on meta axes", "yastn/tensor/_contractions.py", "        msk_a, msk_b, a_hfs, b_hfs = _mask_tensors_leg_intersection(a, b, nin_a, nin_b)\n        a = _apply_mask_axes(a, nin_a, msk_a)\n        b = _apply_mask_axes(b, nin_b, msk_b)\n        a = a._replace(hfs=a_hfs)\n        b = b._replace(hfs=b_hfs)\n\n    if a.config.tensordot_policy",
     "        msk_a, msk_b, a_hfs, b_hfs = _mask_tensors_leg_intersection(a, b, nin_a, nin_b)\n        a = _apply_mask_axes(a, in_a, msk_a)\n        b = _apply_mask_axes(b, nin_b, msk_b)\n        a = a._replace(hfs=a_hfs)\n        b = b._replace(hfs=b_hfs)\n\n    if a.config.tensordot_policy", "F3"),
]
BENIGN = [
    ("mask test over an index range", "yastn/initialize.py", "        if any(_legs_mask_needed(ulegs[n][pa[n]], leg) for n, leg in enumerate(legs_tn[pa])):", "        if any(_legs_mask_needed(ulegs[n][pa[n]], legs_tn[pa][n]) for n in range(len(ulegs))):"),
    ("verdict accumulated with |=", "yastn/tensor/_algebra.py", "        mask_needed = mask_needed or mask_needed_ab", "        mask_needed |= mask_needed_ab"),
    ("rename verdict", "yastn/tensor/_contractions.py", "    mask_needed, (nin_0, nin_1) = _unpack_trans_test_axes_pair(a, a, sgn=-1, axes=(in_0, in_1))", "    mask_needed, (nin_0, nin_1) = _unpack_trans_test_axes_pair(a, a, axes=(in_0, in_1), sgn=-1)"),
]
