"""E6 `chargeflow` — total-charge bookkeeping, selection rule at creation, factorisation structure (C02, C04).

Abstract domain: formal signed sums over {n(X) = total charge of tensor/struct X, t = a leg charge, 0}; signature
symbols obey s*s = 1.  `sym.add_charges(x1, .., signatures=(s1, ..), new_signature=sg)` evaluates to sg * sum s_i x_i,
`sym.zero()` to 0, `X.struct.n` / `X.n` / `struct.n` to n(X).  (The group law being linear modulo m — C19 — these
formal sums are exactly what the symmetry computes.)
"""
from __future__ import annotations

import ast
import copy
from fractions import Fraction

from ..core import astutil as A
from ..core.cfg import CFG
from ..core.errors import AnalysisError
from ..core.poly import Poly, Rat, from_ast, NotPolynomial

SING = "yastn.tensor._single"
CON = "yastn.tensor._contractions"
LIN = "yastn.tensor.linalg"
INI = "yastn.tensor._initialize"


def reduce_signs(p: Poly, sigs):
    """s^2 = 1 for signature symbols"""
    out = {}
    for m, c in p.t.items():
        m2 = tuple(sorted((s, (e % 2) if s in sigs else e) for s, e in m))
        m2 = tuple((s, e) for s, e in m2 if e != 0)
        out[m2] = out.get(m2, 0) + c
    return Poly(out)


class Charges:
    def __init__(self, fn):
        self.fn = fn
        self.inl = A.Inliner(fn)
        self.sigs = set()

    def sym(self, node):
        """signature expression -> polynomial (literal +-1 or a signature symbol)"""
        v = A.neg_const(node)
        if v is not None:
            return Poly.const(Fraction(v))
        if isinstance(node, ast.UnaryOp) and isinstance(node.op, ast.USub):
            return -self.sym(node.operand)
        name = "sig<" + A.text(node) + ">"
        self.sigs.add(name)
        return Poly.sym(name)

    def ev(self, node, env=None, depth=0):
        """charge expression -> Poly"""
        env = env or {}
        if depth > 12:
            raise NotPolynomial("depth")
        if isinstance(node, ast.Name):
            if node.id in env:
                v = env[node.id]
                return v if isinstance(v, Poly) else self.ev(v, env, depth + 1)
            d = self.inl.single_def(node.id)
            if d is not None:
                return self.ev(d, env, depth + 1)
            return Poly.sym("c<" + node.id + ">")
        tx = A.text(node)
        if tx.endswith(".struct.n") or (tx.endswith(".n") and isinstance(node, ast.Attribute) and isinstance(node.value, ast.Name)):
            base = tx[: -len(".struct.n")] if tx.endswith(".struct.n") else tx[:-2]
            return Poly.sym(f"n({base})")
        if isinstance(node, ast.Call):
            attr = A.callee_attr(node)
            if attr == "zero":
                return Poly.const(0)
            if attr == "add_charges":
                args = node.args
                sg = A.kwarg(node, "signatures")
                ns = A.kwarg(node, "new_signature")
                if sg is None:
                    coeffs = [Poly.const(1)] * len(args)
                else:
                    if not isinstance(sg, (ast.Tuple, ast.List)) or len(sg.elts) != len(args):
                        raise NotPolynomial("signatures do not match charges")
                    coeffs = [self.sym(e) for e in sg.elts]
                tot = Poly.const(0)
                for c, a in zip(coeffs, args):
                    tot = tot + c * self.ev(a, env, depth + 1)
                if ns is not None:
                    tot = self.sym(ns) * tot
                return reduce_signs(tot, self.sigs)
        if isinstance(node, ast.Subscript):
            return Poly.sym("c<" + tx + ">")
        if isinstance(node, ast.Tuple) and not node.elts:
            return Poly.const(0)
        raise NotPolynomial(tx)


def n_sym(x):
    return Poly.sym(f"n({x})")


def _kw_n(call):
    return A.kwarg(call, "n")


def struct_sites(fn):
    """all constructions that set a total charge: _struct(..., n=E) and X._replace(..., n=E)"""
    out = []
    for c in A.calls(fn):
        if A.call_name(c) == "_struct" or (isinstance(c.func, ast.Attribute) and c.func.attr == "_replace"):
            n = _kw_n(c)
            if n is not None:
                out.append((c, n))
    return out


def run_S2(chk):
    """charge-flow table"""
    prog = chk.prog
    chk.rule("S2", "the total charge of every result is the one the algebra dictates (formal charge arithmetic)", floor=20)

    def check(f, node, expr, want: Poly, what, env=None):
        ch = Charges(f.node)
        try:
            got = reduce_signs(ch.ev(expr, env), ch.sigs)
        except NotPolynomial as e:
            raise AnalysisError(f"{f.short}: cannot evaluate charge expression `{A.short(expr, 60)}` ({e})")
        ok = (got - want).is_zero()
        chk.verdict("S2", (f, node), f"{f.short}: {what}: n = {A.short(expr, 50)}", True if ok else False,
                    f"{f.short}(): total charge of {what} evaluates to [{got}] but the algebra dictates [{want}]: every block of the result "
                    f"then violates the selection rule of the tensor it is stored in (or the charge is silently mislabelled)",
                    {"evaluated": repr(got), "expected": repr(want)})

    def only_site(f, pred=None):
        sites = struct_sites(f.node)
        if pred:
            sites = [s for s in sites if pred(s[0])]
        return sites
    # conj / flip_signature:  -n(a)
    for name in ("conj", "flip_signature"):
        f = prog.func(SING, name)
        s = only_site(f)
        chk.require(len(s) == 1, f"{name}: exactly one construction of struct.n expected")
        check(f, s[0][0], s[0][1], -n_sym("a"), "conjugate")
    # tensordot:  n(a) + n(b)
    f = prog.func(CON, "tensordot")
    s = only_site(f)
    chk.require(len(s) == 1, "tensordot: struct_c._replace(n=n_c) expected")
    check(f, s[0][0], s[0][1], n_sym("a") + n_sym("b"), "contraction")
    # vdot: computes only if n(a') + n(b') == 0
    f = prog.func(CON, "vdot")
    nc = [n for n in A.walk_local(f.node) if isinstance(n, ast.Assign) and A.text(n.targets[0]) == "n_c"]
    chk.require(nc, "vdot: n_c not found")
    check(f, nc[0], nc[0].value, n_sym("a") + n_sym("b"), "scalar product (charge of conj(a) x b)")
    guard = [n for n in A.walk_local(f.node) if isinstance(n, ast.If) and A.text(n.test) in ("n_c == a.config.sym.zero()", "n_c == b.config.sym.zero()")]
    okg = bool(guard) and any(isinstance(x, ast.Call) and A.call_name(x) == "_meta_vdot" for b_ in guard[0].body for x in ast.walk(b_)) and \
        any(isinstance(b_, ast.Assign) and A.text(b_.value) == "()" for b_ in guard[0].orelse)
    if not okg:
        # the guard clause form: `if n_c != zero: return backend.vdot(.., ())` (or `meta = ()` and no pairing in that branch), pairing after it
        g2 = [n for n in A.walk_local(f.node) if isinstance(n, ast.If) and A.text(n.test) in ("n_c != a.config.sym.zero()", "n_c != b.config.sym.zero()",
                                                                                             "not n_c == a.config.sym.zero()", "not n_c == b.config.sym.zero()")]
        if g2:
            br = g2[0].body
            empty = any((isinstance(b_, ast.Return) and b_.value is not None and any(isinstance(x, ast.Tuple) and not x.elts for x in ast.walk(b_.value)))
                        or (isinstance(b_, ast.Assign) and A.text(b_.value) == "()") for b_ in br)
            no_pairing = not any(isinstance(x, ast.Call) and A.call_name(x) == "_meta_vdot" for b_ in br for x in ast.walk(b_))
            leaves = isinstance(br[-1], ast.Return) or bool(g2[0].orelse)
            pairing_elsewhere = any(isinstance(x, ast.Call) and A.call_name(x) == "_meta_vdot" for x in ast.walk(f.node))
            okg = empty and no_pairing and leaves and pairing_elsewhere
            guard = g2
    chk.verdict("S2", (f, guard[0] if guard else f.node), "vdot: blocks are paired only when the charges cancel", True if okg else False,
                "vdot(): the overlap of tensors whose total charges do not cancel is not forced to zero")
    # trace: unchanged
    f = prog.func(CON, "_meta_trace")
    s = only_site(f)
    chk.require(len(s) == 1, "_meta_trace: _struct(..., n=...) expected")
    check(f, s[0][0], s[0][1], n_sym("struct"), "trace")
    # add_leg: n(a) + s*t with t canonical ; default t = -s*n(a)  => 0
    f = prog.func(SING, "add_leg")
    s = only_site(f)
    chk.require(len(s) == 1, "add_leg: struct._replace(..., n=newn) expected")
    tdefs = [n for n in A.walk_local(f.node) if isinstance(n, ast.Assign) and A.text(n.targets[0]) == "t" and isinstance(n.value, ast.Call)
             and A.callee_attr(n.value) == "add_charges"]
    chk.require(len(tdefs) == 2, "add_leg: two definitions of the new leg's charge expected (default and user-given)")
    S_ = Poly.sym("sig<s>")
    for td in tdefs:
        ch = Charges(f.node)
        is_default = "a.struct.n" in A.text(td.value)
        # evaluate t's definition with `t` (user) symbolic
        tval = reduce_signs(ch.ev(td.value, {"t": Poly.sym("c<t_user>")}), ch.sigs | {"sig<s>"})
        want_t = (-S_ * n_sym("a")) if is_default else Poly.sym("c<t_user>")
        ok_t = (reduce_signs(tval - want_t, {"sig<s>"})).is_zero()
        chk.verdict("S2", (f, td), f"add_leg: charge of the new leg ({'default' if is_default else 'user'}) = {A.short(td.value, 50)}", True if ok_t else False,
                    f"add_leg(): the {'default' if is_default else 'user-given'} charge of the new leg evaluates to [{tval}], expected [{want_t}]")
        ch2 = Charges(f.node)
        got = reduce_signs(ch2.ev(s[0][1], {"t": tval}), ch2.sigs | {"sig<s>"})
        want = Poly.const(0) if is_default else n_sym("a") + S_ * Poly.sym("c<t_user>")
        chk.verdict("S2", (f, s[0][0]), f"add_leg: n of result with {'default' if is_default else 'user'} charge", True if (reduce_signs(got - want, {"sig<s>"})).is_zero() else False,
                    f"add_leg(): total charge evaluates to [{got}], the algebra dictates [{want}] (n(a) + s*t)")
    # the default charge is used exactly when no charge was given: every charge, including the falsy ones 0 and (), is a valid user
    # value, so the branch must test identity with None — decided by evaluating the branch condition on witness values
    from ..core.minieval import evaluate, CannotEvaluate
    par_ = A.enclosing_map(f.node)
    for td in tdefs:
        if "a.struct.n" not in A.text(td.value):
            continue
        cur = td
        cond = None
        while cur in par_:
            p_ = par_[cur]
            if isinstance(p_, ast.If):
                cond = (p_.test, cur in p_.body)
                break
            cur = p_
        chk.require(cond is not None, "add_leg: branch that selects the default charge not found")
        try:
            res = {repr(w): bool(evaluate(cond[0], {"t": w})) is cond[1] for w in (None, 0, (), (0,), 1, (1, 0))}
        except CannotEvaluate as e:
            raise AnalysisError(f"add_leg: cannot evaluate `{A.text(cond[0])}` ({e})")
        ok = res["None"] and not any(v for k, v in res.items() if k != "None")
        chk.verdict("S2", (f, td), f"add_leg: default charge iff t is None (`{A.text(cond[0])}`)", True if ok else False,
                    f"add_leg(): the default charge -s*n(a) is taken for t in {[k for k, v in res.items() if v]}; it must be taken for None only: an explicit "
                    f"zero charge (t=0 or t=()) is a valid request and gives n(result) = n(a), not 0")
    # rand_like: the result has the template's legs *and* total charge
    rl = prog.func("yastn.initialize", "rand_like")
    tpl = rl.params[0]
    cc = [c for c in A.calls(rl.node) if A.call_name(c) in ("rand", "randR", "randC", "zeros", "ones")]
    chk.require(cc, "rand_like: constructor call not found")
    kws = {k.arg: A.text(k.value) for k in cc[0].keywords if k.arg}
    ok = kws.get("n") in (f"{tpl}.n", f"{tpl}.struct.n") and kws.get("legs", "").startswith(f"{tpl}.get_legs(") and kws.get("isdiag") == f"{tpl}.isdiag" \
        and kws.get("config") == f"{tpl}.config"
    chk.verdict("S2", (rl, cc[0]), f"rand_like: config, legs, n, isdiag of the template are forwarded", True if ok else False,
                f"rand_like(): the constructor call receives {kws}; the template's total charge / legs / isdiag / config must all be forwarded "
                f"(a dropped n= gives a tensor of charge 0 whose blocks violate the template's selection rule)")
    # remove_leg: n(a) - s_leg * t_leg
    f = prog.func(SING, "remove_leg")
    s = only_site(f)
    chk.require(len(s) == 1, "remove_leg: struct._replace(..., n=newn) expected")
    ch = Charges(f.node)
    got = reduce_signs(ch.ev(s[0][1], {"t": Poly.sym("c<t_leg>")}), ch.sigs)
    sg = [x for x in ch.sigs]
    if not sg:
        chk.bad("S2", (f, s[0][0]), f"remove_leg: n = {A.short(s[0][1], 50)}",
                f"remove_leg(): total charge evaluates to [{got}], which does not involve the signature of the removed leg; the algebra dictates "
                f"n(a) - s_leg*t_leg: for a leg of signature +1 carrying a non-zero charge every block of the result violates the selection rule "
                f"(right only for s_leg = -1, the default of add_leg, and for Z2)")
        sg = None
    chk.require(sg is None or len(sg) == 1, "remove_leg: one signature symbol expected")
    if sg is None:
        return_early = True
    else:
        return_early = False
    want = n_sym("a") - Poly.sym(sg[0] if sg else "sig<?>") * Poly.sym("c<t_leg>")
    if not return_early:
        chk.verdict("S2", (f, s[0][0]), f"remove_leg: n = {A.short(s[0][1], 50)}", True if (got - want).is_zero() else False,
                    f"remove_leg(): total charge evaluates to [{got}], the algebra dictates [{want}] (n(a) - s_leg*t_leg)")
        chk.verdict("S2", (f, s[0][0]), "remove_leg: signature of the removed leg", True if sg[0] == "sig<a.struct.s[haxis]>" else False,
                    f"remove_leg(): the signature used is `{sg[0]}`, not that of the removed native leg a.struct.s[haxis]")
    # factorisations: total charge of every struct returned by the meta functions, identified by its position in the returned
    # tuple and evaluated separately for each value of the boolean knob (independent of if/else vs conditional expression,
    # of temporaries and of local names)
    ZERO = "<zero>"

    def returned_charges(f, assume):
        from ..core.knob import KnobEval
        ke = KnobEval(f.node, assume)
        rets = [r for r in A.returns_of(f.node) if r.value is not None and ke.is_live(r)]
        chk.require(len(rets) == 1 and isinstance(rets[0].value, ast.Tuple), f"{f.name}: single tuple return expected")
        out = []
        for e in rets[0].value.elts:
            vs = ke.values(e.id, rets[0]) if isinstance(e, ast.Name) else [e]
            if len(vs) != 1 or not isinstance(vs[0], ast.Call):
                continue
            c = vs[0]
            is_new = A.call_name(c) == "_struct"
            is_rep = isinstance(c.func, ast.Attribute) and c.func.attr == "_replace"
            if not (is_new or is_rep):
                continue
            n = _kw_n(c)
            if n is None:
                if is_new:
                    out.append((c, "?"))
                    continue
                # inherits the charge of the struct it was derived from (possibly through earlier _replace without n)
                recv = c.func.value
                seen = 0
                while isinstance(recv, ast.Name) and seen < 4:
                    vv = [v for v in ke.values(recv.id, c) if v is not None]
                    nxt = None
                    for v in vv:
                        if isinstance(v, ast.Call) and isinstance(v.func, ast.Attribute) and v.func.attr == "_replace" and _kw_n(v) is None:
                            nxt = v.func.value
                        else:
                            nxt = "stop"
                    if nxt is None or nxt == "stop" or A.text(nxt) == recv.id:
                        break
                    recv = nxt
                    seen += 1
                out.append((c, A.text(recv) + ".n"))
            else:
                t = ke.text(n, c)
                out.append((c, ZERO if t.endswith(".sym.zero()") else t))
        return out
    for name, assume, want, why in (
            ("_meta_svd", {"nU": True}, ["struct.n", ZERO, ZERO], "with nU=True the charge of the tensor is carried by U; S and V are neutral"),
            ("_meta_svd", {"nU": False}, [ZERO, ZERO, "struct.n"], "with nU=False the charge of the tensor is carried by V; U and S are neutral"),
            ("_meta_qr", {}, ["struct.n", ZERO], "Q inherits the charge of the tensor, R is neutral"),
            ("_meta_eigh", {}, [ZERO, ZERO], "factors of a (necessarily neutral) Hermitian tensor are neutral")):
        f = prog.func(LIN, name)
        got = returned_charges(f, assume)
        chk.require(len(got) == len(want), f"{name}: {len(got)} struct-valued return elements found, {len(want)} expected")
        for k, ((c, g), w) in enumerate(zip(got, want)):
            chk.verdict("S2", (f, c), f"{name}{assume or ''}: charge of returned struct #{k + 1} = {g}", True if g == w else False,
                        f"{name}(): {why}; returned struct #{k + 1} carries `{g}` instead of `{w}`")
    # guards on operands' charges, decided by evaluating the guard expression on witness charges (sa/core/minieval.py): the guard must
    # fire exactly for the charges that do not fit
    from ..core.minieval import evaluate, CannotEvaluate

    def charge_guards(f):
        return [n for n in A.walk_local(f.node) if isinstance(n, ast.If) and any(isinstance(b_, ast.Raise) for b_ in n.body)
                and any(isinstance(x, ast.Attribute) and x.attr == "n" and A.text(x).endswith("struct.n") for x in ast.walk(n.test))]
    for mod, name, what, subjects, cases in (
            (LIN, "eigh", "eigh requires zero charge", 1, [(((0, 0),), False), (((1, 0),), True), (((0, -2),), True)]),
            (SING, "diag", "diagonal tensors are neutral", 1, [(((0, 0),), False), (((0, 1),), True)]),
            ("yastn.tensor._algebra", "_pre_addition", "summands have equal charge", 2, [(((1, 0), (1, 0)), False), (((1, 0), (0, 0)), True)]),
            ("yastn.initialize", "block", "blocked tensors have equal charge", 2, [(((2,), (2,)), False), (((2,), (1,)), True)])):
        f = prog.func(mod, name)
        found = False
        for g in charge_guards(f):
            subj = sorted({A.text(x) for x in ast.walk(g.test) if isinstance(x, ast.Attribute) and x.attr == "n" and A.text(x).endswith("struct.n")})
            if len(subj) != subjects:
                continue
            def with_zero(test, nsym):
                """`<..>.sym.zero()` is the tuple of nsym zeros"""
                class Z(ast.NodeTransformer):
                    def visit_Call(self, node):
                        if A.text(node).endswith(".sym.zero()"):
                            return ast.copy_location(ast.Tuple(elts=[ast.Constant(0) for _ in range(nsym)], ctx=ast.Load()), node)
                        return self.generic_visit(node)
                return ast.fix_missing_locations(Z().visit(copy.deepcopy(test)))
            try:
                ok = all(bool(evaluate(with_zero(g.test, len(vals[0])), dict(zip(subj, vals)))) is want for vals, want in cases)
            except CannotEvaluate:
                continue
            if ok:
                found = True
                chk.ok("S2", (f, g), f"{name}: {what}", {"guard": A.text(g.test), "decided_on_witnesses": [list(map(list, v)) for v, _w in cases]})
                break
        if not found:
            chk.bad("S2", f, f"{name}: {what}", f"{name}(): no guard raises exactly when {what.replace('requires', 'is violated:').replace('are', 'are not')}: operands whose "
                    f"charges do not fit are combined and the result violates charge conservation")
    # who may set n: every other construction of a total charge in the tensor layer is listed above
    listed = {"conj", "flip_signature", "tensordot", "_meta_trace", "add_leg", "remove_leg", "_meta_svd", "_meta_qr", "_meta_eigh", "_meta_eigh_lowrank",
              "_meta_eig", "__init__", "from_dict", "to_nonsymmetric", "load_from_hdf5", "block", "eig", "eigh"}
    for mn in ("yastn.tensor._contractions", "yastn.tensor._single", "yastn.tensor._merging", "yastn.tensor.linalg", "yastn.tensor._algebra",
               "yastn.tensor._output", "yastn.tensor._initialize", "yastn.initialize"):
        m = prog.module(mn)
        for f in m.funcs.values():
            for c, n in struct_sites(f.node):
                if f.name in listed:
                    continue
                tx = A.text(n)
                if tx.endswith("struct.n") or tx.endswith(".n"):
                    chk.ok("S2", (f, c), f"{f.short}: n inherited ({tx})", sample=False)
                else:
                    chk.undecided("S2", (f, c), c, "construction of a total charge that is not in the charge-flow table")


def run_S7(chk):
    """S7: `struct.size` is the number of stored elements, the sum over the blocks listed in `struct.D`.  A struct whose block list was
    *narrowed* (filtered / index-selected: engine seqsel) by `X._replace(t=.., D=..)` without `size=` keeps the size of the larger block
    list; that is harmless for a scratch value but not for a struct that becomes the struct of a tensor (`._replace(struct=<it>)`,
    `<tensor>.struct = <it>`) or is returned."""
    from ..core.seqsel import SelOrder
    prog = chk.prog
    chk.rule("S7", "a struct whose block list was narrowed carries the matching size when it becomes the struct of a result", floor=1)
    n = 0
    for f in prog.all_funcs():
        if not f.module.name.startswith(("yastn.tensor", "yastn.initialize")) or "torch" in f.module.name or "_replace(" not in A.text(f.node):
            continue
        so = None
        par = None
        for st in A.walk_local(f.node, include_self=False):
            if not (isinstance(st, ast.Assign) and isinstance(st.value, ast.Call) and isinstance(st.value.func, ast.Attribute) and st.value.func.attr == "_replace"
                    and A.text(st.value.func.value).endswith("struct")):
                continue
            kw = {k.arg: k.value for k in st.value.keywords if k.arg}
            if "D" not in kw:
                continue
            so = so or SelOrder(f.node)
            facts = so.facts(kw["D"], st)
            narrowed = sorted({sel for fam, sel, mem in facts if sel != "full"})
            if not narrowed:
                continue
            n += 1
            if "size" in kw:
                chk.ok("S7", (f, st), f"{f.short}: `{A.short(st, 60)}` narrows the block list ({narrowed[0]}) and sets size")
                continue
            # does the struct escape into a result?
            tname = A.text(st.targets[0])
            escapes = None
            for x in A.walk_local(f.node, include_self=False):
                if isinstance(x, ast.Call) and isinstance(x.func, ast.Attribute) and x.func.attr == "_replace" and any(k.arg == "struct" and A.text(k.value) == tname for k in x.keywords):
                    escapes = x
                if isinstance(x, ast.Assign) and A.text(x.targets[0]).endswith(".struct") and A.text(x.value) == tname:
                    escapes = x
                if isinstance(x, ast.Return) and x.value is not None and any(isinstance(y, ast.Name) and y.id == tname for y in ast.walk(x.value)) \
                        and isinstance(st.targets[0], ast.Name):
                    escapes = x
            chk.verdict("S7", (f, st), f"{f.short}: `{A.short(st, 60)}` narrows the block list ({narrowed[0]}) without size; scratch value only",
                        False if escapes is not None else True,
                        f"{f.short}(): `{A.short(st, 60)}` keeps only some of the blocks ({narrowed[0]}) but inherits `size` of the full block list, and the struct "
                        f"becomes that of a result (`{A.short(escapes, 50) if escapes is not None else ''}`): Tensor.size exceeds the stored data, is_consistent() "
                        f"fails and element-wise operations on the result raise")
    return n


def run_S1_axes(chk):
    """the axis-range guard shared by tensordot / trace / vdot-like operations accepts exactly the positions 0 .. ndim-1: decided by
    evaluating the guards of _unpack_trans_test_axes_pair (single-assignment temporaries inlined) on witness axis tuples.  A negative
    position passes Python indexing further down (the contraction is carried out) while the bookkeeping of meta-fusions compares
    positions by value -- the result has more meta legs than native ones."""
    from ..core.minieval import evaluate, CannotEvaluate
    prog = chk.prog
    f = prog.func("yastn.tensor._tests", "_unpack_trans_test_axes_pair")
    inl = A.Inliner(f.node)
    pa, pb = f.params[0], f.params[1]
    guards = []
    for n in A.walk_local(f.node):
        if isinstance(n, ast.If) and any(isinstance(b_, ast.Raise) for b_ in n.body):
            t = inl.expand(n.test)
            tx = A.text(t)
            if "axes" in tx and ".ndim" in tx:
                guards.append((n, t))
    if not guards:
        chk.bad("S1", f, "axis-range guard", f"{f.short}(): no guard compares the user's axes with the number of legs: positions outside 0..ndim-1 are "
                f"not rejected")
        return
    invalid = [((-1,), (0,)), ((0,), (-1,)), ((3,), (0,)), ((0,), (2,)), ((0, 5), (1, 0)), ((-3,), (1,))]
    valid = [((0, 2), (1, 0)), ((), ()), ((1,), (0,)), ((2,), (1,))]

    def rejects(w):
        env = {"axes": w, f"{pa}.ndim": 3, f"{pb}.ndim": 2}
        return any(bool(evaluate(t, env)) for n, t in guards)
    try:
        missed = [w for w in invalid if not rejects(w)]
        wrongly = [w for w in valid if rejects(w)]
    except CannotEvaluate as e:
        raise AnalysisError(f"{f.short}: axis-range guard `{A.short(guards[0][0].test)}` cannot be evaluated ({e})")
    chk.verdict("S1", (f, guards[0][0]), f"axis-range guard `{A.short(guards[0][0].test, 60)}` evaluated on witness axes", False if (missed or wrongly) else True,
                f"{f.short}(): for operands with 3 and 2 legs the guard accepts the out-of-range axes {missed}" + (f" and rejects the valid {wrongly}" if wrongly else "")
                + ": a negative contracted axis is resolved by Python indexing in _unpack_axes (the contraction is performed) while the callers drop "
                  "meta-fusions by `ii not in axes`: the result keeps a meta-fusion entry for a leg it no longer has (ill-formed tensor)")


def run_S1(chk):
    """selection rule applied where blocks are created; loaders validate"""
    prog = chk.prog
    chk.rule("S1", "blocks are created only for charges satisfying the selection rule; loaders validate what they build", floor=6)
    run_S1_axes(chk)
    run_S7(chk)
    f = prog.func(INI, "set_block")
    cfg = CFG(f.node)
    stmts = [n.ast for n in cfg.nodes if n.ast is not None]
    guard = [n for n in A.walk_local(f.node) if isinstance(n, ast.If) and ".sym.fuse(" in A.text(n.test) and "a.struct.n" in A.text(n.test)
             and any(isinstance(b_, ast.Raise) for b_ in n.body)]
    stores = [s for s in stmts if isinstance(s, ast.Assign) and A.text(s.targets[0]) in ("a.struct", "a._data", "a.slices")]
    chk.require(stores, "set_block: stores of a.struct/a._data not found")
    if not guard:
        chk.bad("S1", f, "set_block: selection rule", "set_block(): the selection-rule guard `fuse(ts, s, 1) == n` -> raise is gone: blocks with forbidden "
                "charges can be created, dense elements outside the allowed sectors become non-zero")
    else:
        g = guard[0]
        t = A.text(g.test)
        okshape = t.startswith("not ") and "a.struct.s, 1)" in t and "== a.struct.n" in t
        chk.verdict("S1", (f, g), g.test, True if okshape else False, "set_block(): the guard is not `not all(fuse(ts, a.struct.s, 1) == a.struct.n)`")
        for s in stores:
            chk.verdict("S1", (f, s), f"guard dominates `{A.short(s, 40)}`", True if cfg.must_pass([s], [g.test]) else False,
                        f"set_block(): `{A.short(s, 40)}` is reachable without passing the selection-rule guard")
    f = prog.func(INI, "_fill_tensor")
    # structural: a boolean selector  M = all(sym.fuse(X, <tensor>.struct.s, 1) == <tensor>.struct.n, axis=1)  exists, and both the candidate
    # charges X and a second array (the dimensions) are restricted by that very selector (names are read off the code; the normal form
    # N1 brings a helper's body back)
    ten = f.params[0]
    sel = None
    for n in A.walk_local(f.node):
        if isinstance(n, ast.Call) and (A.call_name(n) or "").split(".")[-1] == "all" and n.args and isinstance(n.args[0], ast.Compare) \
                and len(n.args[0].ops) == 1 and isinstance(n.args[0].ops[0], ast.Eq):
            l, r = n.args[0].left, n.args[0].comparators[0]
            for fu, tot in ((l, r), (r, l)):
                if isinstance(fu, ast.Call) and A.callee_attr(fu) == "fuse" and len(fu.args) == 3 and A.text(fu.args[1]) == f"{ten}.struct.s" \
                        and A.neg_const(fu.args[2]) == 1 and A.text(tot) == f"{ten}.struct.n":
                    sel = (n, fu.args[0])
    okind = use = used = False
    if sel is not None:
        okind = True
        par_ = A.enclosing_map(f.node)
        st_ = A.stmt_of(sel[0], par_)
        mname = A.text(st_.targets[0]) if isinstance(st_, ast.Assign) and st_.value is sel[0] else A.text(sel[0])
        xname = A.text(sel[1])
        subs = [x for x in A.walk_local(f.node) if isinstance(x, ast.Subscript) and isinstance(x.ctx, ast.Load) and A.text(x.slice) == mname]
        use = any(A.text(x.value) == xname for x in subs)
        used = any(A.text(x.value) != xname for x in subs)
    ind = [A.stmt_of(sel[0], A.enclosing_map(f.node))] if sel is not None else []
    chk.verdict("S1", (f, ind[0] if ind else f.node), "_fill_tensor: candidate blocks filtered by the selection rule", True if (okind and use and used) else False,
                "_fill_tensor(): the candidate charge combinations are no longer filtered by `fuse(t, s, 1) == n` (both charges and dimensions)")
    T = prog.cls("yastn.tensor", "Tensor")
    fd = T.methods["from_dict"]
    leg = [n for n in fd.node.body if isinstance(n, ast.If) and "'dict_ver' not in d" in A.text(n.test)]
    chk.verdict("S1", (fd, leg[0] if leg else fd.node), "legacy loader calls is_consistent()", True if leg and "c.is_consistent()" in A.text(leg[0]) else False,
                "Tensor.from_dict (legacy): the loaded tensor is no longer validated by is_consistent()")
    lh = prog.func("yastn.initialize", "load_from_hdf5")
    chk.verdict("S1", lh, "hdf5 loader calls is_consistent()", True if "c.is_consistent()" in A.text(lh.node) else False,
                "load_from_hdf5: the loaded tensor is no longer validated by is_consistent()")
    init = T.methods["__init__"]
    t = A.text(init.node)
    chk.verdict("S1", init, "Tensor(): len(n) == NSYM", True if "len(n) != self.config.sym.NSYM" in t else False, "Tensor.__init__: the length of n is not checked")
    chk.verdict("S1", init, "Tensor(): diagonal => n == 0", True if "any((x != 0 for x in n))" in t else False, "Tensor.__init__: a charged diagonal tensor is accepted")


def run_S45(chk):
    """C04: connecting-leg pairing and parameter flow of the factorisations"""
    prog = chk.prog
    chk.rule("S4", "the new connecting leg has signature E in one factor and -E in the other, in struct and in the fusion record", floor=12)
    chk.rule("S5", "Uaxis/Vaxis/Qaxis/Raxis move the connecting leg of the factor of the same letter from where it was created", floor=10)
    # S4 in the meta functions
    for name, left, right, param, mid in (("_meta_svd", "Ustruct", "Vstruct", "sU", "Sstruct"), ("_meta_qr", "Qstruct", "Rstruct", "sQ", None),
                                          ("_meta_eigh", "Ustruct", None, "sU", "Sstruct")):
        f = prog.func(LIN, name)

        def s_of(nm):
            d = [n for n in A.walk_local(f.node) if isinstance(n, ast.Assign) and A.text(n.targets[0]) == nm and isinstance(n.value, ast.Call)]
            if not d:
                return None, None
            s = A.kwarg(d[-1].value, "s")
            return d[-1], s
        dl, sl = s_of(left)
        chk.require(sl is not None and isinstance(sl, ast.Tuple) and len(sl.elts) == 2, f"{name}: signature of {left} not found")
        chk.verdict("S4", (f, dl), f"{name}: {left}.s = {A.text(sl)}", True if A.text(sl.elts[1]) == param and A.text(sl.elts[0]) == "struct.s[0]" else False,
                    f"{name}: the connecting leg of the left factor must be its last leg with signature `{param}` (found {A.text(sl)})")
        if right:
            dr, sr = s_of(right)
            chk.require(sr is not None and isinstance(sr, ast.Tuple) and len(sr.elts) == 2, f"{name}: signature of {right} not found")
            chk.verdict("S4", (f, dr), f"{name}: {right}.s = {A.text(sr)}", True if A.text(sr.elts[0]) == f"-{param}" and A.text(sr.elts[1]) == "struct.s[1]" else False,
                        f"{name}: the connecting leg of the right factor must be its first leg with signature `-{param}` (found {A.text(sr)}): "
                        f"the factors cannot be contracted back")
        if mid:
            dm, sm = s_of(mid)
            chk.verdict("S4", (f, dm), f"{name}: {mid}.s = {A.text(sm)}", True if sm is not None and A.text(sm) == f"(-{param}, {param})" else False,
                        f"{name}: the diagonal factor must have signature (-{param}, {param})")
        # charges on the two sides come from the same variable
        tcon = [n for n in A.walk_local(f.node) if isinstance(n, ast.Assign) and A.text(n.targets[0]).endswith("t") and "t_con" in A.text(n.value)
                and A.text(n.targets[0]) in ("Ut", "Vt", "St", "Qt", "Rt")]
        chk.verdict("S4", (f, tcon[0] if tcon else f.node), f"{name}: connecting charges from one variable t_con ({[A.text(x.targets[0]) for x in tcon]})",
                    True if len(tcon) >= (2 if (right or mid) else 1) else False, f"{name}: the charges of the connecting leg are not derived from one variable")
    # S4 in the callers: the factor that ends with the new leg and the factor that starts with it give it opposite signatures, in the
    # signature sequence and in the fusion record (names are read off the `_replace` results; engine E3 discover_triples)
    from . import e3 as _e3
    for name in ("svd", "qr", "eigh", "eig"):
        f = prog.func(LIN, name)
        b = A.local_bindings(f.node)
        trip = _e3.discover_triples(f)
        if not trip:
            if name in ("eigh", "eig"):
                continue
            raise AnalysisError(f"{name}: no factor built by _replace(struct=, hfs=, mfs=) with a signature sequence found")
        ends, starts = [], []
        for sname, hname, mname in trip:
            sv = [v for st, v, k in b.get(sname, []) if v is not None and k == "assign"]
            hv = [v for st, v, k in b.get(hname, []) if v is not None and k == "assign"]
            if not sv or not hv:
                continue
            ss, hs = _e3._segments(sv[0], None), _e3._segments(hv[0], None)
            for segs_s, segs_h, where, acc in ((ss[-1:], hs[-1:], "end", ends), (ss[:1], hs[:1], "start", starts)):
                if segs_s and segs_s[0][0] == "lit" and segs_s[0][1] == 1 and len(ss) > 1:
                    sig = A.text(ast.parse(segs_s[0][2], mode="eval").body.elts[0])
                    frag = f"(_Fusion(s=({sig},)),)"
                    okh = bool(segs_h) and segs_h[0][0] == "lit" and segs_h[0][2].replace(" ", "") == frag.replace(" ", "")
                    chk.verdict("S4", (f, hv[0]), f"{name}: {hname} has `{frag}` at the {where}", True if okh else False,
                                f"{name}: the fusion record of the connecting leg in {hname} is not `{frag}` at the {where} (signature sequence {sname} has `{sig}` there)")
                    acc.append((sname, sig))
        for (sl_, e1) in ends:
            for (sr_, e2) in starts:
                neg = lambda t: t[1:] if t.startswith("-") else "-" + t
                chk.verdict("S4", (f, f.node), f"{name}: connecting leg `{e1}` in {sl_} and `{e2}` in {sr_} are opposite", True if e2 == neg(e1) else False,
                            f"{name}: the factor ending with the new leg gives it signature `{e1}`, the factor starting with it `{e2}`: they must be opposite "
                            f"for the factors to contract back")
        # S: fusion records (-E, E)
        for nm, ds in b.items():
            for st, v, k in ds:
                if v is not None and k == "assign" and isinstance(v, ast.Tuple) and len(v.elts) == 2 and all(isinstance(e, ast.Call) and A.call_name(e) == "_Fusion" for e in v.elts):
                    tx = A.text(v).replace(" ", "")
                    m_ = __import__("re").fullmatch(r"\(_Fusion\(s=\((-?\w+),\)\),_Fusion\(s=\((-?\w+),\)\)\)", tx)
                    ok = bool(m_) and (m_.group(1) == "-" + m_.group(2) or m_.group(2) == "-" + m_.group(1))
                    chk.verdict("S4", (f, v), f"{name}: {nm} = {A.text(v)}", True if ok else False, f"{name}: fusion records of the diagonal factor are not (-E, E)")
    # S5 parameter flow
    for name, pairs in (("svd", [("U", "Uaxis", -1), ("V", "Vaxis", 0)]), ("svd_with_truncation", [("U", "Uaxis", -1), ("V", "Vaxis", 0)]),
                        ("qr", [("Q", "Qaxis", -1), ("R", "Raxis", 0)]), ("eigh", [("U", "Uaxis", -1)]), ("eigh_with_truncation", [("U", "Uaxis", -1)]),
                        ("eig", [("U", "Uaxis", -1), ("V", "Vaxis", 0)])):
        f = prog.func(LIN, name)
        for letter, par, src in pairs:
            if par not in f.params:
                continue
            mv = [n for n in A.walk_local(f.node) if isinstance(n, ast.Assign) and A.text(n.targets[0]) == letter and isinstance(n.value, ast.Call)
                  and A.callee_attr(n.value) == "moveaxis"]
            if not mv:
                # moved on the way out: `return Q.moveaxis(...), R.moveaxis(...)`
                anyw = [c for c in A.calls(f.node) if A.callee_attr(c) == "moveaxis" and isinstance(c.func, ast.Attribute) and A.text(c.func.value) == letter
                        and A.kwarg(c, "destination") is not None and A.text(A.kwarg(c, "destination")) == par]
                if anyw:
                    c = anyw[-1]
                    ok = A.neg_const(A.kwarg(c, "source")) == src
                    chk.verdict("S5", (f, c), c, True if ok else False,
                                f"{name}(): the connecting leg of {letter} (created at position {src}) must be moved to `{par}`; found `{A.short(c, 60)}`")
                    continue
            if not mv:
                # wrapper that forwards the position to the decomposition and masks where the leg then is
                fw = [c for c in A.calls(f.node) if A.kwarg(c, par) is not None and A.text(A.kwarg(c, par)) == par]
                am = [c for c in A.calls(f.node) if A.callee_attr(c) == "apply_mask" and A.kwarg(c, "axes") is not None and par in A.text(A.kwarg(c, "axes"))]
                ok = bool(fw) and bool(am)
                chk.verdict("S5", (f, fw[0] if fw else f.node), f"{name}: `{par}` forwarded; mask applied at axes={A.text(A.kwarg(am[0], 'axes')) if am else '?'}",
                            True if ok else False, f"{name}(): `{par}` is accepted but neither moved to nor forwarded consistently (decomposition and mask must "
                            f"use the same position)")
                continue
            c = mv[-1].value
            ok = A.text(c.func.value) == letter and A.neg_const(A.kwarg(c, "source")) == src and A.text(A.kwarg(c, "destination")) == par
            chk.verdict("S5", (f, mv[-1]), mv[-1], True if ok else False,
                        f"{name}(): the connecting leg of {letter} (created at position {src}) must be moved to `{par}`; found `{A.short(mv[-1], 60)}`")
    # wrappers forward the selectors to the decomposition and mask on the connecting leg where it is at that moment
    swt = prog.func(LIN, "svd_with_truncation")
    call = [c for c in A.calls(swt.node) if A.call_name(c) == "svd"]
    chk.require(call, "svd_with_truncation: svd call not found")
    kws = {k.arg: A.text(k.value) for k in call[0].keywords if k.arg}
    ok = kws.get("sU") == "sU" and kws.get("nU") == "nU" and kws.get("axes") == "axes" and "Uaxis" not in kws and "Vaxis" not in kws
    chk.verdict("S5", (swt, call[0]), call[0], True if ok else False,
                "svd_with_truncation(): sU/nU/axes are not forwarded unchanged (or Uaxis/Vaxis are applied before the mask)")
    am = [c for c in A.calls(swt.node) if A.callee_attr(c) == "apply_mask"]
    ok = am and A.text(A.kwarg(am[0], "axes")) == "(-1, 0, 0)"
    chk.verdict("S5", (swt, am[0] if am else swt.node), am[0] if am else "apply_mask", True if ok else False,
                "svd_with_truncation(): the mask must act on the connecting leg where it is created: last leg of U, first of S and V (axes=(-1, 0, 0))")
    sv = prog.func(LIN, "svd")
    ms = [c for c in A.calls(sv.node) if A.call_name(c) == "_meta_svd"]
    ok = ms and [A.text(a) for a in ms[0].args][-2:] == ["sU", "nU"]
    chk.verdict("S5", (sv, ms[0] if ms else sv.node), ms[0] if ms else "_meta_svd", True if ok else False, "svd(): sU and nU do not reach _meta_svd")


# ------------------------------------------------ CK1 leg-sector charges carry the signature of their leg
def run_CK1(chk, rule, modules, floor_sites=0):
    """A sector charge read from a Leg (`<leg>.t[i]`) is only meaningful together with the signature of that leg: the
    tensor-charge convention is n = sum_i s_i t_i.  Every `sym.add_charges(...)` call with such an argument must pass
    `signatures=` whose entry at that position reads `<leg>.s` of the same leg expression (possibly negated)."""
    prog = chk.prog
    n = 0
    for mname in modules:
        prog.module(mname)
    if True:
        for f in prog.all_funcs(set(modules)):
            for c in A.calls(f.node):
                if A.callee_attr(c) != "add_charges":
                    continue
                sig = A.kwarg(c, "signatures")
                for i, a in enumerate(c.args):
                    if not (isinstance(a, ast.Subscript) and isinstance(a.value, ast.Attribute) and a.value.attr == "t"):
                        continue
                    leg = A.text(a.value.value)
                    if leg.endswith("struct"):
                        continue      # native block charges of a tensor: handled by the S-rules
                    n += 1
                    ok = False
                    if isinstance(sig, (ast.Tuple, ast.List)) and i < len(sig.elts):
                        e = sig.elts[i]
                        ok = any(isinstance(x, ast.Attribute) and x.attr == "s" and A.text(x.value) == leg for x in ast.walk(e))
                    chk.verdict(rule, (f, c), c, True if ok else False,
                                f"{f.short}: the sector charge `{A.text(a)}` is added without the signature `{leg}.s` of the leg it was read "
                                f"from: the resulting tensor charge has the wrong sign whenever that leg has signature -1 relative to the "
                                f"default (e.g. after conj()/H) and the charge is not its own inverse (U1, Z3, ...); the boundary tensor is then "
                                f"created in an empty sector and overlaps evaluate to 0")
    chk.require(n >= floor_sites, f"{rule}: {n} add_charges sites with a leg-sector argument found (>= {floor_sites} confirmed by hand)")
    return n


# ------------------------------------------------ S6 per-leg charge slices of flat block-charge tuples are aligned
def _nsym_poly(e):
    """polynomial of an index expression with every spelling of the number of symmetry components mapped to one symbol"""
    import copy
    from ..core.poly import from_ast

    class R(ast.NodeTransformer):
        def visit_Attribute(self, n):
            if n.attr == "NSYM":
                return ast.Name(id="nsym", ctx=ast.Load())
            return ast.Name(id="<" + A.text(n) + ">", ctx=ast.Load())

        def visit_Name(self, n):
            return ast.Name(id="nsym", ctx=ast.Load()) if n.id in ("nsym", "NSYM") else n

        def visit_Subscript(self, n):
            return ast.Name(id="<" + A.text(n) + ">", ctx=ast.Load())

        def visit_Call(self, n):
            return ast.Name(id="<" + A.text(n) + ">", ctx=ast.Load())
    return from_ast(R().visit(copy.deepcopy(e)))


def run_S6(chk, rule="S6", prefixes=("yastn.tensor", "yastn.initialize", "yastn.krylov"), floor=25):
    """Block charges are stored flat: leg k owns components [k*nsym, (k+1)*nsym).  Every slice whose width is nsym (as a
    polynomial identity upper - lower == nsym) must start at a multiple of nsym (every monomial of `lower` contains nsym).
    A start such as `ax` instead of `ax*nsym` is identical for one-component symmetries (U1, Z2, Z3) — the symmetries
    the tests use — and reads the charge of the wrong leg for product symmetries."""
    from ..core.poly import Poly, Rat
    prog = chk.prog
    n = 0
    for f in prog.all_funcs():
        if not f.module.name.startswith(prefixes):
            continue
        inl = None
        for x in ast.walk(f.node):
            if not (isinstance(x, ast.Subscript) and isinstance(x.slice, ast.Slice) and x.slice.step is None and x.slice.upper is not None):
                continue
            if inl is None:
                inl = A.Inliner(f.node, depth=3, stop={"nsym", "NSYM"})
            lo, up = x.slice.lower, x.slice.upper
            lo = inl.expand(lo) if lo is not None else None      # `start = axis * nsym; x[start:start + nsym]`
            up = inl.expand(up)
            try:
                pu = _nsym_poly(up)
                pl = _nsym_poly(lo) if lo is not None else Rat(Poly.const(0))
                if not (pu - pl).equals(Rat(Poly.sym("nsym"))):
                    continue
            except Exception:
                continue
            n += 1
            aligned = pl.d.is_const() and all(any(s == "nsym" for s, _ in m) for m in pl.n.t)
            chk.verdict(rule, (f, x), x, True if aligned else False,
                        f"{f.short}: `{A.text(x)}` takes {A.text(up)} - ({A.text(lo) if lo is not None else 0}) = nsym components of a flat "
                        f"block-charge tuple but does not start at a multiple of nsym: for symmetries with more than one component "
                        f"(Z2xU1, U1xU1, ...) it mixes the charges of two legs; for one-component symmetries it is indistinguishable")
    chk.require(n >= floor, f"{rule}: only {n} width-nsym slices found ({floor} confirmed by hand)")
    return n


# ------------------------------------------------ WH: ordering key per `which`
def _key_normal_form(e):
    """(sign, kind) of an ordering key built from a spectrum by negation / abs / .real; kind in {'abs', 'id'}; None if not of that form"""
    if isinstance(e, ast.UnaryOp) and isinstance(e.op, ast.USub):
        r = _key_normal_form(e.operand)
        return None if r is None else (-r[0], r[1])
    if isinstance(e, ast.Call) and A.call_name(e) in ("abs", "np.abs", "numpy.abs") and len(e.args) == 1:
        r = _key_normal_form(e.args[0])
        return None if r is None else (1, "abs")
    if isinstance(e, ast.Call) and isinstance(e.func, ast.Attribute) and e.func.attr in ("__abs__",) and not e.args:
        r = _key_normal_form(e.func.value)
        return None if r is None else (1, "abs")
    if isinstance(e, ast.Attribute) and e.attr in ("real",):
        return _key_normal_form(e.value)
    if isinstance(e, ast.Name):
        return (1, "id")
    return None


WHICH_PRIORITY = {"LM": (1, "abs"), "SM": (-1, "abs"), "LR": (1, "id"), "SR": (-1, "id")}     # the values to keep / list first are the largest of this key


def run_WH(chk, rule):
    """`which` in {'LM','SM','LR','SR'} (largest/smallest magnitude/real part): the key whose *largest* values are kept by the truncation
    (eigh_with_truncation) and listed first by the backend (eigs_which sorts ascending, so its key is the negative) is |S|, -|S|, S, -S.
    Evaluated per value of `which` on the CFG specialised on it; the key is normalised through negations and abs (|-x| = |x|)."""
    from ..core.knob import KnobEval
    prog = chk.prog
    f = prog.func(LIN, "eigh_with_truncation")
    calls = [c for c in A.calls(f.node) if A.call_name(c) == "truncation_mask" and c.args]
    chk.require(calls, "eigh_with_truncation: call of truncation_mask not found")
    par = A.enclosing_map(f.node)
    st = A.stmt_of(calls[0], par)
    from ..core.minieval import evaluate as _ev, CannotEvaluate as _CE
    b_loc = A.local_bindings(f.node)
    for w, want in WHICH_PRIORITY.items():
        knobs = {"which": w}
        # flags derived from the option alone (`by_magnitude = which in ["SM", "LM"]`) are knobs as well
        for nm_, ds_ in b_loc.items():
            if len(ds_) == 1 and ds_[0][1] is not None and ds_[0][2] == "assign" and {x.id for x in ast.walk(ds_[0][1]) if isinstance(x, ast.Name)} <= {"which"}:
                try:
                    val_ = _ev(ds_[0][1], {"which": w})
                except _CE:
                    continue
                except Exception:
                    continue
                if isinstance(val_, (bool, str, int)):
                    knobs[nm_] = val_
        ke = KnobEval(f.node, knobs)
        e = ke.expand(calls[0].args[0], st)
        got = _key_normal_form(e)
        chk.verdict(rule, (f, calls[0]), f"eigh_with_truncation(which='{w}'): mask computed for `{A.short(e, 40)}`", True if got == want else False,
                    f"eigh_with_truncation: with which='{w}' the truncation keeps the largest values of `{A.short(e, 50)}` (normal form {got}); it must keep the "
                    f"{'largest' if want[0] > 0 else 'smallest'} {'magnitudes' if want[1] == 'abs' else 'values'}, i.e. the largest of "
                    f"{'-' if want[0] < 0 else ''}{'|S|' if want[1] == 'abs' else 'S'}")
    g = prog.func("yastn.backend.backend_np", "eigs_which")
    for w, want in WHICH_PRIORITY.items():
        ke = KnobEval(g.node, {g.params[1]: w})
        rets = [r for r in A.returns_of(g.node) if r.value is not None and ke.is_live(r)]
        # with the if-chain specialised, the first live return on the path is the one taken
        rets = sorted(rets, key=lambda r: r.lineno)[:1]
        ok, got, e = False, None, None
        if rets:
            e = ke.expand(rets[0].value, rets[0])
            # table form: {'LM': k1, ...}.get(which, default) / {...}[which]
            wname = g.params[1]

            class Sel(ast.NodeTransformer):
                def visit_Call(self, c):
                    self.generic_visit(c)
                    if isinstance(c.func, ast.Attribute) and c.func.attr == "get" and isinstance(c.func.value, ast.Dict) and c.args \
                            and isinstance(c.args[0], ast.Name) and c.args[0].id == wname:
                        for k_, v_ in zip(c.func.value.keys, c.func.value.values):
                            if isinstance(k_, ast.Constant) and k_.value == w:
                                return v_
                        return c.args[1] if len(c.args) > 1 else ast.Constant(value=None)
                    return c

                def visit_Subscript(self, n):
                    self.generic_visit(n)
                    if isinstance(n.value, ast.Dict) and isinstance(n.slice, ast.Name) and n.slice.id == wname:
                        for k_, v_ in zip(n.value.keys, n.value.values):
                            if isinstance(k_, ast.Constant) and k_.value == w:
                                return v_
                    return n
            e = Sel().visit(e)
            if isinstance(e, ast.Call) and isinstance(e.func, ast.Attribute) and e.func.attr == "argsort" and not e.args:
                got = _key_normal_form(e.func.value)
                ok = got is not None and (-got[0], got[1]) == want
        chk.verdict(rule, (g, rets[0] if rets else g.node), f"eigs_which(which='{w}') sorts ascending by `{A.short(e.func.value, 40) if ok or (e is not None and isinstance(e, ast.Call) and isinstance(e.func, ast.Attribute)) else '?'}`",
                    True if ok else False,
                    f"backend eigs_which: for which='{w}' the ascending sort key has normal form {got}; listing the "
                    f"{'largest' if want[0] > 0 else 'smallest'} {'magnitudes' if want[1] == 'abs' else 'real parts'} first needs the key "
                    f"{'-' if want[0] > 0 else ''}{'|val|' if want[1] == 'abs' else 'val.real'} (a missing case falls through to another ordering)")



# ------------------------------------------------------------------ G7 / G8: arithmetic on charges goes through the symmetry
def run_G78(chk, prefixes, rule7="G7", rule8="G8"):
    """Charges are elements of the symmetry group: a vector with one component per factor of the group.  G7: the components of one charge are
    never added together (`sum(a.struct.n)`: (1, -1) of U1xU1 is not the zero charge although its components sum to 0) -- a total charge is
    tested component-wise or against sym.zero().  G8: a charge is negated by the symmetry (`sym.fuse(t, (1,), -1)`, which reduces modulo the
    order of a cyclic factor), never by a bare unary minus on its components (-1 is not a Z2 / Z3 charge; legs validate their charges)."""
    import ast as _ast
    prog = chk.prog
    chk.rule(rule7, "the components of a charge vector are never added together (zero charge is tested component-wise)", floor=0)
    chk.rule(rule8, "charges are negated by the symmetry's fuse (reduction modulo the group), never by a bare minus on their components", floor=0)

    def charge_attr(e):
        return any(isinstance(x, _ast.Attribute) and x.attr in ("t", "n") for x in _ast.walk(e))

    fx7 = _ast.parse("def f(a):\n    return sum(a.struct.n) != 0\n").body[0]
    fx8 = _ast.parse("def f(struct, nsym):\n    return tuple(tuple(-c for c in x[:nsym]) for x in struct.t)\n").body[0]

    def hits7(fn):
        inl = A.Inliner(fn)
        out = []
        for n in _ast.walk(fn):
            if isinstance(n, _ast.Call) and A.call_name(n) in ("sum", "np.sum") and len(n.args) == 1:
                e = inl.expand(n.args[0]) if isinstance(n.args[0], _ast.Name) else n.args[0]
                if isinstance(e, _ast.Attribute) and e.attr == "n":
                    out.append(n)
        return out

    def hits8(fn):
        par = A.enclosing_map(fn)
        out = []
        # comprehension targets -> their iterables, to follow `for x in struct.t` ... `for c in x[:nsym]`
        tgt = {}
        for n in _ast.walk(fn):
            if isinstance(n, (_ast.ListComp, _ast.GeneratorExp, _ast.SetComp)):
                for g in n.generators:
                    for nm in _ast.walk(g.target):
                        if isinstance(nm, _ast.Name):
                            tgt[nm.id] = g.iter
            elif isinstance(n, _ast.For):
                for nm in _ast.walk(n.target):
                    if isinstance(nm, _ast.Name):
                        tgt[nm.id] = n.iter

        def from_charges(e, depth=0):
            if depth > 4:
                return False
            if charge_attr(e):
                return True
            for x in _ast.walk(e):
                if isinstance(x, _ast.Name):
                    if x.id in tgt and from_charges(tgt[x.id], depth + 1):
                        return True
            return False
        for n in _ast.walk(fn):
            if isinstance(n, (_ast.ListComp, _ast.GeneratorExp)) and len(n.generators) == 1 and isinstance(n.generators[0].target, _ast.Name):
                v = n.generators[0].target.id
                neg = [x for x in _ast.walk(n.elt) if isinstance(x, _ast.UnaryOp) and isinstance(x.op, _ast.USub) and isinstance(x.operand, _ast.Name) and x.operand.id == v]
                if neg and from_charges(n.generators[0].iter):
                    # reduced afterwards by the symmetry: `sym.fuse(np.array([-c ...]), ...)`
                    cur, reduced = n, False
                    while cur in par:
                        cur = par[cur]
                        if isinstance(cur, _ast.Call) and (A.call_name(cur) or "").split(".")[-1] in ("fuse", "add_charges"):
                            reduced = True
                    if not reduced:
                        out.append(n)
        return out
    if len(hits7(fx7)) != 1 or len(hits8(fx8)) != 1:
        raise AnalysisError("G7/G8: the built-in positive fixtures are not recognised (rule broken)")
    for f in prog.all_funcs():
        if not f.module.name.startswith(tuple(prefixes)) or "torch" in f.module.name:
            continue
        txt = A.text(f.node)
        h7 = hits7(f.node) if "sum(" in txt else []
        h8 = hits8(f.node) if " for " in txt and "-" in txt else []
        for n in h7:
            chk.bad(rule7, (f, n), A.text(n), f"{f.short}(): `{A.text(n)}` adds the components of one charge: for a product symmetry a non-zero charge whose components "
                    f"cancel, e.g. (1, -1) of U1xU1, passes for zero (a diagonal tensor with non-zero charge is produced, blocks pair different sectors)")
        for n in h8:
            chk.bad(rule8, (f, n), A.short(n, 80), f"{f.short}(): `{A.short(n, 80)}` negates charges component by component without the symmetry's reduction: for a cyclic "
                    f"factor the result (-1, -2) is outside the canonical range 0..N-1 -- the tensor carries sectors no leg accepts and that never match "
                    f"the canonical charges of other tensors")
        if not h7:
            chk.ok(rule7, f, f"{f.short}: no sum over a charge", sample=False)
        if not h8:
            chk.ok(rule8, f, f"{f.short}: no bare negation of charges", sample=False)
