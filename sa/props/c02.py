"""C02 — every produced tensor is well-formed and conserves charge (partial; engines E6 + E3-L3 + E1-M5).

Decided: the selection rule guards block creation and loaders validate (S1); the total charge of each result follows
the algebra, by formal charge arithmetic (S2); s/hfs/mfs of results are built from the same leg sequences (L3, L1);
only the constructor, the in-place API or functions acting on fresh objects write tensor state (W1 = C15-M5).
Not decided: mutual consistency of t, D, slices, size produced by the _meta_* functions (needs the values).
"""
from __future__ import annotations

from . import e3, e6


def run(chk):
    chk.explanation = (
        "Formal charge arithmetic: every expression that sets a total charge is evaluated in the free module over "
        "{n(a), n(b), leg charge} with signature symbols (s*s=1) — sym.add_charges(x.., signatures, new_signature) = sg*sum s_i x_i, "
        "zero() = 0 — and compared with the row of the charge-flow table for that operation (sum for contractions, negation for "
        "conjugation, unchanged for reshaping, selected factor for decompositions, n(a)+s*t / n(a)-s*t for add/remove leg, guards "
        "for additions/eigh/diag/block). CFG dominance of the selection-rule guard over the stores of set_block; presence of the "
        "selection-rule filter in _fill_tensor and of is_consistent() in loaders. Index-space and parallel-construction rules of "
        "engine E3 for the coherence of s / hfs / mfs."
        ' Width-nsym slices of flat block-charge tuples must start at a multiple of nsym (polynomial identity on the slice bounds); N-ary operations must treat all operands alike.')
    chk.trusted_base = ["python ast parser", "exact polynomial arithmetic", "C19 (the group law is linear modulo m)"]
    e6.run_S1(chk)
    e6.run_S2(chk)
    chk.rule("S6", "slices of width nsym out of flat block-charge tuples start at a multiple of nsym (leg k owns [k*nsym, (k+1)*nsym))", floor=25)
    e6.run_S6(chk)
    e3.run_L3(chk)
    e3.run_L1(chk)
    e3.run_I7(chk)
    e3.run_L4(chk)
    e3.run_V1(chk)
    e3.run_I2(chk)
    # W1: who may write tensor state (shares C15-M5)
    from .c15 import scope_modules, rule_M5
    from ..core.alias import Engine
    scope = [m for m in scope_modules(chk.prog, "quick") if m.startswith(("yastn.tensor", "yastn.initialize", "yastn.backend.backend_np"))]
    eng = Engine(chk.prog, scope).run()
    rule_M5(chk, eng, [f for f in eng.funcs if f.module.name in set(scope)])
    chk.rules["W1"] = chk.rules.pop("M5")
    chk.rules["W1"]["desc"] = "tensor state fields are written only by the constructor, the in-place API, or on objects fresh in the writing function"
    for fd in chk.findings:
        if fd.rule == "M5":
            fd.rule = "W1"
    chk.samples = [dict(s, rule="W1") if s.get("rule") == "M5" else s for s in chk.samples]
    chk.distinct = {(("W1",) + d[1:]) if d[0] == "M5" else d for d in chk.distinct}

    from . import e10
    e10.run_U(chk, ("yastn.tensor", "yastn.initialize"), floor1=5, floor2=1)
    e6.run_G78(chk, ("yastn.tensor", "yastn.initialize"))

MUTANTS = [
    ('diag: zero-charge guard sums the components', 'yastn/tensor/_single.py', '        if any(x != 0 for x in a.struct.n):', '        if sum(a.struct.n) != 0:', 'G7'),
    ('_meta_eigh negates charges without the group reduction', 'yastn/tensor/linalg.py', '    else: # and sU == struct.s[0]\n        t_con = np.array(struct.t, dtype=np.int64).reshape((len(struct.t), 2, nsym))\n        t_con = tuple(map(tuple, config.sym.fuse(t_con[:, :1, :], (1,), -1).tolist()))', '    else: # and sU == struct.s[0]\n        t_con = tuple(tuple(-c for c in x[:nsym]) for x in struct.t)', 'G8'),
    ('in-place consumption without hfs', 'yastn/tensor/_initialize.py', '        a.struct, a.slices, a.hfs, a._data, a._trans = c.struct, c.slices, c.hfs, c._data, c._trans', '        a.struct, a.slices, a._data, a._trans = c.struct, c.slices, c._data, c._trans', 'I7'),
    ('narrowed block list keeps the old size', 'yastn/tensor/_single.py', '    struct = a.struct._replace(t=c_t, D=c_D, size=size)', '    struct = a.struct._replace(t=c_t, D=c_D)', 'S7'),
    ('remove_leg ignores the signature', 'yastn/tensor/_single.py', '        newn = a.config.sym.add_charges(a.struct.n, t, signatures=(-1, a.struct.s[haxis]), new_signature=-1)', '        newn = a.config.sym.add_charges(a.struct.n, t)', 'S2'),
    ('axis guard forgets negative axes', 'yastn/tensor/_tests.py', '        if sa0 - set(range(a.ndim)) or sa1 - set(range(b.ndim)):', '        if max(sa0, default=-1) >= a.ndim or max(sa1, default=-1) >= b.ndim:', 'S1'),
    ("unaligned charge slice", "yastn/tensor/_merging.py", "to[n * nsym: (n + 1) * nsym]", "to[n: n + nsym]", "S6"),
    ("conj keeps charge", "yastn/tensor/_single.py", "    newn = a.config.sym.add_charges(a.struct.n, new_signature=-1)\n    news = tuple(-x for x in a.struct.s)\n    struct = a.struct._replace(s=news, n=newn)\n    hfs = tuple(hf.conj() for hf in a.hfs)\n    data",
     "    newn = a.config.sym.add_charges(a.struct.n)\n    news = tuple(-x for x in a.struct.s)\n    struct = a.struct._replace(s=news, n=newn)\n    hfs = tuple(hf.conj() for hf in a.hfs)\n    data", "S2"),
    ("svd swaps charge carrier", "yastn/tensor/linalg.py", "    Un, Vn = (struct.n, n0) if nU else (n0, struct.n)", "    Un, Vn = (n0, struct.n) if nU else (struct.n, n0)", "S2"),
    ("set_block without selection rule", "yastn/tensor/_initialize.py",
     "    if not np.all(a.config.sym.fuse(ats, a.struct.s, 1) == a.struct.n):\n        raise YastnError('Charges ts are not consistent with the symmetry rules: f(t @ s) == n')\n", "", "S1"),
    ("addition without charge guard", "yastn/tensor/_algebra.py", "        if a.struct.n != b.struct.n:\n            raise YastnError('Tensor charges do not match.')\n", "", "S2"),
    ("remove_leg wrong sign", "yastn/tensor/_single.py", "signatures=(-1, a.struct.s[haxis]), new_signature=-1)", "signatures=(1, a.struct.s[haxis]), new_signature=-1)", "S2"),
    ("add_leg signature of native s", "yastn/tensor/_single.py", "    news = a.struct.s[:haxis] + (s,) + a.struct.s[haxis:]", "    news = a.struct.s[:uaxis] + (s,) + a.struct.s[uaxis:]", "L1"),
    ("tensordot forgets b charge", "yastn/tensor/_contractions.py", "    n_c = a.config.sym.add_charges(a.struct.n, b.struct.n)\n    s_c = tuple", "    n_c = a.config.sym.add_charges(a.struct.n)\n    s_c = tuple", "S2"),
]
BENIGN = [
    ("negate via signatures", "yastn/tensor/_single.py", "    newn = a.config.sym.add_charges(a.struct.n, new_signature=-1)\n    news = tuple(-x for x in a.struct.s)\n    struct = a.struct._replace(s=news, n=newn)\n    hfs = tuple(hf.conj() for hf in a.hfs)\n    data",
     "    newn = a.config.sym.add_charges(a.struct.n, signatures=(-1,))\n    news = tuple(-x for x in a.struct.s)\n    struct = a.struct._replace(s=news, n=newn)\n    hfs = tuple(hf.conj() for hf in a.hfs)\n    data"),
]
