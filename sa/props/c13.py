"""C13 — truncation keeps the largest weights (engine E10 `orderdir`), partial.

Abstract domain for index arrays:  ASC(e) = argsort(e),  DESC(e) = argsort(-e) or ASC(e)[::-1].
A slice of an ordered index array selects
      ASC:  x[:-K] -> ALL_BUT_K_LARGEST   x[-K:] -> K_LARGEST   x[:K] -> K_SMALLEST   x[K:] -> ALL_BUT_K_SMALLEST
      DESC: x[K:]  -> ALL_BUT_K_LARGEST   x[:K]  -> K_LARGEST   x[-K:] -> K_SMALLEST  x[:-K] -> ALL_BUT_K_SMALLEST
Rules
  D1  every store of False into the mask through an ordered index array masks ALL_BUT_K_LARGEST of an ordering of
      the spectrum (restricted to the block the store addresses / of the masked spectrum for the global stage);
      every store of True marks K_LARGEST
  D2  K is min(user limit, number of values strictly above the relative tolerance) at block and global stage
  D3  K == 0 is handled separately (x[:-0] is empty: nothing would be discarded); the K-store is guarded by K > 0
  D4  the spectrum is copied before any write and the mask is created from a copy of it
  D5  the *_with_truncation wrappers apply one and the same mask to all three factors on the connecting leg
  D6  a conditional that tests isinstance(<limit>, dict) selects a value of that same limit (contradiction rule)
Not decided: the Eckart-Young identity (numerical), tie handling inside argsort.
"""
from __future__ import annotations

import ast

from ..core import astutil as A
from ..core.cfg import CFG
from ..core.errors import AnalysisError

LINALG = "yastn.tensor.linalg"

SEL = {("ASC", "upto-neg"): "ALL_BUT_K_LARGEST", ("ASC", "from-neg"): "K_LARGEST", ("ASC", "upto"): "K_SMALLEST",
       ("ASC", "from"): "ALL_BUT_K_SMALLEST",
       ("DESC", "from"): "ALL_BUT_K_LARGEST", ("DESC", "upto"): "K_LARGEST", ("DESC", "from-neg"): "K_SMALLEST",
       ("DESC", "upto-neg"): "ALL_BUT_K_SMALLEST"}


class Orders:
    def __init__(self, f):
        self.f = f
        self.fn = f.node
        self.b = A.local_bindings(self.fn)
        self.parent = A.enclosing_map(self.fn)

    def defs(self, name, at=None):
        """defining expressions of `name`; with `at` (a statement) only the definitions reaching it (CFG)"""
        all_ = [(st, v) for st, v, k in self.b.get(name, []) if v is not None]
        if at is None or len(all_) <= 1:
            return [v for _, v in all_]
        if not hasattr(self, "cfg"):
            self.cfg = CFG(self.fn)
        tgt = A.stmt_of(at, self.parent) if not isinstance(at, ast.stmt) else at
        out = []
        for st, v in all_:
            others = [s2 for s2, _ in all_ if s2 is not st and s2 in self.cfg.node_of]
            if st in self.cfg.node_of and tgt in self.cfg.node_of and \
                    (self.cfg.path_exists(st, tgt, avoiding=others)):
                out.append(v)
        return out or [v for _, v in all_]

    def deps(self, node, seen=None):
        """names (locals and parameters) the expression transitively depends on"""
        seen = seen if seen is not None else set()
        for n in ast.walk(node):
            if isinstance(n, ast.Name) and isinstance(n.ctx, ast.Load) and n.id not in seen:
                seen.add(n.id)
                for d in self.defs(n.id):
                    self.deps(d, seen)
        return seen

    def order_of(self, node, depth=0, at=None):
        """-> (direction, ordered expression node) or None"""
        if depth > 6:
            return None
        if isinstance(node, ast.Name):
            ds = self.defs(node.id, at)
            if len(ds) == 1:
                return self.order_of(ds[0], depth + 1)
            return None
        if isinstance(node, ast.Call) and A.callee_attr(node) == "argsort" and node.args:
            e = node.args[0]
            desc = A.kwarg(node, "descending")
            if isinstance(e, ast.UnaryOp) and isinstance(e.op, ast.USub):
                return ("DESC", e.operand)
            if desc is not None and isinstance(desc, ast.Constant) and desc.value is True:
                return ("DESC", e)
            return ("ASC", e)
        if isinstance(node, ast.Subscript) and isinstance(node.slice, ast.Slice):
            sl = node.slice
            if sl.lower is None and sl.upper is None and A.neg_const(sl.step) == -1:
                o = self.order_of(node.value, depth + 1)
                if o:
                    return ("DESC" if o[0] == "ASC" else "ASC", o[1])
        if isinstance(node, ast.Call) and A.callee_attr(node) in ("copy", "clone", "flip") and isinstance(node.func, ast.Attribute):
            if A.callee_attr(node) == "flip":
                o = self.order_of(node.func.value, depth + 1)
                return ("DESC" if o[0] == "ASC" else "ASC", o[1]) if o else None
            return self.order_of(node.func.value, depth + 1)
        return None

    @staticmethod
    def slice_kind(sl):
        """-> (kind, K node) for x[:-K], x[-K:], x[:K], x[K:]"""
        if not isinstance(sl, ast.Slice) or sl.step is not None:
            return None
        if sl.lower is None and sl.upper is not None:
            u = sl.upper
            if isinstance(u, ast.UnaryOp) and isinstance(u.op, ast.USub):
                return "upto-neg", u.operand
            return "upto", u
        if sl.upper is None and sl.lower is not None:
            lo = sl.lower
            if isinstance(lo, ast.UnaryOp) and isinstance(lo.op, ast.USub):
                return "from-neg", lo.operand
            return "from", lo
        return None


def mask_stores(o: Orders, maskname):
    """Assignments `<mask>._data[..][idx[slice]] = True/False`  -> (stmt, block-slice node | None, idx subscript, value)"""
    out = []
    for n in A.walk_local(o.fn, include_self=False):
        if not (isinstance(n, ast.Assign) and len(n.targets) == 1 and isinstance(n.targets[0], ast.Subscript)):
            continue
        t = n.targets[0]
        if not (isinstance(n.value, ast.Constant) and isinstance(n.value.value, bool)):
            continue
        base, idx = t.value, t.slice
        block = None
        if isinstance(base, ast.Subscript):          # Smask._data[block][idx]
            block = base.slice
            base = base.value
        if A.text(base) not in (f"{maskname}._data", f"{maskname}.data"):
            continue
        out.append((n, block, idx, n.value.value))
    return out


def check_function(chk, f, maskname="Smask", specname="S"):
    o = Orders(f)
    cfg = CFG(f.node)
    stores = mask_stores(o, maskname)
    chk.require(stores, f"{f.short}: no boolean stores into {maskname}._data found")
    n_ordered = 0
    # selection by *threshold*: `mask[block] = vals >= vals[idx[-K]]` compares with the K-th largest value instead of taking K positions
    for n in A.walk_local(f.node, include_self=False):
        if not (isinstance(n, ast.Assign) and len(n.targets) == 1 and isinstance(n.targets[0], ast.Subscript) and isinstance(n.value, ast.Compare)
                and len(n.value.ops) == 1 and isinstance(n.value.ops[0], (ast.Gt, ast.GtE, ast.Lt, ast.LtE))):
            continue
        base = n.targets[0].value
        if isinstance(base, ast.Subscript):
            base = base.value
        if A.text(base) not in (f"{maskname}._data", f"{maskname}.data") and A.text(n.targets[0].value) not in (f"{maskname}._data", f"{maskname}.data"):
            continue
        sides = [n.value.left, n.value.comparators[0]]
        pivot = [x for x in sides if isinstance(x, ast.Subscript) and isinstance(x.slice, ast.Subscript) and o.order_of(x.slice.value, at=n) is not None]
        if pivot:
            n_ordered += 1
            strict = isinstance(n.value.ops[0], (ast.Gt, ast.Lt))
            chk.bad("D1", (f, n), n, f"`{A.short(n, 70)}` selects by comparison with the K-th largest value instead of taking K positions of the ordering: "
                    + ("values equal to it are dropped, fewer than K are kept" if strict else
                       "all values equal to it survive, so a sector with exact ties at the cut (identity-like spectra, degenerate multiplets) keeps more "
                       "values than the limit allows and displaces other sectors in the global stage"))
    for st, block, idx, val in stores:
        if not (isinstance(idx, ast.Subscript) and isinstance(idx.slice, ast.Slice)):
            if isinstance(idx, ast.Slice) and not (idx.lower is None and idx.upper is None):
                # selection by *position* in the stored block: `mask[block][K:] = False`
                chk.bad("D1", (f, st), st, f"`{A.short(st, 70)}` discards values by their position in storage, not by their size: the block is not "
                        f"sorted through an argsort index array, so the kept values are the first stored ones — the largest only if the caller "
                        f"happens to supply a descending block")
                n_ordered += 1
            # whole-block / whole-array stores: `= False` when K == 0 (D3), nothing to order
            continue
        order = o.order_of(idx.value, at=st)
        sk = o.slice_kind(idx.slice)
        if order is None or sk is None:
            raise AnalysisError(f"{f.short}: cannot classify ordered store `{A.short(st)}` at {f.where(st)}")
        n_ordered += 1
        direction, ordered = order
        kind, K = sk
        sel = SEL[(direction, kind)]
        want = "K_LARGEST" if val else "ALL_BUT_K_LARGEST"
        facts = {"ordering": direction, "ordered_expression": A.short(ordered, 60), "slice": kind, "K": A.text(K), "selects": sel,
                 "stored_value": val}
        if sel != want:
            chk.bad("D1", (f, st), st, f"`{A.short(idx, 40)}` selects {sel} of {direction}-sorted `{A.short(ordered, 40)}` but the store of "
                    f"{val} must address {want}: the {'smallest' if 'SMALLEST' in sel or (sel == 'K_LARGEST' and not val) else 'wrong'} values "
                    f"are {'kept' if not val else 'marked'} instead of the largest", facts)
        else:
            chk.ok("D1", (f, st), st, facts)
        # the ordering must be over the spectrum (restricted to the addressed block)
        od = o.deps(ordered)
        if specname not in od:
            chk.bad("D1", (f, st), f"ordering of `{A.short(ordered, 50)}`", f"the index array orders `{A.short(ordered, 50)}`, which does not "
                    f"depend on the spectrum `{specname}`", facts)
        elif block is not None:
            inl_ = A.Inliner(f.node)
            bt = A.text(inl_.expand(block))
            ot = A.text(inl_.expand(ordered))
            chk.verdict("D1", (f, st), f"block addressed `{bt}` == block ordered", True if bt in ot else False,
                        f"the mask is written in block `{bt}` but the ordering was computed for `{A.short(ordered, 60)}` (another block)", facts)
        # D2: K = min(limit, count above tolerance)
        check_K(chk, f, o, st, K)
        # D3: K > 0 on every path to the store
        check_guard(chk, f, o, cfg, st, K)
    return n_ordered


def _min_calls(o, K):
    """assignments K = min(a, b) among the definitions of K"""
    out = []
    if isinstance(K, ast.Name):
        for d in o.defs(K.id):
            if isinstance(d, ast.Call) and A.call_name(d) == "min" and len(d.args) == 2:
                out.append(d)
    return out


def check_K(chk, f, o, st, K):
    mins = _min_calls(o, K)
    if not mins:
        chk.bad("D2", (f, st), f"K = {A.text(K)}", f"the number of kept values `{A.text(K)}` is not defined as min(user limit, number of "
                f"values above tolerance)")
        return
    params = set(f.params)
    for m in mins:
        sides = []
        for a in m.args:
            d = o.deps(a)
            lim = {p for p in d if p in params and p.startswith("D_")}
            tolp = {p for p in d if p in params and p.startswith("tol")}
            # strict relative comparison in the chain
            strict = rel = False
            exprs = [a]
            for nm in d | {x.id for x in ast.walk(a) if isinstance(x, ast.Name)}:
                exprs += o.defs(nm)
            for dd in exprs:
                if True:
                    for c in ast.walk(dd):
                        if isinstance(c, ast.Compare) and len(c.ops) == 1 and isinstance(c.ops[0], (ast.Gt, ast.GtE)):
                            right = A.text(c.comparators[0])
                            if "max" in right or "S_global_max" in right:
                                rel = True
                                strict = isinstance(c.ops[0], ast.Gt)
            sides.append((lim, tolp, rel, strict))
        has_lim = any(s[0] and not s[2] for s in sides) or any(s[0] for s in sides)
        tol_side = [s for s in sides if s[1] and s[2]]
        if not has_lim:
            chk.bad("D2", (f, st), m, f"`{A.text(m)}` does not involve the user limit (D_block / D_total)")
        elif not tol_side:
            chk.bad("D2", (f, st), m, f"`{A.text(m)}` does not involve the count of values above the relative tolerance")
        elif not all(s[3] for s in tol_side):
            chk.bad("D2", (f, st), m, "values equal to tol*max are counted as above tolerance (`>=`): with tol=0 zero singular values "
                    "are kept, with a binding tolerance the documented strict cutoff is violated")
        else:
            chk.ok("D2", (f, st), m, {"limit_params": sorted(set().union(*[s[0] for s in sides])),
                                      "tolerance_params": sorted(set().union(*[s[1] for s in sides]))})


def check_guard(chk, f, o, cfg, st, K):
    """x[:-K] with K == 0 is the empty slice: the K-store must be unreachable for K == 0 and K == 0 must be handled.
    Decided on the CFG: an `if` that dominates the store and whose test is decided by K == 0 (evaluated by the mini evaluator with
    K = 0; tests that need other values are skipped) protects the store when the store cannot be reached from the branch taken for
    K == 0 without passing a new definition of K.  Early returns, if/else, positive guards and their negations are all the same here."""
    from ..core.minieval import evaluate, CannotEvaluate
    Kt = A.text(K)
    b = A.local_bindings(f.node)
    kdefs = [d for d, v, k in b.get(Kt, []) if d in cfg.node_of] if isinstance(K, ast.Name) else []
    guards = [n for n in A.walk_local(f.node, include_self=False) if isinstance(n, ast.If) and any(isinstance(x, ast.Name) and x.id == Kt for x in ast.walk(n.test))]
    idx_kind = o.slice_kind(st.targets[0].slice.slice)[0]
    protected = False
    handled = False
    why = f"no test on `{Kt}` protects the store"
    for g in guards:
        try:
            taken_body = bool(evaluate(g.test, {Kt: 0}))
        except CannotEvaluate:
            continue
        taken = g.body if taken_body else g.orelse
        if cfg.node_of.get(g) is None or not cfg.must_pass([st], [cfg.node_of[g]]):
            continue
        first = next((x for x in taken if x in cfg.node_of), None)
        if first is None:
            # empty branch: control continues after the if; the store is protected only if it lies inside the other branch
            other = g.orelse if taken_body else g.body
            inside_other = any(st is x for b_ in other for x in ast.walk(b_))
            reach = not inside_other
        else:
            reach = first is st or cfg.path_exists(first, st, avoiding=[d for d in kdefs if d is not st]) or any(st is x for x in ast.walk(first))
        if not reach:
            protected = True
        for b_ in taken:
            for x in ast.walk(b_):
                if isinstance(x, ast.Assign) and isinstance(x.value, ast.Constant) and x.value.value is False and ("._data" in A.text(x.targets[0]) or ".data" in A.text(x.targets[0])):
                    handled = True
    if idx_kind in ("upto", "from"):
        protected = True   # x[:K] / x[K:] are well-defined for K == 0
        why = ""
    else:
        chk.verdict("D3", (f, st), f"{Kt} == 0 masks the whole block/spectrum", True if handled else False,
                    f"{f.short}: no branch taken for `{Kt} == 0` sets the whole block/spectrum of the mask to False")
    chk.verdict("D3", (f, st), f"K={Kt} > 0 at `{A.short(st, 60)}`", True if protected else False,
                f"`[:-{Kt}]` is the empty slice for {Kt} == 0: nothing would be discarded when everything should be; {why}")


def _isinstance_dict_subject(test):
    """`isinstance(V, dict)` possibly inside an `and` -> name V, else None"""
    for n in ast.walk(test):
        if isinstance(n, ast.Call) and A.call_name(n) == "isinstance" and len(n.args) == 2 and isinstance(n.args[0], ast.Name) \
                and A.text(n.args[1]) in ("dict", "(dict,)"):
            return n.args[0].id
    return None


def check_knob_dispatch(chk, f, knobs):
    """D6 (contradiction rule): a conditional expression that tests `isinstance(V, dict)` selects between the per-sector
    entry and the scalar of the *same* user limit V.  Values (not tests) are followed through local definitions."""
    o = Orders(f)

    def value_knobs(node, seen):
        out = set()
        if isinstance(node, ast.IfExp):
            return value_knobs(node.body, seen) | value_knobs(node.orelse, seen)
        for n in ast.walk(node):
            if isinstance(n, ast.IfExp) and n is not node:
                continue
            if isinstance(n, ast.Name) and isinstance(n.ctx, ast.Load):
                if n.id in knobs:
                    out.add(n.id)
                elif n.id not in seen:
                    seen.add(n.id)
                    for d in o.defs(n.id):
                        out |= value_knobs(d, seen)
        return out
    n = 0
    sites = []
    for x in A.walk_local(f.node, include_self=False):
        if isinstance(x, ast.IfExp):
            sites.append((x.test, [x.body, x.orelse], A.stmt_of(x, o.parent)))
        elif isinstance(x, ast.If) and len(x.body) == 1 and len(x.orelse) == 1 and all(isinstance(b_, ast.Assign) for b_ in (x.body[0], x.orelse[0])) \
                and A.text(x.body[0].targets[0]) == A.text(x.orelse[0].targets[0]):
            sites.append((x.test, [x.body[0].value, x.orelse[0].value], x))
    inl_ = A.Inliner(f.node)
    for test, branches, st in sites:
        V = _isinstance_dict_subject(inl_.expand(test))
        if V is None or V not in knobs:
            continue
        n += 1
        used = set()
        for br in branches:
            used |= value_knobs(br, set())
        foreign = sorted(used - {V})
        chk.verdict("D6", (f, st), st, False if foreign else True,
                    f"the conditional tests whether `{V}` is a per-sector dict but selects a value of `{', '.join(foreign)}`: "
                    f"when `{V}` is a dict the scalar `{', '.join(foreign)}` given by the user is silently replaced, when it is not, a dict "
                    f"`{', '.join(foreign)}` is used as a number", {"tested": V, "value_knobs": sorted(used)})
    return n


def _ancestors(node, parent):
    out = []
    while node in parent:
        node = parent[node]
        out.append(node)
    return out


def run(chk):
    prog = chk.prog
    chk.explanation = (
        "Order-direction abstract interpretation of truncation_mask / truncation_mask_multiplets: index arrays are classified "
        "ASC/DESC from their argsort definition, slices of them as K largest / all-but-K-largest etc., and every boolean store "
        "into the mask through such an array must discard the low end (or mark the high end) of an ordering of the spectrum "
        "restricted to the block it writes; K must be min(user limit, count strictly above relative tolerance), K==0 must be "
        "handled apart from the empty slice [:-0]; wrappers apply one mask to all three factors. Numerical optimality "
        "(Eckart-Young) is not decided."
        ' Each scalar-or-dict dispatch of a user limit must test the limit whose value it selects (contradiction rule); the masking functions are index-space typed (engine E3) so that the mask hits the leg it was computed for.')
    chk.trusted_base = ["argsort returns an ascending permutation", "python ast parser"]
    chk.rule("D1", "stores of False discard ALL_BUT_K_LARGEST (stores of True mark K_LARGEST) of an ordering of the spectrum "
             "restricted to the addressed block", floor=4)
    chk.rule("D2", "K = min(user limit, number of values strictly above the relative tolerance)", floor=3)
    chk.rule("D3", "K == 0 never reaches the slice [:-K]", floor=3)
    chk.rule("D4", "spectrum copied before writes; mask built from a copy of the spectrum", floor=3)
    chk.rule("D5", "wrappers apply the same mask to U/S/V on the connecting leg", floor=2)
    chk.rule("D6", "scalar-or-dict dispatch of a user limit tests the limit whose value it selects", floor=1)
    # the mask is applied to the leg it was computed for: index-space typing (engine E3) of the masking functions
    from . import e3
    e3.run_L1(chk, rule="D7", floor=6, only={"apply_mask", "_meta_mask", "_apply_mask_axes", "svd_with_truncation", "eigh_with_truncation"})
    tm = prog.func(LINALG, "truncation_mask")
    tmm = prog.func(LINALG, "truncation_mask_multiplets")
    n1 = check_function(chk, tm)
    n2 = check_function(chk, tmm)
    chk.require(n1 >= 2, f"truncation_mask: expected block and global ordered stores, found {n1}")
    chk.require(n2 >= 1, f"truncation_mask_multiplets: expected one ordered store, found {n2}")
    nd = check_knob_dispatch(chk, tm, {"tol", "tol_block", "D_block", "D_total"})
    chk.require(nd >= 1, f"truncation_mask: {nd} isinstance(<limit>, dict) dispatch sites found (4 confirmed by hand)")
    # D4 copies
    for f in (tm, tmm):
        body = A.strip_docstring(f.node.body)
        copies = [n for n in A.walk_local(f.node) if isinstance(n, ast.Assign) and isinstance(n.value, ast.Call)
                  and A.text(n.value.func) in ("S.copy", "S.clone")]
        mask_from_copy = any(A.text(c.targets[0]) == "Smask" for c in copies)
        chk.verdict("D4", f, "Smask = S.copy()", True if mask_from_copy else False,
                    f"{f.short}: the mask is not created from a copy of S (writes to the mask would reach S, or structure differs)")
    # truncation_mask multiplies S by the mask: S must be its own copy or the product must be out-of-place (C15 covers writes)
    # the global stage orders the *masked* spectrum: the expression handed to the global argsort is (after inlining temporaries) a
    # product of the spectrum's data and the mask's data
    glob = [s_ for s_ in mask_stores(Orders(tm), "Smask") if s_[1] is None and isinstance(s_[2], ast.Subscript)]
    chk.require(glob, "truncation_mask: global ordered store not found")
    inl_g = A.Inliner(tm.node, stop={"S", "Smask"})
    for st, block, idx, val in glob:
        o = Orders(tm)
        order = o.order_of(idx.value, at=st)
        if not order:
            continue
        e = inl_g.expand(order[1])
        if isinstance(e, ast.UnaryOp):
            e = e.operand
        MASKD, SPEC = {"Smask._data", "Smask.data"}, {"S._data", "S.data"}

        def attrs(x):
            return {A.text(y) for y in ast.walk(x) if isinstance(y, ast.Attribute)}

        def is_masked_product(x):
            return isinstance(x, ast.BinOp) and isinstance(x.op, ast.Mult) and bool(SPEC & attrs(x)) and bool(MASKD & attrs(x))
        # (i) the ordering is over the masked spectrum ...
        core = e.left if isinstance(e, ast.BinOp) and isinstance(e.op, ast.Sub) else e
        chk.verdict("D4", (tm, st), f"global ordering over the masked spectrum (`{A.short(core, 40)}`)", True if is_masked_product(core) else False,
                    "the global stage no longer orders the *masked* spectrum S*mask: values already discarded block-wise compete again")
        # (ii) ... and the entries masked block-wise rank below *every* kept value, also for spectra with negative values (which='SR'/'SM'
        # hand over -S): as plain zeros they outrank negative values.  Accepted: key = S*mask - not(mask) * L with L > max|S|
        lowest_ok = False
        if isinstance(e, ast.BinOp) and isinstance(e.op, ast.Sub) and isinstance(e.right, ast.BinOp) and isinstance(e.right.op, ast.Mult):
            fl, fr = e.right.left, e.right.right
            notm, L = (fl, fr) if (MASKD & attrs(fl)) else (fr, fl)
            is_not = isinstance(notm, ast.Call) and (A.callee_attr(notm) or A.call_name(notm) or "").endswith("bitwise_not") and bool(MASKD & attrs(notm)) or \
                (isinstance(notm, ast.BinOp) and isinstance(notm.op, ast.Sub) and A.neg_const(notm.left) == 1 and bool(MASKD & attrs(notm.right))) or \
                (isinstance(notm, ast.UnaryOp) and isinstance(notm.op, ast.Invert) and bool(MASKD & attrs(notm.operand)))
            # L = a * max_abs(..) + c with a >= 1, c > 0  (so L > max|kept value|)
            from ..core.poly import from_ast as _fa, Poly as _P, Rat as _R
            import copy as _copy

            class _M(ast.NodeTransformer):
                def visit_Call(self, n):
                    if (A.callee_attr(n) or A.call_name(n) or "").endswith("max_abs"):
                        return ast.Name(id="M", ctx=ast.Load())
                    return n
            try:
                lp = _fa(_M().visit(_copy.deepcopy(L)), opaque=False)
                terms = lp.n.t if lp.d.is_const() and lp.d.const_value() == 1 else None
            except Exception:  # noqa: BLE001
                terms = None
            if terms is not None and set(terms) <= {(), (("M", 1),)}:
                lowest_ok = is_not and terms.get((("M", 1),), 0) >= 1 and terms.get((), 0) > 0
        chk.verdict("D4", (tm, st), "entries masked block-wise rank below every kept value in the global stage", True if lowest_ok else False,
                    "truncation_mask: in the global stage the block-masked entries enter the ordering as zeros (S*mask): for a spectrum with negative "
                    "values (eigh_with_truncation with which='SR'/'SM' hands over -S) they outrank genuine values, which are then discarded instead "
                    "(with D_block and D_total both binding only a fraction of D_total values survive)")
    # (iii) block-masked entries do not count as 'above the global tolerance' (0 > tol*max holds for every negative tol)
    b_ = A.local_bindings(tm.node)
    cnts = [c for c in A.calls(tm.node) if (A.callee_attr(c) or "") == "sum_elements" and c.args]
    gl_cnt = [c for c in cnts if not any(isinstance(p_, (ast.For, ast.While)) for p_ in _ancestors(c, A.enclosing_map(tm.node)))]
    chk.require(gl_cnt, "truncation_mask: global count of values above tolerance not found")
    from ..core.knob import KnobEval
    ke_ = KnobEval(tm.node, {})
    ce = ke_.expand(gl_cnt[0].args[0], A.stmt_of(gl_cnt[0], A.enclosing_map(tm.node)), stop={"S", "Smask"})
    okc = isinstance(ce, ast.BinOp) and isinstance(ce.op, (ast.Mult, ast.BitAnd)) and bool({"Smask._data", "Smask.data"} & {A.text(y) for y in ast.walk(ce) if isinstance(y, ast.Attribute)}) \
        and any(isinstance(y, ast.Compare) for y in ast.walk(ce))
    # the comparison alone is enough when the tolerance is known to be non-negative; the API allows negative tolerances (-inf for SR/SM)
    chk.verdict("D4", (tm, gl_cnt[0]), f"global count `{A.short(ce, 50)}` excludes block-masked entries", True if okc else False,
                "truncation_mask: the number of values above the global tolerance counts block-masked entries as well (their value 0 exceeds tol*max "
                "for every negative tol, the documented setting for which='SR'/'SM'): the keep-count is too large")
    # D5 wrappers
    for name, maskcall in (("svd_with_truncation", "truncation_mask"), ("eigh_with_truncation", "truncation_mask")):
        f = prog.func(LINALG, name)
        calls = [c for c in A.calls(f.node) if A.callee_attr(c) == "apply_mask"]
        chk.require(calls, f"{name}: apply_mask call not found")
        for c in calls:
            recv = A.text(c.func.value) if isinstance(c.func, ast.Attribute) else "?"
            axes = A.kwarg(c, "axes")
            n_args = len(c.args)
            recv_def = [v for st, v, k in A.local_bindings(f.node).get(recv, []) if v is not None]
            from_mask = any(isinstance(v, ast.Call) and (A.call_name(v) or "").endswith(("truncation_mask", "mask_f", "truncation_mask_multiplets"))
                            or isinstance(v, ast.IfExp) for v in recv_def) or recv == "Smask"
            ok_axes = axes is not None and isinstance(axes, ast.Tuple) and len(axes.elts) == n_args
            chk.verdict("D5", (f, c), c, True if (from_mask and ok_axes) else False,
                        f"{name}: apply_mask is not applied with one axis per factor by the mask returned from truncation_mask")

    from . import e6 as _e6
    chk.rule("WH", "ordering key per `which` (LM/SM/LR/SR): truncation keeps, and the backend lists first, the values the option names", floor=8)
    _e6.run_WH(chk, "WH")
    from . import e10
    e10.run_U(chk, ("yastn.tensor.linalg",), floor1=5, floor2=1)
    run_D8(chk)
    run_D2rel(chk)
    run_D9(chk)
    run_D10(chk)
    run_D11(chk)


def _param_deps(prog, f, expr, at=None, depth=0):
    """parameters of `f` the value of `expr` can depend on: data dependence through local definitions (all of them), control
    dependence on the `if` tests enclosing those definitions, and the arguments of calls (helpers of the module are followed: a
    helper's result depends on the arguments bound to the parameters its return value depends on)"""
    fn = f.node
    b = A.local_bindings(fn)
    par = A.enclosing_map(fn)
    params = set(f.params)
    seen, out = set(), set()

    def visit_expr(e):
        for n in ast.walk(e):
            if isinstance(n, ast.Call) and isinstance(n.func, ast.Name) and depth < 2:
                tgt = prog.resolve(f.module, n.func.id)
                if hasattr(tgt, "node") and hasattr(tgt, "params") and tgt.module is f.module:
                    rets = [r.value for r in ast.walk(tgt.node) if isinstance(r, ast.Return) and r.value is not None]
                    inner = set()
                    for r in rets:
                        inner |= _param_deps(prog, tgt, r, depth=depth + 1)
                    bound = dict(zip(tgt.params, n.args))
                    bound.update({k.arg: k.value for k in n.keywords if k.arg})
                    for p_ in inner:
                        if p_ in bound:
                            visit_expr(bound[p_])
                    continue
            if isinstance(n, ast.Name) and isinstance(n.ctx, ast.Load):
                visit_name(n.id)

    def visit_name(nm):
        if nm in seen:
            return
        seen.add(nm)
        if nm in params and nm not in b:
            out.add(nm)
            return
        if nm in params:
            out.add(nm)
        for st, v, k in b.get(nm, []):
            if v is not None:
                visit_expr(v)
            cur = st
            while cur in par:
                cur = par[cur]
                if isinstance(cur, (ast.If, ast.While)):
                    visit_expr(cur.test)
    visit_expr(expr)
    # control dependence of the expression's own position
    return out


def run_D9(chk):
    """D9: the *_with_truncation wrappers return the spectrum the decomposition computed, restricted by the mask -- not a transformed
    one.  The ordering key handed to truncation_mask may be abs(S) or -S (option `which`), but the S that is masked and returned is
    the one bound by the decomposition call: no other definition of that name reaches the statement that applies the mask."""
    from ..core.knob import KnobEval
    prog = chk.prog
    chk.rule("D9", "the spectrum masked and returned by the wrappers is the one the decomposition computed (ordering keys are separate values)", floor=2)
    for name in ("svd_with_truncation", "eigh_with_truncation"):
        f = prog.func(LINALG, name)
        fn = f.node
        dec = [n for n in ast.walk(fn) if isinstance(n, ast.Assign) and isinstance(n.targets[0], ast.Tuple) and isinstance(n.value, ast.Call)
               and (A.call_name(n.value) or "").split(".")[-1] in ("svd", "eigh", "eig")]
        chk.require(dec, f"{name}: decomposition call not found")
        d = dec[0]
        app = [n for n in ast.walk(fn) if isinstance(n, ast.Assign) and isinstance(n.value, ast.Call) and A.callee_attr(n.value) == "apply_mask"]
        chk.require(app, f"{name}: mask.apply_mask(..) not found")
        masked = [a_.id for a_ in app[0].value.args if isinstance(a_, ast.Name)]
        ke = KnobEval(fn, {})
        for nm in masked:
            if nm not in A.assigned_names(d.targets[0]):
                continue
            defs = ke._defs(nm, app[0])
            other = [st for st, v, k in defs if st is not d and st is not app[0]]
            chk.verdict("D9", (f, other[0] if other else app[0]), f"{name}: `{nm}` reaching `{A.short(app[0], 50)}` comes from the decomposition only",
                        False if other else True,
                        f"{name}(): `{nm}` is rebound by `{A.short(other[0], 50) if other else ''}` between the decomposition and the masking: what is masked "
                        f"and returned is a transformed spectrum (e.g. abs(S) used as ordering key written back into S) -- U S U^dagger is then no "
                        f"truncation of the input, signs of the eigenvalues are lost")


def run_D10(chk):
    """D10: the per-block stage enforces D_block / tol_block on *every* sector: in the loop over the blocks of the spectrum every path of one
    iteration passes the computation of the block's keep-count; a `continue` (or a guard) in front of it exempts sectors from the limits
    -- e.g. one-element sectors, for which "nothing to order" does not mean "nothing to discard"."""
    from .e7 import body_cfg
    prog = chk.prog
    chk.rule("D10", "every sector passes the computation of its keep-count in the per-block stage (no sector is exempt from D_block / tol_block)", floor=1)
    f = prog.func(LINALG, "truncation_mask")
    loops = [n for n in A.walk_local(f.node) if isinstance(n, ast.For) and "slices" in A.text(n.iter) and any(
             isinstance(x, ast.Call) and A.call_name(x) == "min" for x in ast.walk(n))]
    chk.require(loops, "truncation_mask: per-block loop with the keep-count min(limit, count) not found")
    lp = loops[0]
    cfg = body_cfg(lp.body)
    mins = [st for st in [n.ast for n in cfg.nodes if isinstance(n.ast, ast.stmt)] if isinstance(st, ast.Assign) and isinstance(st.value, ast.Call) and A.call_name(st.value) == "min"]
    chk.require(mins, "truncation_mask: keep-count statement not found in the per-block loop")
    ok = cfg.always_followed(cfg.entry.id, mins, strict=True) if hasattr(cfg, "always_followed") else False
    chk.verdict("D10", (f, mins[0]), f"every iteration of the per-block loop passes `{A.short(mins[0], 40)}`", True if ok else False,
                f"truncation_mask(): some path through one iteration of the per-block loop skips `{A.short(mins[0], 40)}` (a `continue` / guard in front of it): "
                f"the sectors taking that path are exempt from D_block and tol_block -- a one-element sector with D_block[t] = 0 (or absent from the "
                f"dict) survives and displaces a larger value under D_total")


def run_D11(chk):
    """D11: a shortcut of a mask function -- an `if` whose body returns the mask without going through the selection -- that is decided by
    one of the global limits (`tol`, `D_total`) is decided by both: the number of values to keep is min(D_total, count above tol), so
    "nothing to truncate" (or "nothing to keep") can only be concluded from a value that depends on the two of them.  A test on D_total
    alone returns the untruncated mask whenever D_total does not bind, whatever `tol` asks for."""
    prog = chk.prog
    chk.rule("D11", "a shortcut return of a mask function that is decided by one global limit (tol / D_total) is decided by both", floor=0)
    LIM = {"tol", "D_total"}
    for name in ("truncation_mask", "truncation_mask_multiplets"):
        f = prog.func(LINALG, name)
        if not LIM <= set(f.params):
            continue
        for n in A.walk_local(f.node):
            if not (isinstance(n, ast.If) and any(isinstance(b, ast.Return) for b in n.body)):
                continue
            deps = _param_deps(prog, f, n.test, at=n)
            if not (deps & LIM):
                continue
            missing = sorted(LIM - deps)
            # "keep nothing" does follow from D_total alone: min(0, anything) == 0
            t_ = n.test
            zero = (isinstance(t_, ast.UnaryOp) and isinstance(t_.op, ast.Not) and isinstance(t_.operand, ast.Name) and t_.operand.id == "D_total") or \
                (isinstance(t_, ast.Compare) and len(t_.ops) == 1 and isinstance(t_.left, ast.Name) and t_.left.id == "D_total"
                 and isinstance(t_.comparators[0], ast.Constant) and (type(t_.ops[0]).__name__, t_.comparators[0].value) in (("Eq", 0), ("LtE", 0), ("Lt", 1)))
            if zero:
                missing = []
            chk.verdict("D11", (f, n), f"{name}: shortcut `if {A.short(n.test, 50)}: .. return` depends on {sorted(deps & LIM)}", False if missing else True,
                        f"{name}(): the shortcut `if {A.short(n.test, 50)}: ... return` is decided by {sorted(deps & LIM)} but not by `{', '.join(missing)}`: the mask is "
                        f"returned without the selection whenever that test holds, so the limit `{', '.join(missing)}` is ignored there (e.g. with the default "
                        f"D_total = inf every value is kept although `tol` excludes some)")


def run_D2rel(chk):
    """D2 (relative tolerance): in `X > tol * max_abs(Y)` the reference maximum is taken over the very values that are compared
    (Y == X after resolving single-assignment temporaries).  A maximum taken over other data -- the raw spectrum instead of the
    values that survived the block stage -- lets discarded values set the scale and survivors fall below a tolerance they meet."""
    prog = chk.prog
    n = 0
    for name in ("truncation_mask", "truncation_mask_multiplets", "_find_gaps"):
        f = prog.func(LINALG, name)
        inl = A.Inliner(f.node)
        for c in ast.walk(f.node):
            if not (isinstance(c, ast.Compare) and len(c.ops) == 1 and isinstance(c.ops[0], (ast.Gt, ast.GtE, ast.Lt, ast.LtE))):
                continue
            left, right = (c.left, c.comparators[0]) if isinstance(c.ops[0], (ast.Gt, ast.GtE)) else (c.comparators[0], c.left)
            r = inl.expand(right)
            mx = [x for x in ast.walk(r) if isinstance(x, ast.Call) and (A.callee_attr(x) or A.call_name(x) or "").split(".")[-1] in ("max_abs", "max", "amax") and len(x.args) == 1]
            if not mx or not any(isinstance(x, ast.Name) and x.id.startswith("tol") for x in ast.walk(r)):
                continue
            n += 1
            L = A.text(inl.expand(left))
            M = A.text(inl.expand(mx[0].args[0]))
            norm = lambda t: t.replace("._data", ".data")
            same = norm(L) == norm(M) or norm(M) in (f"abs({norm(L)})",)
            chk.verdict("D2", (f, c), f"{name}: `{A.short(c, 70)}`: maximum over the compared values", True if same else False,
                        f"{name}(): `{A.short(c, 60)}` compares `{L[:50]}` with a tolerance relative to the maximum of `{M[:50]}` -- other data: values that do "
                        f"not take part (e.g. those already masked in the block stage) set the scale, and values that meet the tolerance relative to "
                        f"the surviving maximum are discarded")
    chk.require(n >= 2, f"relative-tolerance comparisons `X > tol * max_abs(X)` not found (found {n}, 2 confirmed by hand)")


def run_D8(chk):
    """D8: a per-sector limit given as a dictionary {charge of the S sector: D} is looked up, in the partial-SVD policies, *before* S
    exists, with a key computed from the blocks of the merged matrix.  The charges of the S sectors are computed in _meta_svd and
    depend on nU *and* on sU (for one sign of sU they are the negated block charges): a look-up key that does not depend on every
    parameter the sector charges depend on cannot agree with them for all option values, and the dictionary silently falls back to its
    minimum -- fewer singular values are computed than the caller allowed (the truncation is no longer the optimal one)."""
    prog = chk.prog
    chk.rule("D8", "dict-valued per-sector limits of the partial SVD policies are looked up by a key that depends on the same options (nU, sU) as the S-sector charges", floor=1)
    svd = prog.func(LINALG, "svd")
    meta = prog.func(LINALG, "_meta_svd")
    # S-sector charges in _meta_svd: the `t=` of the struct built with diag=True
    sst = [c for c in ast.walk(meta.node) if isinstance(c, ast.Call) and A.call_name(c) == "_struct" and (A.kwarg(c, "diag") is not None)
           and isinstance(A.kwarg(c, "diag"), ast.Constant) and A.kwarg(c, "diag").value is True and A.kwarg(c, "t") is not None]
    chk.require(sst, "_meta_svd: the diagonal struct of S (`_struct(.., diag=True, t=..)`) not found")
    sdeps = _param_deps(prog, meta, A.kwarg(sst[0], "t")) & {"sU", "nU"}
    gets = [c for c in ast.walk(svd.node) if isinstance(c, ast.Call) and isinstance(c.func, ast.Attribute) and c.func.attr == "get" and c.args
            and isinstance(c.func.value, ast.Name) and "block" in c.func.value.id]
    subs = [n for n in ast.walk(svd.node) if isinstance(n, ast.Subscript) and isinstance(n.value, ast.Name) and "block" in n.value.id and isinstance(n.ctx, ast.Load)
            and not isinstance(n.slice, ast.Constant)]
    sites = [(c, c.args[0]) for c in gets] + [(n, n.slice) for n in subs]
    chk.require(sites, "svd: no look-up of a dict-valued per-sector limit (k_block.get(..) / k_block[..]) found")
    par = A.enclosing_map(svd.node)
    for node, key in sites:
        # the key is usually a comprehension variable: depend on what its iterable depends on
        kdeps = set()
        cur = node
        exprs = [key]
        while cur in par:
            cur = par[cur]
            if isinstance(cur, (ast.GeneratorExp, ast.ListComp, ast.DictComp, ast.SetComp)):
                tnames = {x.id for g in cur.generators for x in ast.walk(g.target) if isinstance(x, ast.Name)}
                if any(isinstance(x, ast.Name) and x.id in tnames for x in ast.walk(key)):
                    exprs += [g.iter for g in cur.generators]
        for e in exprs:
            kdeps |= _param_deps(prog, svd, e)
        kdeps &= {"sU", "nU"}
        missing = sorted(sdeps - kdeps)
        chk.verdict("D8", (svd, node), f"svd: `{A.short(node, 50)}` key depends on {sorted(kdeps)}; S-sector charges depend on {sorted(sdeps)}", False if missing else True,
                    f"svd(): the per-sector limit is looked up by a key (`{A.short(key, 30)}`) that does not depend on `{', '.join(missing)}`, while the charges of the "
                    f"S sectors computed in _meta_svd do: for one value of `{missing[0] if missing else ''}` the keys are the negated sector charges, the dictionary is "
                    f"not hit and its minimum is used -- e.g. D_block={{(0,):1,(1,):2,(2,):3}} keeps (1,1,1) with policy='lowrank' and (1,2,3) with 'fullrank'")

MUTANTS = [
    ('multiplet mask: no-truncation shortcut decided by D_total alone', 'yastn/tensor/linalg.py', '    if D_trunc >= len(s):\n        # no truncation', '    if D_total >= len(s):\n        # no truncation', 'D11'),
    ('ordering key written back into S', 'yastn/tensor/linalg.py', '    _S = abs(S) if which in ["SM", "LM"] else S\n    if which in ["SM", "SR"]:\n        _S = - _S\n', '    if which in ["SM", "LM"]:\n        S = abs(S)\n    _S = -S if which in ["SM", "SR"] else S\n', 'D9'),
    ('reference maximum from the raw spectrum', 'yastn/tensor/linalg.py', '    above_tol = (temp_data > tol * S.config.backend.max_abs(temp_data)) * Smask.data', '    above_tol = (temp_data > tol * S.config.backend.max_abs(S._data)) * Smask.data', 'D2'),
    ('block selection by threshold', 'yastn/tensor/linalg.py', '            inds = S.config.backend.argsort(S.data[slice(*sl.slcs[0])])\n            Smask._data[slice(*sl.slcs[0])][inds[:-D_bl]] = False', '            vals = S.data[slice(*sl.slcs[0])]\n            inds = S.config.backend.argsort(vals)\n            Smask._data[slice(*sl.slcs[0])] = vals >= vals[inds[-D_bl]]', 'D1'),
    ('k_block looked up by the raw block charge', 'yastn/tensor/linalg.py', '            st = _svd_sector_charges(a.config, struct, sU, nU)\n', '            nsym = a.config.sym.NSYM\n            st = [x[nsym:] for x in struct.t] if nU else [x[:nsym] for x in struct.t]\n', 'D8'),
    ("masked entries as zeros in the global ordering", "yastn/tensor/linalg.py", "    inds = S.config.backend.argsort(temp_data - S.config.backend.bitwise_not(Smask.data) * lowest)\n", "    inds = S.config.backend.argsort(temp_data)\n", "D4"),
    ("masked entries counted above a negative tolerance", "yastn/tensor/linalg.py", "    above_tol = (temp_data > tol * S.config.backend.max_abs(temp_data)) * Smask.data", "    above_tol = temp_data > tol * S.config.backend.max_abs(temp_data)", "D4"),
    ("keep smallest", "yastn/tensor/linalg.py", "    Smask._data[inds[:-D_total]] = False\n    return Smask", "    Smask._data[inds[:D_total]] = False\n    return Smask", "D1"),
    ("descending with same slice", "yastn/tensor/linalg.py", "            inds = S.config.backend.argsort(S.data[slice(*sl.slcs[0])])",
     "            inds = S.config.backend.argsort(-S.data[slice(*sl.slcs[0])])", "D1"),
    ("min -> max", "yastn/tensor/linalg.py", "        D_bl = min(D_bl, D_tol)", "        D_bl = max(D_bl, D_tol)", "D2"),
    (">= tolerance", "yastn/tensor/linalg.py", "    above_tol = (temp_data > tol * S.config.backend.max_abs(temp_data)) * Smask.data", "    above_tol = (temp_data >= tol * S.config.backend.max_abs(temp_data)) * Smask.data", "D2"),
    ("drop K==0 case", "yastn/tensor/linalg.py", "    if D_total == 0:\n        Smask._data[:] = False\n        return Smask\n", "", "D3"),
    ("multiplets mark smallest", "yastn/tensor/linalg.py", "    Smask._data[inds[:D_trunc]] = True", "    Smask._data[inds[-D_trunc:]] = True", "D1"),
    ("dispatch tests the wrong limit", "yastn/tensor/linalg.py", "    D_null = 0 if isinstance(D_block, dict) else D_block", "    D_null = 0 if isinstance(tol_block, dict) else D_block", "D6"),
    ("global stage on unmasked", "yastn/tensor/linalg.py", "    temp_data = S._data * Smask.data", "    temp_data = S._data", "D4"),
]
BENIGN = [
    ("descending flipped back", "yastn/tensor/linalg.py", "    inds = S.config.backend.argsort(temp_data - S.config.backend.bitwise_not(Smask.data) * lowest)\n",
     "    inds = S.config.backend.argsort(-(temp_data - S.config.backend.bitwise_not(Smask.data) * lowest))[::-1]\n"),
    ("rename K", "yastn/tensor/linalg.py", "        D_bl = min(D_bl, D_tol)\n        if 0 < D_bl < sl.Dp:  # block truncation\n            inds = S.config.backend.argsort(S.data[slice(*sl.slcs[0])])\n            Smask._data[slice(*sl.slcs[0])][inds[:-D_bl]] = False\n        elif D_bl == 0:",
     "        keep = min(D_bl, D_tol)\n        if 0 < keep < sl.Dp:  # block truncation\n            inds = S.config.backend.argsort(S.data[slice(*sl.slcs[0])])\n            Smask._data[slice(*sl.slcs[0])][inds[:-keep]] = False\n        elif keep == 0:"),
]
