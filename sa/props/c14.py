"""C14 — results do not depend on contraction policy, fusion mode or lazy state (partial; engines E9 + E3).

Decided: the three knobs are read only at the two dispatch sites (N1); the policy only selects among kernels that get
the same operands and bind the same results, unknown values raise (N2); charge, fusion metadata and masking are computed
outside the dispatch (N3); lazy and meta-fused states are handled correctly as far as index spaces go (E3: L1, L2, I2, I3).
Not decided: that the three kernels pair and sum blocks identically; path-independence of contract_with_unroll (values).
"""
from __future__ import annotations

from . import e3, e6, e9


def run(chk):
    chk.explanation = (
        "Who-may-read and non-interference analysis of the configuration knobs (attribute reads of tensordot_policy / "
        "default_fusion / force_fusion over the whole package; shape of the two dispatch sites; control-independence of the "
        "result bookkeeping; sibling agreement of the three contraction kernels on operand roles and block selection), plus "
        "the index-space rules of engine E3: an operation that addresses legs correctly only when meta, logical-native and "
        "native index spaces coincide is exactly one that gives different results for lazy/materialised or meta/hard operands."
        ' Sequences paired position by position must be enumerated in the same leg order (engine seqorder); per-leg charge slices are aligned to nsym also in the unrolled-contraction code; output positions of an unrolled contraction meet native fields only after the pending permutation was consumed.')
    chk.trusted_base = ["python ast parser", "CFG builder", "seed table of index spaces (sa/props/e3.py)"]
    chk.assumptions = ["numerical equality of the three kernels and of contract_with_unroll paths is not decided"]
    e9.run_N1(chk)
    e9.run_N23(chk)
    e3.run_L1(chk)
    e3.run_I7(chk)
    e3.run_I9(chk)
    e3.run_L2(chk)
    e3.run_I2(chk)
    e3.run_I3(chk)
    e3.run_I4(chk)
    e3.run_I6(chk, ("yastn.tensor", "yastn.initialize"))
    chk.rule("S6", "slices of width nsym out of flat block-charge tuples start at a multiple of nsym (also in the unrolled-contraction code)", floor=25)
    e6.run_S6(chk)

    from . import e10
    e10.run_U(chk, ("yastn.tensor",), floor1=5, floor2=1)
    # the resize / clear / info tables pair every memoised kernel with itself (a kernel rebuilt from another one's function only fails for the
    # policy that uses it)
    from .c16 import rule_K4, cached_functions
    rule_K4(chk, chk.prog, cached_functions(chk.prog))

MUTANTS = [
    ('break lost one level of indentation', 'yastn/tensor/oe_blocksparse.py', '                    output_unroll_info[out_ax] = (u, full_leg)\n                    break\n', '                    output_unroll_info[out_ax] = (u, full_leg)\n            break\n', 'U9'),
    ('kernel rebuilt from another kernel', 'yastn/tensor/_control_lru.py', '    _contractions._meta_tensordot_nf = lru_cache(maxsize)(_contractions._meta_tensordot_nf.__wrapped__)', '    _contractions._meta_tensordot_nf = lru_cache(maxsize)(_contractions._meta_tensordot_fc.__wrapped__)', 'K4'),
    ('diag keeps the pending permutation', 'yastn/tensor/_single.py', '    return a._replace(struct=struct, slices=slices, data=data, hfs=hfs, trans=None)\n\n\ndef remove_zero_blocks', '    return a._replace(struct=struct, slices=slices, data=data, hfs=hfs)\n\n\ndef remove_zero_blocks', 'I2'),
    ("block subset applied to charges and shapes but not to data slices", "yastn/tensor/_merging.py", "        sl_old = [slices[ii] for ii in inds]\n        struct = struct._replace(t=t_old, D=D_old)", "        sl_old = slices\n        struct = struct._replace(t=t_old, D=D_old)", "I6"),
    ("no-fusion kernel: slices of a not narrowed to contracted blocks", "yastn/tensor/_contractions.py", "    slices_a = [sl.slcs[0] for sl in slices_a] if ind_a is None else [slices_a[ii].slcs[0] for ii in ind_a]", "    slices_a = [sl.slcs[0] for sl in slices_a]", "I6"),
    ("unrolled output charge slice unaligned", "yastn/tensor/oe_blocksparse.py", "block_ct[out_ax * nsym : (out_ax + 1) * nsym]", "block_ct[out_ax : out_ax + nsym]", "S6"),
    ("trace reads policy", "yastn/tensor/_contractions.py", "    if len(nin_0) == 0:\n        return a\n", "    if len(nin_0) == 0 or a.config.tensordot_policy == 'none':\n        return a\n", "N1"),
    ("hfs inside dispatch", "yastn/tensor/_contractions.py", "    elif a.config.tensordot_policy == 'no_fusion':\n        data, struct_c, slices_c = _tensordot_nf(a, b, nout_a, nin_a, nin_b, nout_b)\n",
     "    elif a.config.tensordot_policy == 'no_fusion':\n        data, struct_c, slices_c = _tensordot_nf(a, b, nout_a, nin_a, nin_b, nout_b)\n        hfs_c = hfs_c[::-1]\n", "N2"),
    ("nf gets swapped roles", "yastn/tensor/_contractions.py", "_tensordot_nf(a, b, nout_a, nin_a, nin_b, nout_b)\n    else:", "_tensordot_nf(a, b, nin_a, nout_a, nin_b, nout_b)\n    else:", "N2"),
    ("diag without consuming trans", "yastn/tensor/_single.py", "    if a.trans == (1, 0):  # sufficient for the transpose, to have consistent signature flow\n        news, hfs = news[::-1], hfs[::-1]\n", "", "I2"),
    ("set_block ignores lazy state", "yastn/tensor/_initialize.py", "    if a.trans != tuple(range(a.ndim_n)):  # ts, Ds and val follow the order of tensor legs; enforce a pending transpose first\n        c = a.consume_transpose()\n        a.struct, a.slices, a.hfs, a._data, a._trans = c.struct, c.slices, c.hfs, c._data, c._trans\n", "", "I3"),
]
BENIGN = [
    ("rename dispatch result", "yastn/tensor/_merging.py", "    if mode == 'hard':\n        c = fuse_meta_to_hard(a)\n        return _fuse_legs_hard(c, axes, order)", "    if mode == 'hard':\n        ch = fuse_meta_to_hard(a)\n        return _fuse_legs_hard(ch, axes, order)"),
]
