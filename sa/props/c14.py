"""C14 — results do not depend on contraction policy, fusion mode or lazy state (partial; engines E9 + E3).

Decided: the three knobs are read only at the two dispatch sites (N1); the policy only selects among kernels that get
the same operands and bind the same results, unknown values raise (N2); charge, fusion metadata and masking are computed
outside the dispatch (N3); lazy and meta-fused states are handled correctly as far as index spaces go (E3: L1, L2, I2, I3).
Not decided: that the three kernels pair and sum blocks identically; path-independence of contract_with_unroll (values).
"""
from __future__ import annotations

from . import e3, e6, e9


def run(chk):
    chk.explanation = (
        "Who-may-read and non-interference analysis of the configuration knobs (attribute reads of tensordot_policy / "
        "default_fusion / force_fusion over the whole package; shape of the two dispatch sites; control-independence of the "
        "result bookkeeping; sibling agreement of the three contraction kernels on operand roles and block selection), plus "
        "the index-space rules of engine E3: an operation that addresses legs correctly only when meta, logical-native and "
        "native index spaces coincide is exactly one that gives different results for lazy/materialised or meta/hard operands."
        ' Sequences paired position by position must be enumerated in the same leg order (engine seqorder); per-leg charge slices are aligned to nsym also in the unrolled-contraction code; output positions of an unrolled contraction meet native fields only after the pending permutation was consumed.')
    chk.trusted_base = ["python ast parser", "CFG builder", "seed table of index spaces (sa/props/e3.py)"]
    chk.assumptions = ["numerical equality of the three kernels and of contract_with_unroll paths is not decided"]
    e9.run_N1(chk)
    e9.run_N23(chk)
    e3.run_L1(chk)
    e3.run_I7(chk)
    e3.run_I9(chk)
    e3.run_L2(chk)
    e3.run_I2(chk)
    e3.run_I3(chk)
    e3.run_I4(chk)
    e3.run_I6(chk, ("yastn.tensor", "yastn.initialize"))
    chk.rule("S6", "slices of width nsym out of flat block-charge tuples start at a multiple of nsym (also in the unrolled-contraction code)", floor=25)
    e6.run_S6(chk)

    from . import e10
    e10.run_U(chk, ("yastn.tensor",), floor1=5, floor2=1)
    # the resize / clear / info tables pair every memoised kernel with itself (a kernel rebuilt from another one's function only fails for the
    # policy that uses it)
    from .c16 import rule_K4, cached_functions
    rule_K4(chk, chk.prog, cached_functions(chk.prog))
    run_N9(chk)
    run_N10(chk)
    run_N11(chk)

def run_N10(chk):
    """N10: the no-fusion kernel pairs every block of a with every block of b that shares the contracted charges: within one group of `da` x `db`
    pairs the indices of a vary slowly (each repeated db times: a column broadcast / np.repeat) and those of b vary fast (the list tiled da
    times: a row broadcast / np.tile).  The two stores of one iteration use complementary forms; two equal forms pair block i of a with
    block i of b only (and, for da != db, lists of the wrong length)."""
    import ast as _ast
    from ..core import astutil as A_
    prog = chk.prog
    chk.rule("N10", "the all-pairs index lists of the no-fusion kernel are built by complementary broadcasts (one repeated, one tiled)", floor=0)
    f = prog.func("yastn.tensor._contractions", "_meta_tensordot_nf")

    def form(v):
        """'col' (varies slowly: each entry repeated) / 'row' (varies fast: the list tiled) / None"""
        if isinstance(v, _ast.Call):
            nm = (A_.call_name(v) or "").split(".")[-1]
            ca = A_.callee_attr(v)
            if nm == "repeat":
                return "col"
            if nm == "tile":
                return "row"
            if ca == "reshape" and len(v.args) == 2:
                a0, a1 = A_.neg_const(v.args[0]), A_.neg_const(v.args[1])
                if a1 == 1 and a0 != 1:
                    return "col"
                if a0 == 1 and a1 != 1:
                    return "row"
        return None
    for lp in _ast.walk(f.node):
        if not isinstance(lp, _ast.For):
            continue
        stores = [st for st in lp.body if isinstance(st, _ast.Assign) and isinstance(st.targets[0], _ast.Subscript) and "ind_" in A_.text(st.targets[0])]
        if len(stores) != 2:
            continue
        forms = [form(st.value) for st in stores]
        if None in forms:
            chk.note(f"N10: `{A_.short(stores[0], 50)}` / `{A_.short(stores[1], 50)}`: broadcast form not known to the rule: not decided")
            continue
        chk.verdict("N10", (f, stores[1]), f"_meta_tensordot_nf: pairing by ({forms[0]}, {forms[1]})", True if set(forms) == {"col", "row"} else False,
                    f"_meta_tensordot_nf(): `{A_.short(stores[0], 60)}` and `{A_.short(stores[1], 60)}` broadcast the two index lists the same way ({forms[0]}): "
                    f"instead of all da x db pairs of blocks the lists pair entries position by position -- contributions of other block pairs are lost "
                    f"(only under tensordot_policy='no_fusion', and only when a group has more than one block on both sides)")


def run_N11(chk):
    """N11: the fast paths `_no_change_in_*` accept a layout when the pieces follow each other without gaps.  A scan
    `for ..: if piece[0] != low: return False; low = piece[1]` proves that there is no gap *between* pieces; that nothing is missing
    *behind the last one* takes the comparison of `low` with the total right after the loop.  A scan without it accepts every prefix."""
    import ast as _ast
    from ..core import astutil as A_
    prog = chk.prog
    chk.rule("N11", "every contiguity scan of the no-change fast paths is closed by a comparison of the reached position with the total", floor=0)
    found_ = 0
    for fname in ("_no_change_in_transpose_and_merge",):
        f = prog.func("yastn.tensor._merging", fname)
        for owner in _ast.walk(f.node):
            for body in [getattr(owner, "body", None), getattr(owner, "orelse", None)]:
                if not isinstance(body, list):
                    continue
                for i, lp in enumerate(body):
                    if not isinstance(lp, _ast.For) or len(lp.body) != 2:
                        continue
                    t_, a_ = lp.body
                    if not (isinstance(t_, _ast.If) and isinstance(t_.test, _ast.Compare) and isinstance(t_.test.ops[0], _ast.NotEq)
                            and isinstance(t_.test.comparators[0], _ast.Name) and any(isinstance(x, _ast.Return) for x in t_.body)
                            and isinstance(a_, _ast.Assign) and isinstance(a_.targets[0], _ast.Name) and a_.targets[0].id == t_.test.comparators[0].id):
                        continue
                    pos = a_.targets[0].id
                    found_ += 1
                    nxt = body[i + 1] if i + 1 < len(body) else None
                    closed = isinstance(nxt, _ast.If) and any(isinstance(x, _ast.Compare) for x in _ast.walk(nxt.test)) \
                        and any(isinstance(x, _ast.Name) and x.id == pos for x in _ast.walk(nxt.test)) and any(isinstance(x, _ast.Return) for x in nxt.body)
                    # ... or the position is returned as part of the verdict (`return low == total`)
                    if not closed and isinstance(nxt, _ast.Return) and nxt.value is not None and any(isinstance(x, _ast.Name) and x.id == pos for x in _ast.walk(nxt.value)):
                        closed = True
                    chk.verdict("N11", (f, lp), f"{fname}: scan `{A_.short(lp, 50)}` closed by `{A_.short(nxt, 40) if closed else '-'}`", True if closed else False,
                                f"{fname}(): the scan `{A_.short(lp, 60)}` checks that consecutive pieces touch, but `{pos}` is not compared with the total behind "
                                f"the loop: a layout whose pieces cover only the beginning of the data is taken for 'nothing to do' and the data is handed on "
                                f"unmerged (the result then depends on which policy / fusion mode reaches this fast path)")
    if not found_:
        chk.note("N11: no contiguity scan of the form `if piece[0] != low: return False; low = piece[1]` in _no_change_in_transpose_and_merge (other spelling): not decided")


def run_N9(chk):
    """N9: a SlicedLeg looks its slices up by the normalised charge tuples of `t` (`_build_mask_tensor`, `_expand_partial_output`): the keys of
    the `slices` it is given go through the same normalisation as the elements of `t`.  Keys stored as given (`dict(slices)`) are never found
    for the documented int shorthand of one-component symmetries; the lookup falls back to the whole sector and every part of an
    intra-sector partition takes all of it."""
    import ast as _ast
    import re as _re
    from ..core import astutil as A_
    prog = chk.prog
    chk.rule("N9", "SlicedLeg normalises the keys of `slices` like the elements of `t`", floor=0)
    ci = prog.cls("yastn.tensor.oe_blocksparse", "SlicedLeg")
    f = ci.methods["__init__"]
    tnorm = None
    for n in _ast.walk(f.node):
        if isinstance(n, _ast.Assign) and A_.text(n.targets[0]) == "self.t":
            comps = [c for c in _ast.walk(n.value) if isinstance(c, (_ast.GeneratorExp, _ast.ListComp))]
            if comps and isinstance(comps[0].generators[0].target, _ast.Name):
                v = comps[0].generators[0].target.id
                tnorm = _re.sub(rf"\b{v}\b", "K", A_.text(comps[0].elt))
    if tnorm is None or tnorm == "K":
        chk.note("N9: SlicedLeg.__init__ does not normalise the elements of t by a comprehension: not decided")
        return
    for n in _ast.walk(f.node):
        if isinstance(n, _ast.Assign) and A_.text(n.targets[0]) == "self.slices" and any(isinstance(x, _ast.Name) and x.id == "slices" for x in _ast.walk(n.value)):
            val = n.value
            if isinstance(val, _ast.DictComp) and isinstance(val.generators[0].target, _ast.Tuple) and isinstance(val.generators[0].target.elts[0], _ast.Name):
                kv = val.generators[0].target.elts[0].id
                knorm = _re.sub(rf"\b{kv}\b", "K", A_.text(val.key))
                ok = knorm == tnorm
            elif (isinstance(val, _ast.Call) and A_.call_name(val) in ("dict", "slices.copy", "copy.copy")) or isinstance(val, _ast.Name):
                ok = False
                knorm = "K (keys as given)"
            else:
                chk.note(f"N9: `{A_.short(n, 60)}`: shape of the key normalisation not known to the rule: not decided")
                continue
            chk.verdict("N9", (f, n), f"SlicedLeg: keys of slices by `{knorm}`, elements of t by `{tnorm}`", True if ok else False,
                        f"SlicedLeg.__init__: `{A_.short(n, 70)}` keeps the keys of `slices` as `{knorm}` while the elements of `t` become `{tnorm}`: an int key "
                        f"(documented shorthand) is never found by the tuple lookups, the slice falls back to the whole sector and each part of an intra-sector "
                        f"partition contributes the full sector (the result depends on how the unroll was specified)")

MUTANTS = [
    ('SlicedLeg keeps the keys of slices as given', 'yastn/tensor/oe_blocksparse.py', "            self.slices = {\n                (tuple(k) if hasattr(k, '__iter__') else (int(k),)): v\n                for k, v in slices.items()\n            }", '            self.slices = dict(slices)', 'N9'),
    ('break lost one level of indentation', 'yastn/tensor/oe_blocksparse.py', '                    output_unroll_info[out_ax] = (u, full_leg)\n                    break\n', '                    output_unroll_info[out_ax] = (u, full_leg)\n            break\n', 'U9'),
    ('kernel rebuilt from another kernel', 'yastn/tensor/_control_lru.py', '    _contractions._meta_tensordot_nf = lru_cache(maxsize)(_contractions._meta_tensordot_nf.__wrapped__)', '    _contractions._meta_tensordot_nf = lru_cache(maxsize)(_contractions._meta_tensordot_fc.__wrapped__)', 'K4'),
    ('diag keeps the pending permutation', 'yastn/tensor/_single.py', '    return a._replace(struct=struct, slices=slices, data=data, hfs=hfs, trans=None)\n\n\ndef remove_zero_blocks', '    return a._replace(struct=struct, slices=slices, data=data, hfs=hfs)\n\n\ndef remove_zero_blocks', 'I2'),
    ("block subset applied to charges and shapes but not to data slices", "yastn/tensor/_merging.py", "        sl_old = [slices[ii] for ii in inds]\n        struct = struct._replace(t=t_old, D=D_old)", "        sl_old = slices\n        struct = struct._replace(t=t_old, D=D_old)", "I6"),
    ("no-fusion kernel: slices of a not narrowed to contracted blocks", "yastn/tensor/_contractions.py", "    slices_a = [sl.slcs[0] for sl in slices_a] if ind_a is None else [slices_a[ii].slcs[0] for ii in ind_a]", "    slices_a = [sl.slcs[0] for sl in slices_a]", "I6"),
    ("unrolled output charge slice unaligned", "yastn/tensor/oe_blocksparse.py", "block_ct[out_ax * nsym : (out_ax + 1) * nsym]", "block_ct[out_ax : out_ax + nsym]", "S6"),
    ("trace reads policy", "yastn/tensor/_contractions.py", "    if len(nin_0) == 0:\n        return a\n", "    if len(nin_0) == 0 or a.config.tensordot_policy == 'none':\n        return a\n", "N1"),
    ("hfs inside dispatch", "yastn/tensor/_contractions.py", "    elif a.config.tensordot_policy == 'no_fusion':\n        data, struct_c, slices_c = _tensordot_nf(a, b, nout_a, nin_a, nin_b, nout_b)\n",
     "    elif a.config.tensordot_policy == 'no_fusion':\n        data, struct_c, slices_c = _tensordot_nf(a, b, nout_a, nin_a, nin_b, nout_b)\n        hfs_c = hfs_c[::-1]\n", "N2"),
    ("nf gets swapped roles", "yastn/tensor/_contractions.py", "_tensordot_nf(a, b, nout_a, nin_a, nin_b, nout_b)\n    else:", "_tensordot_nf(a, b, nin_a, nout_a, nin_b, nout_b)\n    else:", "N2"),
    ("diag without consuming trans", "yastn/tensor/_single.py", "    if a.trans == (1, 0):  # sufficient for the transpose, to have consistent signature flow\n        news, hfs = news[::-1], hfs[::-1]\n", "", "I2"),
    ("set_block ignores lazy state", "yastn/tensor/_initialize.py", "    if a.trans != tuple(range(a.ndim_n)):  # ts, Ds and val follow the order of tensor legs; enforce a pending transpose first\n        c = a.consume_transpose()\n        a.struct, a.slices, a.hfs, a._data, a._trans = c.struct, c.slices, c.hfs, c._data, c._trans\n", "", "I3"),
]
BENIGN = [
    ("rename dispatch result", "yastn/tensor/_merging.py", "    if mode == 'hard':\n        c = fuse_meta_to_hard(a)\n        return _fuse_legs_hard(c, axes, order)", "    if mode == 'hard':\n        ch = fuse_meta_to_hard(a)\n        return _fuse_legs_hard(ch, axes, order)"),
]
