"""C15 — operations never modify their operands; copies are independent (engine E1 `modset`).

Rules (DESIGN §4 C15):
  M1  a public, value-returning operation outside the in-place API has an empty mutation summary
      w.r.t. every parameter (writes found by the interprocedural alias analysis sa/core/alias.py)
  M2  an in-place API function (`name_`, set_block, __setitem__, ...) mutates only its first parameter
  M3  copy()/clone() allocate: every array reachable from the result is fresh; shallow_copy() shares
      tensors but not containers
  M4  backend kernels reached from value-returning ops write only storage they allocated
  M5  who-may-write tensor state: attribute stores to struct/slices/_data/mfs/hfs/_trans/config of a
      Tensor occur only in the constructor, the in-place API, or on objects fresh in that function
"""
from __future__ import annotations

import ast

from ..core import astutil as A
from ..core.alias import Engine, is_shared_param, is_shared_global, is_property, F
from ..core.errors import AnalysisError

QUICK_SCOPE_PREFIXES = (
    "yastn.tensor", "yastn.initialize", "yastn._split_combine_dict", "yastn._from_dict",
    "yastn.backend.backend_np", "yastn.krylov", "yastn.sym", "yastn.operators",
    "yastn.tn.mps", "yastn.tn.fpeps._", "yastn.tn.fpeps.gates",
)
# The PEPS environments (yastn.tn.fpeps.envs) are NOT in the scope of the alias engine in either tier: their measurement and
# fixed-point code decorates tensors obtained from fresh two-layer views, forwards user option dicts and keeps iteration state on
# the environment; with the engine's precision that produced 58 reports of which the ones read by hand were engine imprecision or
# documented accumulators (DESIGN §9.9).  The property's quantifier names Tensor/MPS/PEPS methods; for environments it names
# copy()/clone() only, which rule M3-env below checks structurally.
THOROUGH_EXTRA = ()

INPLACE_NAMES = {"set_block", "__setitem__", "_fill_tensor", "__init__", "__post_init__", "__new__", "__setattr__",
                 "__delitem__", "__delattr__", "__enter__", "__exit__", "__set__", "__iadd__", "__imul__",
                 "__isub__", "__itruediv__"}

# Named exceptions (G-4): (function short name, parameter) -> reason
EXCEPTIONS = {
    ("expand_krylov_space", "V"): "documented accumulator: the Krylov basis V is extended in place and returned",
    ("expand_krylov_space", "H"): "documented accumulator: the Krylov matrix H (dict) is filled in place and returned",
    ("Tensor.expand_krylov_space", "V"): "documented accumulator (bound method form)",
    ("Tensor.expand_krylov_space", "H"): "documented accumulator (bound method form)",
    ("eye", "kwargs"): "`data` is not a keyword of the initialisers; _fill_tensor replaces _data by a newly allocated "
                       "array before eye() writes the diagonal (strong update not modelled by the weak-update analysis)",
    ("eigs", "kwargs"): "kwargs are forwarded to expand_krylov_space; an `H=` keyword is not part of eigs' interface "
                        "(H is its internal accumulator)",
    ("lin_solver", "kwargs"): "as eigs: `H=` is not a keyword of lin_solver's interface",
    ("Env_mps_mpo_mps_precompute.get_FL", "self"): "memo fill of self.F, invalidated by clear_site_ (C09-O2)",
    ("Env_mps_mpo_mps_precompute.get_FR", "self"): "memo fill of self.F, invalidated by clear_site_ (C09-O2)",
    ("Env_mps_mpo_mps_precompute.Heff1", "self"): "memo fill of self.F through get_FL/get_FR (C09-O2)",
    ("Env_mps_mpo_mps_precompute.Heff2", "self"): "memo fill of self.F through get_FL/get_FR (C09-O2)",
}
# Writes that are not mutations of observable state, exempted *at the source* (so callers do not inherit them):
# (class.method, parameter, path) -> reason
MEMO_EXEMPT = {
    ("Env_mps_mpo_mps_precompute.get_FL", "self", ("F",)): "memo fill of self.F[(n-1,n,n)]; invalidated by clear_site_ (C09-O2)",
    ("Env_mps_mpo_mps_precompute.get_FR", "self", ("F",)): "memo fill of self.F[(n+1,n,n)]; invalidated by clear_site_ (C09-O2)",
}
MEMO_FILL = {("F",)}


def scope_modules(prog, tier):
    pre = QUICK_SCOPE_PREFIXES + (THOROUGH_EXTRA if tier == "thorough" else ())
    out = []
    for m in prog.modules:
        if any(m == p or m.startswith(p) for p in pre):
            if m.startswith("yastn.tn.fpeps.envs") and tier != "thorough":
                continue
            if "torch" in m:
                continue
            out.append(m)
    return out


def is_inplace(f):
    return f.name.endswith("_") and not f.name.endswith("__") or f.name in INPLACE_NAMES


_EXPORTED = {}


def exported_ids(prog):
    """ids of function nodes that the package __init__ modules (and module __all__ lists) export."""
    key = id(prog)
    if key in _EXPORTED:
        return _EXPORTED[key]
    out = set()
    for m in prog.modules.values():
        names = set()
        if m.is_pkg:
            names |= set(m.imports)
            for star in m.star_imports:
                t = prog.modules.get(star)
                if t is not None:
                    names |= set(t.all) if t.all is not None else {n for n in list(t.funcs) + list(t.imports) if not n.startswith("_")}
        if m.all:
            names |= set(m.all)
        for n in names:
            r = prog.resolve(m, n)
            if hasattr(r, "node") and hasattr(r, "params"):
                out.add(id(r.node))
    _EXPORTED[key] = out
    return out


def is_public(f, prog=None):
    """Public operation: a (non-underscore or dunder) method of a class, a function bound as a method, a function
    exported by a package __init__/__all__, or a non-underscore function of a non-underscore module."""
    dunder = f.name.startswith("__") and f.name.endswith("__")
    if f.name.startswith("_") and not dunder:
        return False
    if f.cls is not None or f.bound_to:
        return True
    base = f.module.name.rsplit(".", 1)[-1]
    if not base.startswith("_"):
        return True
    return prog is not None and id(f.node) in exported_ids(prog)


def run(chk):
    prog = chk.prog
    chk.explanation = (
        "Interprocedural ownership / mod-set analysis over the AST (no execution): a flow-sensitive may-alias "
        "analysis with k-limited access paths computes, for every function in scope, which parameters (and which "
        "fields of them) may be written, directly or through any resolved callee, and what the returned value "
        "aliases. M1: public value-returning operations outside the in-place API must not write any parameter; "
        "M2: in-place API writes only its receiver; M3: copy/clone return storage that does not alias the source, "
        "shallow_copy shares tensors but not containers; M4: backend kernels write only arrays they allocate; "
        "M5: tensor state fields are written only by the constructor, the in-place API or on fresh objects.")
    chk.trusted_base = ["python ast parser", "alias engine sa/core/alias.py (tables of numpy/torch view- and "
                        "in-place functions, builtin container semantics)",
                        "layering assumption: code of layer L receives instances of classes of layers <= L"]
    chk.assumptions = ["unresolved calls (listed in evidence) mutate nothing (G-2)",
                       "C extensions and torch-only aliasing are outside the quick tier"]
    scope = scope_modules(prog, chk.tier)
    eng = Engine(prog, scope, exempt=MEMO_EXEMPT).run()
    chk.extra["functions_analysed"] = len(eng.funcs)
    chk.extra["call_sites_resolved"] = eng.resolved
    chk.extra["unresolved_calls"] = dict(sorted(eng.unresolved.items(), key=lambda kv: -kv[1])[:40])
    chk.extra["fixpoint_rounds"] = eng.rounds
    inscope = [f for f in eng.funcs if f.module.name in set(scope)]
    rule_M1(chk, eng, inscope)
    rule_M2(chk, eng, inscope)
    rule_M3(chk, eng, inscope)
    rule_M4(chk, eng)
    rule_M5(chk, eng, inscope)
    rule_M6(chk, eng, inscope, set(scope))
    rule_M7(chk)
    from . import e10
    e10.run_U6(chk, ("yastn",), rule="M8")
    if chk.rules["M8"]["ok"] + chk.rules["M8"]["bad"] < 100:
        raise AnalysisError(f"M8: only {chk.rules['M8']['ok']} functions with defaults were examined (expected > 100)")


def _external_call_sites(prog, scope):
    """Call sites `f(..)` in repository modules OUTSIDE the engine's scope whose callee resolves (through the imports) to a
    repository function: {id(function node): [(module, enclosing def, call)]}."""
    out = {}
    for mname, m in prog.modules.items():
        if mname in scope or "torch" in mname:
            continue
        for d in ast.walk(m.tree):
            if not isinstance(d, (ast.FunctionDef, ast.AsyncFunctionDef)):
                continue
            for n in A.walk_local(d):
                if isinstance(n, ast.Call) and isinstance(n.func, ast.Name):
                    r = prog.resolve(m, n.func.id)
                    if r is not None and hasattr(r, "node") and hasattr(r, "params"):
                        out.setdefault(id(r.node), []).append((m, d, n))
    return out


def rule_M6(chk, eng, funcs, scope):
    """Frontier of the engine's scope.  A value-returning helper of an in-scope module that is called from a module the engine
    does not analyse (the PEPS environments) has no analysed public caller that would inherit its summary; where such a call
    site hands over a parameter of its own (public) enclosing operation unchanged, a write to that parameter by the helper is
    a write to the user's argument."""
    chk.rule("M6", "helpers called from modules outside the engine's scope do not write a parameter that the outside caller "
                   "passes straight from its own parameters", floor=3)
    ext = _external_call_sites(eng.prog, scope)
    for f in funcs:
        if is_public(f, eng.prog) or is_inplace(f) or id(f.node) not in ext:
            continue
        s = eng.summary(f)
        if not s.returns_value:
            continue
        bad = {pi: paths for pi, paths in s.mut.items() if paths}
        hit = False
        for m, d, call in ext[id(f.node)]:
            own = {a.arg for a in d.args.posonlyargs + d.args.args + d.args.kwonlyargs}
            rebound = {t.id for n in A.walk_local(d) for t in (n.targets if isinstance(n, ast.Assign) else
                                                                [n.target] if isinstance(n, (ast.AugAssign, ast.AnnAssign, ast.For)) else [])
                       for t in ast.walk(t) if isinstance(t, ast.Name)}
            public_caller = not d.name.startswith("_") or (d.name.startswith("__") and d.name.endswith("__"))
            for pi, paths in sorted(bad.items()):
                pname = f.params[pi]
                arg = call.args[pi] if pi < len(call.args) and not any(isinstance(a, ast.Starred) for a in call.args[:pi + 1]) \
                    else next((k.value for k in call.keywords if k.arg == pname), None)
                if isinstance(arg, ast.Name) and arg.id in own and arg.id not in rebound and public_caller \
                        and not (d.name.endswith("_") and not d.name.endswith("__")):
                    ev, o = _first_event(eng, f, pi)
                    node = ev.node if ev is not None else f.node
                    where = ".".join(o[2]) if o is not None and o[2] else ""
                    chk.bad("M6", (f, node), ev.text if ev is not None else f"{f.short}:{pname}",
                            f"{f.short}() may write its parameter `{pname}`{('.' + where) if where else ''} "
                            f"({ev.kind if ev is not None else 'write'}), and {m.relpath}:{call.lineno} {d.name}() passes its own "
                            f"parameter `{arg.id}` to it unchanged: the public operation modifies its argument",
                            {"parameter": pname, "paths": [".".join(p) for p in sorted(paths)][:6],
                             "call_site": f"{m.relpath}:{call.lineno}"})
                    hit = True
        if not hit:
            chk.ok("M6", f, f"{f.short}({', '.join(f.params)}) <- {len(ext[id(f.node)])} outside call site(s)", sample=False)


# ------------------------------------------------------------------ M7: direct writes in the PEPS environments
# The environments are outside the scope of M1 (the interprocedural summaries are too coarse there, DESIGN 9.9).  The DIRECT writes
# of their public value-returning operations -- an attribute / item store, setattr or container mutator whose target the engine
# resolves to (something reachable from) a parameter, in the operation's own body -- are precise enough to be held to the property.
M7_PREFIX = "yastn.tn.fpeps.envs"
M7_SKIP = {
    "yastn.tn.fpeps.envs.fixed_pt": "torch.autograd.Function: forward(ctx, ..) stores on the autograd context by protocol",
    "yastn.tn.fpeps.envs.fixed_pt_c4v": "torch.autograd.Function (as fixed_pt)",
    "yastn.tn.fpeps.envs.para_ctmrg": "ray remote worker: UpdateSite fills the projector slots of the environment copy it was sent",
}
M7_EXCEPTIONS = {
    ("EnvBoundaryMPS.measure_nsite", "self", ()): "per-call scratch attributes xrange / yrange, overwritten by every call and read only "
                                                  "by _measure_nsite (window protocol shared with EnvWindow)",
    ("EnvCTM.ctm_conv_corner_spec", "history", ()): "accumulator handed back in the return value (as expand_krylov_space's V and H); "
                                                    "its default is a new list per call (M8)",
}


def rule_M7(chk):
    prog = chk.prog
    chk.rule("M7", "public value-returning operations of the PEPS environments do not directly write (anything reachable from) a "
                   "parameter", floor=60)
    scope = [m for m in prog.modules if (any(m == p or m.startswith(p) for p in QUICK_SCOPE_PREFIXES) or m.startswith(M7_PREFIX))
             and "torch" not in m]
    eng = Engine(prog, scope, exempt=MEMO_EXEMPT).run()
    chk.extra["M7_functions_analysed"] = len(eng.funcs)
    for f in eng.funcs:
        if not f.module.name.startswith(M7_PREFIX) or f.module.name in M7_SKIP:
            continue
        if not is_public(f, prog) or is_inplace(f):
            continue
        s = eng.summary(f)
        if not s.returns_value:
            continue
        fa = eng.analysis(f)
        hit = False
        seen = set()
        for ev in fa.events:
            if ev.via:
                continue
            for o in ev.targets:
                if not is_shared_param(o):
                    continue
                pname = f.params[o[0][1]]
                if (f.short, pname, tuple(o[2])) in M7_EXCEPTIONS:
                    key = (f.short, pname)
                    if key not in seen:
                        seen.add(key)
                        chk.note(f"M7 named exception {f.short}({pname}): {M7_EXCEPTIONS[(f.short, pname, tuple(o[2]))]}")
                    continue
                where = ".".join(o[2])
                chk.bad("M7", (f, ev.node), ev.text,
                        f"{f.short}() is a public value-returning operation of an environment and is not part of the in-place API, "
                        f"but its {ev.kind} writes `{pname}`{('.' + where) if where else ''}, an object the caller keeps "
                        f"(e.g. a site environment taken from self[..] without shallow_copy())",
                        {"parameter": pname, "path": where})
                hit = True
                break
        if not hit:
            chk.ok("M7", f, f"{f.short}({', '.join(f.params)})", sample=False)


def _describe(eng, f, pi):
    s = eng.summary(f)
    sites = s.mut_sites.get(pi, [])
    return "; ".join(f"{r}:{ln} `{t[:70]}`" for r, ln, t in sites[:3])


def _first_event(eng, f, pi):
    fa = eng.analysis(f)
    paths = eng.summary(f).mut.get(pi, set())
    for ev in fa.events:
        for o in ev.targets:
            if is_shared_param(o) and o[0][1] == pi and o[2] in paths:
                return ev, o
    return None, None


def rule_M1(chk, eng, funcs):
    chk.rule("M1", "public value-returning operations never write (storage or fields reachable from) a parameter",
             floor=300)
    procedures = []
    for f in funcs:
        if not is_public(f, eng.prog) or is_inplace(f):
            continue
        s = eng.summary(f)
        fa = eng.analysis(f)
        returns = s.returns_value
        params = f.params
        kw_i = params.index(fa.kwarg) if fa.kwarg else None
        bad = {}
        for pi, paths in s.mut.items():
            if not paths:
                continue
            bad[pi] = paths
        if not returns:
            if bad:
                procedures.append(f"{f.short}({', '.join(params[i] for i in bad)})")
            continue
        if not bad:
            chk.ok("M1", f, f"{f.short}({', '.join(params)})", sample=False)
            continue
        reported = False
        for pi, paths in sorted(bad.items()):
            pname = params[pi]
            if (f.short, pname) in EXCEPTIONS or (f.name, pname) in EXCEPTIONS:
                reason = EXCEPTIONS.get((f.short, pname)) or EXCEPTIONS.get((f.name, pname))
                # the exception covers the named memo/accumulator only
                if pname == "self" and not all(p in MEMO_FILL for p in paths):
                    pass
                else:
                    chk.note(f"M1 named exception {f.short}({pname}): {reason}")
                    continue
            ev, o = _first_event(eng, f, pi)
            node = ev.node if ev is not None else f.node
            construct = ev.text if ev is not None else f"{f.short}:{pname}"
            via = ""
            if ev is not None and ev.via:
                cal, cpi, m, sites = ev.via
                via = f" [callee {cal.short} writes `{cal.params[cpi] if cpi is not None else '?'}`" \
                      f"{('.' + '.'.join(m)) if m else ''}: " + "; ".join(f"{r}:{ln} `{t[:60]}`" for r, ln, t in sites[:2]) + "]"
            where = ".".join(o[2]) if o is not None and o[2] else ""
            chk.bad("M1", (f, node), construct,
                    f"{f.short}() is public, returns a value and is not part of the in-place API, but may write its "
                    f"parameter `{pname}`{('.' + where) if where else ''}: {ev.kind if ev is not None else ''}{via}",
                    {"parameter": pname, "paths": [".".join(p) for p in sorted(paths)][:6]})
            reported = True
        if not reported:
            chk.ok("M1", f, f"{f.short}({', '.join(params)})", sample=False)
    chk.extra["procedures_mutating_in_place_by_contract"] = sorted(procedures)[:80]


def rule_M2(chk, eng, funcs):
    chk.rule("M2", "in-place API functions write only their receiver (first parameter)", floor=30)
    for f in funcs:
        if not is_inplace(f) or f.name in ("__init__", "__post_init__", "__new__") or not is_public(f, eng.prog):
            continue            # private in-place helpers are judged through their public callers
        s = eng.summary(f)
        bad = {pi: p for pi, p in s.mut.items() if p and pi != 0}
        if not bad:
            chk.ok("M2", f, f"{f.short}({', '.join(f.params)})", sample=False)
            continue
        flagged = False
        for pi, paths in sorted(bad.items()):
            pname = f.params[pi]
            if pname in M2_EXC.get(f.short, {}):
                chk.note(f"M2 named exception {f.short}({pname}): {M2_EXC[f.short][pname]}")
                continue
            ev, o = _first_event(eng, f, pi)
            chk.bad("M2", (f, ev.node if ev else f.node), ev.text if ev else f.short,
                    f"in-place function {f.short}() also writes its parameter `{pname}`"
                    f"{('.' + '.'.join(o[2])) if o is not None and o[2] else ''}: {ev.kind if ev else ''}",
                    {"parameter": pname})
            flagged = True
        if not flagged:
            chk.ok("M2", f, f"{f.short}({', '.join(f.params)})", sample=False)


# in-place API functions that legitimately write a second parameter
M2_EXC = {
    "dmrg_": {"opts_eigs": "fills its own defaults dict (fresh when None)"},
}


def _ret_exprs(f):
    return [r.value for r in A.returns_of(f.node) if r.value is not None]


CONTAINER_FIELDS = {"A", "F", "_site_data", "_patch", "swaps", "_env", "envs", "_envs", "_temp", "ops", "info", "env", "proj"}
# containers whose elements are immutable values (a new dict is a full copy):
#   DoublePepsTensor.swaps : {axis label -> charge tuple}   (filled by add_charge_swaps_)
IMMUTABLE_ELEMENT_CONTAINERS = {"swaps"}
VALUE_FIELDS = {"geometry", "config", "dims", "sites", "nn_site", "bonds", "site2index", "Nx", "Ny", "boundary",
                "f_ordered", "nn_bond_dirn", "which", "_which", "tol_positive", "flag", "trans", "sym", "tol", "pC",
                "factor", "_N", "_nr_phys", "N", "nr_phys"}


def rule_M3(chk, eng, funcs):
    """copy()/clone(): no array reachable from the result may be storage of the source.
    Judged on the return summary of the alias analysis, at the nesting level where the copy is made:
      ()            the receiver itself (or a part of it) is returned                      -> violation
      (X,) / ('=',) result.X *is* an object of the source / result is a field-wise shallow copy -> violation
      (C, '*')      elements of container C are the source's elements                      -> violation
      (C, '=')      C was shallow-copied; accepted only if a loop re-stores a copy of *every* element (M3-loop)
    deeper tags stem from the name-based union of callee candidates (e.g. `x.copy()` on a field of unknown class)
    and are judged where that callee is analysed itself."""
    chk.rule("M3", "copy()/clone() results share no array storage with the source; shallow_copy() shares "
             "tensors but owns its containers", floor=12)
    validated = rule_M3_structural(chk, eng, funcs)
    rule_M3_env(chk)
    for f in funcs:
        if f.name not in ("copy", "clone", "shallow_copy"):
            continue
        if f.module.name.startswith("yastn.backend"):
            continue
        s = eng.summary(f)
        owner = f.short
        shared0 = [o for o in s.ret if o[0] != "F" and o[0] == ("P", 0)]
        if f.name == "shallow_copy":
            same = [o for o in shared0 if not o[1]]
            direct_container = [o for o in shared0 if len(o[1]) == 1 and o[1][0] in CONTAINER_FIELDS
                                and o[2] and o[2][0] in CONTAINER_FIELDS]
            if same:
                chk.bad("M3", f, f"{owner}()", "shallow_copy may return its receiver itself (or a part of it)",
                        {"ret": sorted(map(str, same))[:4]})
            elif direct_container:
                chk.bad("M3", f, f"{owner}()", "shallow_copy shares a container with its source: result."
                        + ", result.".join(f"{o[1][0]} is source.{'.'.join(o[2])}" for o in direct_container[:3]),
                        {"ret": sorted(map(str, direct_container))[:4]})
            else:
                chk.ok("M3", f, f"{owner}()", {"ret": sorted(map(str, shared0))[:4]})
            continue
        leaks = []
        for o in shared0:
            tags, path = o[1], o[2]
            if path and path[0] in VALUE_FIELDS:
                continue
            if tags and tags[0] in VALUE_FIELDS:
                continue
            if len(tags) == 0:
                leaks.append((o, f"returns source{('.' + '.'.join(path)) if path else ''} itself"))
            elif len(tags) == 1:
                if tags[0] == "=":
                    leaks.append((o, "result is a field-wise shallow copy of the source (storage shared)"))
                else:
                    leaks.append((o, f"result.{tags[0]} is source.{'.'.join(path)}"))
            elif len(tags) == 2 and tags[1] == "*":
                leaks.append((o, f"elements of result.{tags[0]} are elements of source.{'.'.join(path)}"))
            elif len(tags) == 2 and tags[1] == "=":
                if tags[0] in IMMUTABLE_ELEMENT_CONTAINERS:
                    continue
                if (id(f.node), tags[0]) not in validated:
                    leaks.append((o, f"result.{tags[0]} is a shallow copy of source.{'.'.join(path)} and no loop "
                                     f"re-stores a copy of every element"))
        if leaks:
            chk.bad("M3", f, f"{owner}()",
                    f"{owner}() may return an object that still shares mutable state/storage with its source: "
                    + "; ".join(m for _, m in leaks[:4]), {"ret": sorted(str(o) for o, _ in leaks)[:6]})
        else:
            chk.ok("M3", f, f"{owner}()", {"ret": sorted(map(str, shared0))[:4]})


def rule_M3_env(chk):
    """copy()/clone() of PEPS environments: every field that shallow_copy() carries over (except the shared state `psi`, which
    the docstrings name as shared) is carried by copy()/clone() through .copy()/.clone() of the source's field; the generic
    dataclass of environment tensors maps copy/clone over all its fields."""
    prog = chk.prog
    n = 0
    for mod, cname in (("yastn.tn.fpeps.envs._env_ctm", "EnvCTM"), ("yastn.tn.fpeps.envs._env_bp", "EnvBP")):
        ci = prog.cls(mod, cname)
        sh = ci.methods.get("shallow_copy")
        if sh is None:
            raise AnalysisError(f"{cname}.shallow_copy not found")

        def carried(f):
            me = f.params[0]
            new = [n_.targets[0].id for n_ in A.walk_local(f.node) if isinstance(n_, ast.Assign) and isinstance(n_.targets[0], ast.Name)
                   and isinstance(n_.value, ast.Call) and not isinstance(n_.value.func, ast.Attribute) or
                   (isinstance(n_, ast.Assign) and isinstance(n_.targets[0], ast.Name) and isinstance(n_.value, ast.Call)
                    and A.text(n_.value.func) in ("cls", cname, f"type({me})"))]
            out = {}
            for n_ in A.walk_local(f.node):
                if isinstance(n_, ast.Assign) and isinstance(n_.targets[0], ast.Attribute) and A.text(n_.targets[0].value) in new:
                    out[n_.targets[0].attr] = n_
            return me, out
        _, base = carried(sh)
        if not base:
            raise AnalysisError(f"{cname}.shallow_copy: carried fields not found")
        for name in ("copy", "clone"):
            f = ci.methods.get(name)
            if f is None:
                raise AnalysisError(f"{cname}.{name} not found")
            me, got = carried(f)
            for fld in sorted(base):
                n += 1
                st = got.get(fld)
                ok = st is not None and isinstance(st.value, ast.Call) and A.callee_attr(st.value) == name and A.text(st.value.func.value) == f"{me}.{fld}"
                chk.verdict("M3", (f, st if st is not None else f.node), f"{cname}.{name}(): field `{fld}` = {me}.{fld}.{name}()", True if ok else False,
                            f"{cname}.{name}(): the field `{fld}`, which shallow_copy() carries over, is not carried by {name}() as `{me}.{fld}.{name}()`: "
                            f"the {name} shares (or lacks) the environment tensors of its source")
    dc = prog.cls("yastn.tn.fpeps.envs._env_dataclasses", "dataclasses_common")
    for name in ("copy", "clone"):
        f = dc.methods[name]
        me = f.params[0]
        comps = [x for x in ast.walk(f.node) if isinstance(x, ast.DictComp)]
        ok = False
        if len(comps) == 1:
            c = comps[0]
            ok = isinstance(c.value, ast.Call) and A.callee_attr(c.value) == name and A.text(c.generators[0].iter) == f"fields({me})"
        n += 1
        chk.verdict("M3", f, f"dataclasses_common.{name}(): every field through .{name}()", True if ok else False,
                    f"dataclasses_common.{name}() does not map .{name}() over all fields(self)")
    return n


def rule_M3_structural(chk, eng, funcs):
    """M3-loop: a copy/clone built as `phi = self.shallow_copy(); for .. in X: phi.C[k] = v.copy()` must
    iterate the *whole* container C of the source (or of phi) — not a subset such as sweep()/range(first,last).
    Returns the set of validated (function id, container field)."""
    validated = set()
    for f in funcs:
        if f.name not in ("copy", "clone") or f.module.name.startswith("yastn.backend"):
            continue
        fn = f.node
        sc = [n for n in A.walk_local(fn) if isinstance(n, ast.Assign) and isinstance(n.value, ast.Call)
              and A.callee_attr(n.value) == "shallow_copy"]
        if not sc:
            continue
        me = f.params[0] if f.params else "self"
        for loop in [n for n in A.walk_local(fn) if isinstance(n, ast.For)]:
            stores = [n for n in A.walk_local(loop) if isinstance(n, ast.Assign) and isinstance(n.targets[0], ast.Subscript)
                      and isinstance(n.value, ast.Call) and A.callee_attr(n.value) == f.name]
            if not stores:
                continue
            it_t = A.text(loop.iter)
            tgt = stores[0].targets[0]
            cont = A.text(tgt.value)             # e.g. phi.A
            field = cont.split(".")[-1]
            ok = False
            for base in (me, A.text(sc[0].targets[0])):
                if it_t in (f"{base}.{field}.items()", f"{base}.{field}", f"{base}.{field}.keys()",
                            f"list({base}.{field}.items())", f"list({base}.{field})", f"tuple({base}.{field}.items())",
                            f"list({base}.{field}.keys())"):
                    ok = True
            # the stored key must be the loop's key and the copied value the loop's value
            key_ok = True
            if ok and isinstance(loop.target, ast.Tuple) and len(loop.target.elts) == 2:
                kname, vname = A.text(loop.target.elts[0]), A.text(loop.target.elts[1])
                key_ok = A.text(tgt.slice) == kname and A.text(stores[0].value.func).startswith(vname + ".")
            if ok and key_ok:
                validated.add((id(f.node), field))
                chk.ok("M3", (f, loop), f"for ... in {it_t}: {cont}[..] = ..{f.name}()", {"covers": f"all keys of {field}"})
            else:
                chk.bad("M3", (f, loop), f"for ... in {it_t}: {cont}[..] = ..{f.name}()",
                        f"{f.short}() copies elements while iterating `{it_t}`, which is not provably the whole container "
                        f"`{field}` of the source: elements not visited stay shared with the source")
    return validated


def rule_M4(chk, eng):
    chk.rule("M4", "backend_np kernels write only arrays they allocated; data-producing kernels return fresh "
             "storage or a declared view", floor=60)
    b = eng.backends[0]
    allowed_mut = {"fix_svd_signs": {0, 1}, "detach_": {0}, "requires_grad_": {0}}
    for f in b.funcs.values():
        if id(f.node) not in eng.summ:
            continue
        s = eng.summary(f)
        bad = {pi: p for pi, p in s.mut.items() if p and pi not in allowed_mut.get(f.name, set())}
        if bad:
            for pi in bad:
                ev, o = _first_event(eng, f, pi)
                chk.bad("M4", (f, ev.node if ev else f.node), ev.text if ev else f.name,
                        f"backend kernel {f.name}() writes into its argument `{f.params[pi]}` ({ev.kind if ev else ''}); "
                        f"results must be written into newly allocated arrays")
        else:
            chk.ok("M4", f, f"{f.name}({', '.join(f.params)})", sample=False)
    # augmented assignment on a name that still holds the caller's array (`data /= Snorm`): numpy performs it in place.  The engine
    # records it as undecided when it does not know the kind of the parameter; in the backend a parameter is an array if the kernel
    # subscripts it, reads an array attribute of it, or hands it to a numpy/scipy function.
    ARRAY_ATTRS = {"shape", "dtype", "reshape", "real", "imag", "size", "ndim", "T", "conj", "astype", "copy", "flatten", "ravel"}
    for f in b.funcs.values():
        if id(f.node) not in eng.summ:
            continue
        fa = eng.analysis(f)
        for node, why in fa.undecided:
            if not (isinstance(node, ast.AugAssign) and isinstance(node.target, ast.Name) and "augmented assignment" in why):
                continue
            nm = node.target.id
            arrayish = False
            for n in ast.walk(f.node):
                if isinstance(n, ast.Subscript) and isinstance(n.value, ast.Name) and n.value.id == nm:
                    arrayish = True
                elif isinstance(n, ast.Attribute) and isinstance(n.value, ast.Name) and n.value.id == nm and n.attr in ARRAY_ATTRS:
                    arrayish = True
                elif isinstance(n, ast.Call) and (A.call_name(n) or "").startswith(("np.", "scipy.", "numpy.")) \
                        and any(isinstance(a_, ast.Name) and a_.id == nm for a_ in n.args):
                    arrayish = True
            if arrayish and nm in f.params and f.params.index(nm) not in allowed_mut.get(f.name, set()):
                chk.bad("M4", (f, node), A.text(node),
                        f"backend kernel {f.name}(): `{A.text(node)}` is an in-place operation on the array the caller passed as `{nm}` "
                        f"(the name still refers to the argument there): the operand of the public operation is modified")
            else:
                chk.ok("M4", (f, node), f"{f.name}: `{A.text(node)}` on a scalar / local", sample=False)
    # declared views: functions that may return (a view of) an argument
    declared = {"conj", "real", "imag", "detach", "detach_", "move_to", "permute_dims", "to_numpy", "to_tensor",
                "requires_grad_", "fix_svd_signs", "bitwise_not", "get_dtype", "diag_get", "real_dtype",
                "get_device", "get_yastn_dtype", "get_shape", "get_size", "count_nonzero", "isrealobj", "cuda_is_available",
                "first_element", "item"}
    views = {}
    for f in b.funcs.values():
        if id(f.node) not in eng.summ:
            continue
        s = eng.summary(f)
        alias0 = [o for o in s.ret if o[0] != "F" and not o[1]]
        if alias0:
            views[f.name] = sorted({f.params[o[0][1]] for o in alias0 if o[0][0] == "P"})
    chk.extra["backend_functions_that_may_return_an_argument"] = views
    for name, ps in sorted(views.items()):
        f = b.funcs[name]
        if name in declared:
            chk.ok("M4", f, f"{name}: may return a view of {ps}", sample=False)
        else:
            chk.bad("M4", f, f"{name} returns argument",
                    f"backend kernel {name}() may return (a view of) its argument {ps} instead of a new array; "
                    f"it is not in the table of declared view-returning kernels")


TENSOR_STATE = {"struct", "slices", "_data", "mfs", "hfs", "_trans", "config"}


def rule_M5(chk, eng, funcs):
    chk.rule("M5", "tensor state fields are written only by the constructor, the in-place API, or on objects "
             "that are fresh in the writing function", floor=10)
    for f in funcs:
        fa = eng.analysis(f)
        for ev in fa.events:
            if ev.kind not in ("attribute store", "augmented attribute store", "setattr", "object.__setattr__"):
                continue
            node = ev.node
            fld = None
            if isinstance(node, (ast.Assign, ast.AugAssign)):
                t = node.targets[0] if isinstance(node, ast.Assign) else node.target
                if isinstance(t, ast.Attribute):
                    fld = t.attr
            if fld not in TENSOR_STATE:
                continue
            shared = [o for o in ev.targets if is_shared_param(o) or is_shared_global(o)]
            if not shared:
                chk.ok("M5", (f, node), ev.text, {"target": "fresh object"}, sample=True)
                continue
            if is_inplace(f) or not is_public(f, eng.prog):
                # in-place API, or a private helper: its callers are judged by M1/M2 through the summary
                chk.ok("M5", (f, node), ev.text, {"target": "receiver of in-place API / private helper"})
                continue
            if f.cls is not None and f.cls.name != "Tensor" and fld in ("config",) :
                chk.ok("M5", (f, node), ev.text, {"target": "non-tensor class field of the same name"})
                continue
            chk.bad("M5", (f, node), ev.text,
                    f"{f.short}() stores tensor state field `{fld}` on an object that may be one of its arguments")


MUTANTS = [
    ('entropy kernel normalises its argument in place', 'yastn/backend/backend_np.py', '        data = data / Snorm\n        data = data[data > tol]', '        data /= Snorm\n        data = data[data > tol]', 'M4'),
    ('projector dictionaries of the caller reused', 'yastn/tn/fpeps/_gates_auxiliary.py', '        projectors[k] = dict(v) if isinstance(v, dict) else dict(enumerate(v))', '        projectors[k] = v if isinstance(v, dict) else dict(enumerate(v))', 'M6'),
    ('BP sampling works on the stored site environments', 'yastn/tn/fpeps/envs/_env_bp.py', '                env[nx, ny] = self[nx0, ny0].shallow_copy()', '                env[nx, ny] = self[nx0, ny0]', 'M7'),
    ('history list shared through the default', 'yastn/tn/fpeps/envs/_env_ctm.py', 'history: None | Sequence[dict[tuple[Site, str], Tensor]]=None,', 'history: None | Sequence[dict[tuple[Site, str], Tensor]]=[],', 'M8'),
    ('LAPACK may overwrite the operand', 'yastn/backend/backend_np.py', '            S = scipy.linalg.svd(data[slice(*sl)].reshape(D), full_matrices=False, compute_uv=False)\n', '            S = scipy.linalg.svd(data[slice(*sl)].reshape(D), full_matrices=False, compute_uv=False, overwrite_a=True)\n', 'M1'),
    ("gate application pops from the receiver's swaps", "yastn/tn/fpeps/_doublePepsTensor.py",
     "        swaps = dict(self.swaps)\n        if 'k4' in swaps:", "        swaps = self.swaps\n        if 'k4' in swaps:", "M1"),
    ("product_peps fills the caller's dict", "yastn/tn/fpeps/_initialize.py", "    else:\n        vectors = dict(vectors)\n", "", "M1"),
    ("unroll resolution writes the caller's dict", "yastn/tensor/oe_blocksparse.py",
     "    unroll = dict(unroll)  # resolved values are stored in a copy; do not modify the caller's dict\n", "", "M1"),
    ("scalar multiplication in place", "yastn/tensor/_algebra.py", "    data = a._data * number\n    if a.config.backend.get_size(data) != a.struct.size:",
     "    data = a._data\n    data *= number\n    if a.config.backend.get_size(data) != a.struct.size:", "M1"),
    ("Tensor.copy shares data", "yastn/tensor/_single.py", "    data = a.config.backend.copy(a._data)\n    return a._replace(data=data)", "    data = a._data\n    return a._replace(data=data)", "M3"),
    ("MPS copy keeps tensors", "yastn/tn/mps/_mps_parent.py", "        for ind, ten in phi.A.items():\n            phi.A[ind] = ten.copy()\n        return phi", "        return phi", "M3"),
    ("shallow copy shares the dict of tensors", "yastn/tn/mps/_mps_parent.py", "        phi.A = dict(self.A)\n", "        phi.A = self.A\n", "M3"),
    ("backend add accumulates into its first operand", "yastn/backend/backend_np.py",
     "    newdata = np.zeros(Dsize, dtype=dtype)\n    for data, meta in zip(datas, metas):\n        for sl_c, sl_a in meta:\n            newdata[slice(*sl_c)] += data[slice(*sl_a)]",
     "    newdata = datas[0]\n    for data, meta in zip(datas[1:], metas[1:]):\n        for sl_c, sl_a in meta:\n            newdata[slice(*sl_c)] += data[slice(*sl_a)]", "M4"),
]
BENIGN = [
    ("copy via list of pairs", "yastn/tn/fpeps/_doublePepsTensor.py", "        swaps = dict(self.swaps)\n        if 'k4' in swaps:", "        swaps = {k: v for k, v in self.swaps.items()}\n        if 'k4' in swaps:"),
    ("multiplication operands swapped", "yastn/tensor/_algebra.py", "    data = a._data * number\n    if a.config.backend.get_size(data) != a.struct.size:", "    data = number * a._data\n    if a.config.backend.get_size(data) != a.struct.size:"),
    ("copy with explicit temporary", "yastn/tensor/_single.py", "    data = a.config.backend.copy(a._data)\n    return a._replace(data=data)", "    backend = a.config.backend\n    data = backend.copy(a._data)\n    return a._replace(data=data)"),
]
