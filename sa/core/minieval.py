"""A total evaluator for small guard expressions over given witness values.

Used where a rule has to decide what a *validation guard* accepts and the guard can be written in many equivalent ways
(`not all(int(x) == x and x > 0 for x in D)`, `any(x <= 0 or x != int(x) for x in D)`, two separate guards, ...).  Instead of
matching shapes, the guard's AST is evaluated by this interpreter on a finite set of witness values chosen by the rule (valid
and invalid ones); no code of the repository is executed — only literals, comparisons, boolean operators, comprehensions over
the witness and a whitelist of pure builtins are interpreted.  Anything else raises CannotEvaluate and the rule reports an
analysis error instead of guessing.
"""
from __future__ import annotations

import ast
import numbers
import operator


class CannotEvaluate(Exception):
    pass


_CMP = {ast.Eq: operator.eq, ast.NotEq: operator.ne, ast.Lt: operator.lt, ast.LtE: operator.le, ast.Gt: operator.gt, ast.GtE: operator.ge,
        ast.Is: operator.is_, ast.IsNot: operator.is_not, ast.In: lambda a, b: a in b, ast.NotIn: lambda a, b: a not in b}
_BIN = {ast.Add: operator.add, ast.Sub: operator.sub, ast.Mult: operator.mul, ast.Mod: operator.mod, ast.FloorDiv: operator.floordiv,
        ast.Div: operator.truediv}
_FUNCS = {"all": all, "any": any, "int": int, "len": len, "abs": abs, "min": min, "max": max, "sum": sum, "set": set, "tuple": tuple,
          "list": list, "sorted": sorted, "float": float, "bool": bool, "round": round, "zip": lambda *a: list(zip(*a)), "dict": dict,
          "enumerate": lambda *a: list(enumerate(*a)), "range": range, "reversed": lambda a: list(reversed(a)), "frozenset": frozenset}
_METHODS = {(dict, "keys"): lambda d: list(d.keys()), (dict, "values"): lambda d: list(d.values()), (dict, "items"): lambda d: list(d.items()),
            (tuple, "count"): tuple.count, (list, "count"): list.count, (tuple, "index"): tuple.index, (list, "index"): list.index}
_TYPES = {"int": int, "float": float, "Integral": numbers.Integral, "Number": numbers.Number, "Real": numbers.Real, "tuple": tuple, "list": list,
          "dict": dict, "str": str, "bool": bool}


def evaluate(node, env):
    def ev(n, env):
        if isinstance(n, ast.Constant):
            return n.value
        if isinstance(n, ast.Name):
            if n.id in env:
                return env[n.id]
            raise CannotEvaluate(f"name {n.id}")
        if isinstance(n, ast.Attribute):
            # self.D and the like are looked up as dotted names
            key = ast.unparse(n)
            if key in env:
                return env[key]
            raise CannotEvaluate(f"attribute {key}")
        if isinstance(n, (ast.Tuple, ast.List)):
            v = [ev(e, env) for e in n.elts]
            return tuple(v) if isinstance(n, ast.Tuple) else v
        if isinstance(n, ast.UnaryOp):
            v = ev(n.operand, env)
            if isinstance(n.op, ast.Not):
                return not v
            if isinstance(n.op, ast.USub):
                return -v
            if isinstance(n.op, ast.UAdd):
                return +v
        if isinstance(n, ast.BoolOp):
            if isinstance(n.op, ast.And):
                r = True
                for v in n.values:
                    r = ev(v, env)
                    if not r:
                        return r
                return r
            r = False
            for v in n.values:
                r = ev(v, env)
                if r:
                    return r
            return r
        if isinstance(n, ast.Compare):
            left = ev(n.left, env)
            for op, c in zip(n.ops, n.comparators):
                right = ev(c, env)
                f = _CMP.get(type(op))
                if f is None:
                    raise CannotEvaluate("comparison")
                if not f(left, right):
                    return False
                left = right
            return True
        if isinstance(n, ast.BinOp) and type(n.op) in _BIN:
            return _BIN[type(n.op)](ev(n.left, env), ev(n.right, env))
        if isinstance(n, ast.IfExp):
            return ev(n.body, env) if ev(n.test, env) else ev(n.orelse, env)
        if isinstance(n, ast.Subscript) and not isinstance(n.slice, ast.Slice):
            return ev(n.value, env)[ev(n.slice, env)]
        if isinstance(n, (ast.GeneratorExp, ast.ListComp, ast.SetComp)):
            out = []

            def rec(i, env_):
                if i == len(n.generators):
                    out.append(ev(n.elt, env_))
                    return
                g = n.generators[i]
                for item in ev(g.iter, env_):
                    e2 = dict(env_)
                    bind(g.target, item, e2)
                    if all(ev(c, e2) for c in g.ifs):
                        rec(i + 1, e2)
            rec(0, env)
            return set(out) if isinstance(n, ast.SetComp) else out
        if isinstance(n, ast.Call) and isinstance(n.func, ast.Name) and n.func.id in ("max", "min") and n.keywords \
                and all(k.arg == "default" for k in n.keywords):
            try:
                return _FUNCS[n.func.id](*[ev(a, env) for a in n.args], default=ev(n.keywords[0].value, env))
            except CannotEvaluate:
                raise
            except Exception as e:  # noqa: BLE001
                raise CannotEvaluate(f"{n.func.id} raised {type(e).__name__}") from e
        if isinstance(n, ast.Call) and isinstance(n.func, ast.Name) and not n.keywords:
            if n.func.id == "isinstance" and len(n.args) == 2:
                t = n.args[1]
                names = [ast.unparse(e) for e in (t.elts if isinstance(t, ast.Tuple) else [t])]
                ts = []
                for nm in names:
                    nm = nm.split(".")[-1]
                    if nm not in _TYPES:
                        raise CannotEvaluate(f"type {nm}")
                    ts.append(_TYPES[nm])
                return isinstance(ev(n.args[0], env), tuple(ts))
            if n.func.id in _FUNCS:
                try:
                    argv = []
                    for a in n.args:
                        if isinstance(a, ast.Starred):
                            argv.extend(list(ev(a.value, env)))
                        else:
                            argv.append(ev(a, env))
                    return _FUNCS[n.func.id](*argv)
                except CannotEvaluate:
                    raise
                except Exception as e:  # noqa: BLE001   e.g. int('a'): the guard itself would raise
                    raise CannotEvaluate(f"{n.func.id} raised {type(e).__name__}") from e
        if isinstance(n, ast.Call) and isinstance(n.func, ast.Attribute) and not n.keywords:
            recv = ev(n.func.value, env)
            for (ty, nm), f in _METHODS.items():
                if nm == n.func.attr and isinstance(recv, ty):
                    try:
                        return f(recv, *[ev(a, env) for a in n.args])
                    except CannotEvaluate:
                        raise
                    except Exception as e:  # noqa: BLE001
                        raise CannotEvaluate(f"{nm} raised {type(e).__name__}") from e
        if isinstance(n, ast.Subscript) and isinstance(n.slice, ast.Slice):
            sl = n.slice
            return ev(n.value, env)[slice(*(None if b is None else ev(b, env) for b in (sl.lower, sl.upper, sl.step)))]
        if isinstance(n, ast.Starred):
            raise CannotEvaluate("starred")
        raise CannotEvaluate(ast.unparse(n)[:60])

    def bind(t, v, env_):
        if isinstance(t, ast.Name):
            env_[t.id] = v
        elif isinstance(t, (ast.Tuple, ast.List)):
            v = list(v)
            if len(v) != len(t.elts):
                raise CannotEvaluate("unpack")
            for tt, vv in zip(t.elts, v):
                bind(tt, vv, env_)
        else:
            raise CannotEvaluate("target")
    return ev(node, env)


class _Return(Exception):
    def __init__(self, value):
        self.value = value


class _Continue(Exception):
    pass


class _Break(Exception):
    pass


def _bind_target(t, v, env):
    if isinstance(t, ast.Name):
        env[t.id] = v
    elif isinstance(t, (ast.Tuple, ast.List)):
        v = list(v)
        if len(v) != len(t.elts):
            raise CannotEvaluate("unpack")
        for tt, vv in zip(t.elts, v):
            _bind_target(tt, vv, env)
    else:
        raise CannotEvaluate("target")


def run_function(fn: ast.FunctionDef, env):
    """Interprets a small function body made of assignments to names, if/elif/else, return, pass and docstrings on the witness
    environment `env` (parameters already bound).  Anything else raises CannotEvaluate.  Returns the returned value (None without return)."""
    env = dict(env)

    def block(stmts):
        for st in stmts:
            if isinstance(st, ast.Expr) and isinstance(st.value, ast.Constant):
                continue
            if isinstance(st, ast.Pass):
                continue
            if isinstance(st, ast.Return):
                raise _Return(evaluate(st.value, env) if st.value is not None else None)
            if isinstance(st, ast.Assign) and len(st.targets) == 1:
                v = evaluate(st.value, env)
                t = st.targets[0]
                if isinstance(t, ast.Name):
                    env[t.id] = v
                    continue
                if isinstance(t, (ast.Tuple, ast.List)) and all(isinstance(e, ast.Name) for e in t.elts):
                    v = list(v)
                    if len(v) != len(t.elts):
                        raise CannotEvaluate("unpack")
                    for e, x in zip(t.elts, v):
                        env[e.id] = x
                    continue
                raise CannotEvaluate("assignment target")
            if isinstance(st, ast.If):
                block(st.body if evaluate(st.test, env) else st.orelse)
                continue
            if isinstance(st, ast.For) and not st.orelse:
                steps = 0
                for item in list(evaluate(st.iter, env)):
                    steps += 1
                    if steps > 10000:
                        raise CannotEvaluate("loop too long")
                    _bind_target(st.target, item, env)
                    try:
                        block(st.body)
                    except _Continue:
                        continue
                    except _Break:
                        break
                continue
            if isinstance(st, ast.Continue):
                raise _Continue()
            if isinstance(st, ast.Break):
                raise _Break()
            if isinstance(st, ast.Expr) and isinstance(st.value, ast.Call) and isinstance(st.value.func, ast.Attribute) and isinstance(st.value.func.value, ast.Name) \
                    and st.value.func.attr in ("append", "extend") and isinstance(env.get(st.value.func.value.id), list) and len(st.value.args) == 1 and not st.value.keywords:
                v = evaluate(st.value.args[0], env)
                getattr(env[st.value.func.value.id], st.value.func.attr)(v if st.value.func.attr == "append" else list(v))
                continue
            if isinstance(st, ast.AugAssign) and isinstance(st.target, ast.Name) and st.target.id in env and type(st.op) in _BIN:
                env[st.target.id] = _BIN[type(st.op)](env[st.target.id], evaluate(st.value, env))
                continue
            raise CannotEvaluate(f"statement {type(st).__name__}")
    try:
        block(fn.body)
    except _Return as r:
        return r.value
    return None
