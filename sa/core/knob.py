"""Value resolution under an assumption on boolean parameters ("knobs").

`KnobEval(fn, {"nU": True})` answers: which expressions can the local `name` hold at statement `at`, when the function
runs with nU=True?  Definitions are the reaching definitions on the CFG specialised on the assumption (if-tests and
conditional expressions on the knob are decided, everything else keeps both branches); tuple assignments and
unpackings of (conditional) tuples are resolved per element.  The point is to make rules independent of whether a
value is selected by a conditional expression, an if/else statement, or through a temporary.
"""
from __future__ import annotations

import ast
import copy

from . import astutil as A
from .cfg import CFG, specialise_expr, partial_eval


class KnobEval:
    def __init__(self, fn: ast.FunctionDef, assume: dict, cfg: CFG | None = None):
        self.fn = fn
        self.assume = dict(assume)
        self.base = cfg or CFG(fn)
        self.g = self.base.specialised(self.assume) if assume else self.base
        self.live = self.g.reach_from({self.g.entry.id})
        self.parent = A.enclosing_map(fn)
        self.b = A.local_bindings(fn)
        a = fn.args
        self.params = {x.arg for x in a.posonlyargs + a.args + a.kwonlyargs}

    def is_live(self, st):
        n = self.base.node_of.get(st)
        return n is not None and n.id in self.live

    def _defs(self, name, at):
        all_ = [(st, v, k) for st, v, k in self.b.get(name, []) if st in self.base.node_of and self.base.node_of[st].id in self.live]
        if at is None:
            return all_
        tgt = at if isinstance(at, ast.stmt) else A.stmt_of(at, self.parent)
        if tgt not in self.base.node_of:
            return all_
        out = []
        for st, v, k in all_:
            others = [s2 for s2, _, _ in all_ if s2 is not st and s2 is not tgt]
            if st is tgt:
                # a statement does not see its own definition unless it sits in a loop
                if self.g.path_exists(st, tgt, avoiding=others):
                    out.append((st, v, k))
                continue
            if self.g.path_exists(st, tgt, avoiding=others):
                out.append((st, v, k))
        return out

    def values(self, name, at):
        """list of specialised value expressions of local `name` reaching `at` (None entries: not an expression)"""
        out = []
        for st, v, k in self._defs(name, at):
            if v is None:
                out.append(None)
                continue
            v = specialise_expr(v, self.assume)
            if k == "assign":
                out.append(v)
            elif k == "unpack" and isinstance(st, ast.Assign) and isinstance(st.targets[0], (ast.Tuple, ast.List)) \
                    and isinstance(v, (ast.Tuple, ast.List)) and len(v.elts) == len(st.targets[0].elts) \
                    and not any(isinstance(e, ast.Starred) for e in v.elts):
                for t, e in zip(st.targets[0].elts, v.elts):
                    if isinstance(t, ast.Name) and t.id == name:
                        out.append(specialise_expr(e, self.assume))
            else:
                out.append(None)
        return out

    def expand(self, expr, at, depth=6, stop=()):
        """expression with every local that has exactly one reaching value replaced by that value (recursively)"""
        if depth <= 0 or expr is None:
            return expr
        expr = specialise_expr(expr, self.assume)
        outer = self
        shadow = A.comp_targets(expr)

        class T(ast.NodeTransformer):
            def visit_IfExp(self, n):
                v = partial_eval(n.test, outer.assume)
                if v is None:
                    return self.generic_visit(n)
                return self.visit(n.body if v else n.orelse)

            def visit_Name(self, n):
                if isinstance(n.ctx, ast.Load) and n.id not in shadow and n.id not in outer.params and n.id not in stop and n.id in outer.b:
                    vs = outer.values(n.id, at)
                    if len(vs) == 1 and vs[0] is not None:
                        # where the definition itself was made, its own operands are resolved
                        dst = outer._defs(n.id, at)[0][0]
                        return outer.expand(copy.deepcopy(vs[0]), dst, depth - 1, stop)
                return n
        return T().visit(copy.deepcopy(expr))

    def text(self, expr, at, **kw):
        return A.text(self.expand(expr, at, **kw))
